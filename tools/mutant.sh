#!/bin/bash
# usage: mutant.sh <ID> <file-under-/repo> <python-regex-or-literal old> <new>   (literal replace, first occurrence)
# applies a one-line mutation to /repo, runs the quick check, reverts. Prints CAUGHT/MISSED.
ID="$1"; F="$2"; OLD="$3"; NEW="$4"
cd /repo || exit 2
if ! git diff --quiet; then echo "repo dirty, refusing"; exit 2; fi
python3 - "$F" "$OLD" "$NEW" <<'PY'
import sys
f,old,new=sys.argv[1:4]
s=open(f).read()
if old not in s:
    print("PATTERN NOT FOUND"); sys.exit(3)
open(f,'w').write(s.replace(old,new,1))
PY
rc=$?
if [ $rc -ne 0 ]; then git checkout -- .; exit $rc; fi
if ! cargo build --offline -q 2>/dev/null; then echo "MUTANT DOES NOT COMPILE"; git checkout -- .; exit 4; fi
cp /verif/evidence/$ID.json /tmp/evidence_$ID.bak 2>/dev/null
out=$(cd /verif && ./check "$ID" quick 2>&1); rc=$?
cp /tmp/evidence_$ID.bak /verif/evidence/$ID.json 2>/dev/null; rm -f /tmp/evidence_$ID.bak
git checkout -- .
if [ $rc -eq 1 ]; then echo "CAUGHT: $(echo "$out" | grep -m1 'FAILURE sig' )"; elif [ $rc -eq 0 ]; then echo "MISSED"; else echo "INCONCLUSIVE rc=$rc: $(echo "$out" | tail -3)"; fi
