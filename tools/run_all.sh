#!/bin/bash
# run every claimed check (quick by default) on the current tree; prints one line per check
tier="${1:-quick}"
cd "$(dirname "$0")/.."
ROOT="$(pwd)"
ids=$(python3 -c "import json; print(' '.join(c['property_id'] for c in json.load(open('MANIFEST.json'))['checks']))")
rc_all=0
for id in $ids; do
  start=$(date +%s)
  out=$(./check $id $tier 2>&1); rc=$?
  end=$(date +%s)
  echo "$id rc=$rc $((end-start))s $(echo "$out" | grep -E "^$id $tier" | tail -1)"
  if [ $rc -ne 0 ]; then rc_all=1; echo "$out" | grep -E "FAILURE|VIOLATION|INCONCLUSIVE" | head -5; fi
  python3-vt - "$id" "$ROOT" <<'PY'
import json,sys,jsonschema
e=json.load(open(f"{sys.argv[2]}/evidence/{sys.argv[1]}.json"))
jsonschema.validate(e,json.load(open('/root/.vp/EVIDENCE.schema.json')))
PY
done
exit $rc_all
