#!/bin/bash
# usage: mk_agent_dir.sh c12   -> /tmp/agent_c12/{harness,repo,verif}
set -e
id="$1"; w="/tmp/agent_$id"
rm -rf "$w"; mkdir -p "$w/verif"
git -C /repo worktree prune
git -C /repo worktree add --detach "$w/repo" HEAD >/dev/null 2>&1
cp /repo/Cargo.lock "$w/repo/Cargo.lock"
cp -r /verif/harness "$w/harness"
sed -i "s#path = \"/repo\"#path = \"$w/repo\"#" "$w/harness/Cargo.toml"
sed -i "s#/verif/target#$w/target#" "$w/harness/.cargo/config.toml"
cp /verif/known_findings.txt "$w/verif/"
cp /verif/tools/AGENT_BRIEF.md "$w/BRIEF.md"
sed -i "s#<workdir>#$w#g; s#/verif/known_findings.txt#$w/verif/known_findings.txt#g; s#/verif/evidence#$w/verif/evidence#g; s#/verif/replays#$w/verif/replays#g" "$w/BRIEF.md"
echo "export VERIF_ROOT=$w/verif" > "$w/env.sh"
echo "$w"
