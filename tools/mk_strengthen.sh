#!/bin/bash
# mk_strengthen.sh N ID mod "C01-10 C01-9" [extra-editable-files-text]
set -e
n=$1; id=$2; mod=$3; changes="$4"; extra="${5:-}"
/verif/tools/mk_eval_copy.sh $n >/dev/null
v=/tmp/evalverif$n; r=/tmp/evalrepo$n
mkdir -p $v/out $v/seeded_given
txt=""
for c in $changes; do cp -r /verif/seeded/$c $v/seeded_given/$c; rm -f $v/seeded_given/$c/meta.json; txt="$txt* \`$v/seeded_given/$c/\`\n"; done
extradeliv=""
if [ -n "$extra" ]; then extradeliv=" (one diff per edited file)"; extra=" and $extra"; fi
python3 - "$v" "$r" "$id" "$mod" "$txt" "$extra" "$extradeliv" <<'PY'
import sys
v,r,i,m,txt,extra,ed=sys.argv[1:8]
s=open('/verif/tools/STRENGTHEN_BRIEF.md').read()
s=s.replace('@V@',v).replace('@R@',r).replace('@ID@',i).replace('@MOD@',m).replace('@CHANGES@',txt.replace('\\n','\n')).replace('@EXTRADELIV@',ed).replace('@EXTRA@',extra)
open(v+'/BRIEF.md','w').write(s)
PY
echo $v/BRIEF.md
