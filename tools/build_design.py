#!/usr/bin/env python3
"""Regenerates section 8 of DESIGN.md from tools/design_section8.md + seeded/*/meta.json"""
import json, glob, os, re
root = os.path.dirname(os.path.dirname(os.path.abspath(__file__)))
design = open(f"{root}/DESIGN.md").read()
marker = "\n---------------------------------------------------------------------------------------\n\n## 8. Build log"
if marker in design:
    design = design[:design.index(marker)]
sec = open(f"{root}/tools/design_section8.md").read()
rows = ["| seeded change | what it needs to manifest (from the sub-agent's notes) | confirmed | quick check verdict (signature) |", "|---|---|---|---|"]
for d in sorted(glob.glob(f"{root}/seeded/*/meta.json")):
    m = json.load(open(d))
    name = os.path.basename(os.path.dirname(d))
    needs = m.get("needs", "")
    res = m.get("checks", {})
    verdicts = "; ".join(f"{c}: {r['verdict']}" + (f" (`{r['signature']}`)" if r.get("signature") else "") for c, r in res.items())
    if m.get("caught_after_strengthening"):
        verdicts += " → " + m["caught_after_strengthening"]
    rows.append(f"| {name} | {needs} | {'yes' if m.get('confirmed') else 'NO'} | {verdicts} |")
sec = sec.replace("@SEEDED_TABLE@", "\n".join(rows))
extra = ""
p = f"{root}/tools/design_seeded_extra.md"
if os.path.exists(p):
    extra = open(p).read().rstrip()
sec = sec.replace("@SEEDED_EXTRA@", extra)
open(f"{root}/DESIGN.md", "w").write(design.rstrip("\n") + "\n" + sec)
print("DESIGN.md section 8 regenerated,", len(rows) - 2, "seeded changes")
