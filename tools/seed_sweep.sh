#!/bin/bash
# run every claimed check with VERIF_SEED=$1..$2 (tier $3, default quick); evidence files are preserved
a="${1:-1}"; b="${2:-3}"; tier="${3:-quick}"
cd /verif
ids=$(python3 -c "import json; print(' '.join(c['property_id'] for c in json.load(open('MANIFEST.json'))['checks']))")
mkdir -p /verif/target/evidence.bak; cp evidence/*.json /verif/target/evidence.bak/
bad=0
for s in $(seq $a $b); do
  for id in $ids; do
    out=$(VERIF_SEED=$s ./check $id $tier 2>&1); rc=$?
    if [ $rc -ne 0 ]; then bad=1; echo "seed=$s $id rc=$rc"; echo "$out" | grep -E "FAILURE|VIOLATION|INCONCLUSIVE" | head -5; fi
  done
  echo "seed $s done"
done
cp /verif/target/evidence.bak/*.json evidence/
exit $bad
