#!/bin/bash
# usage: mk_eval_copy.sh N  -> /tmp/evalrepoN (git worktree of /repo HEAD) and /tmp/evalverifN (copy of the
# working tree of /verif whose harness and fuzz crates depend on /tmp/evalrepoN instead of /repo), so that
# seeded changes can be evaluated in parallel without touching /repo. Remove with: rm_eval_copy.sh N
set -e
n="$1"; r="/tmp/evalrepo$n"; v="/tmp/evalverif$n"
git -C /repo worktree remove --force "$r" 2>/dev/null || true
rm -rf "$r" "$v"; git -C /repo worktree prune
git -C /repo worktree add --detach "$r" HEAD >/dev/null 2>&1
cp /repo/Cargo.lock "$r/Cargo.lock"
mkdir -p "$v"
rsync -a --exclude target --exclude .git --exclude replays --exclude seeded --exclude 'fuzz/corpus-run' /verif/ "$v/"
sed -i "s#path = \"/repo\"#path = \"$r\"#" "$v/harness/Cargo.toml" "$v/fuzz/Cargo.toml"
echo "$r $v"
