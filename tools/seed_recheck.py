#!/usr/bin/env python3
"""Re-run check(s) against a stored seeded change: seed_recheck.py C14-9 [--checks C14,C03] [--tier quick] [--note "..."]
Applies /verif/seeded/<name>/patch.diff to /repo, runs ./check, reverts, and records the verdict in meta.json
(`checks` = latest verdict per check, `caught_after_strengthening` = note when given)."""
import json, os, shutil, subprocess, sys, time
def sh(cmd, cwd=None):
    p = subprocess.run(cmd, shell=True, cwd=cwd, capture_output=True, text=True)
    return p.returncode, p.stdout + p.stderr
REPO = os.environ.get("SEED_REPO", "/repo"); VERIF = os.environ.get("SEED_VERIF", "/verif")
name = sys.argv[1]; args = sys.argv[2:]
pid = name.split('-')[0]; checks = [pid]; tier = "quick"; note = None
while args:
    a = args.pop(0)
    if a == "--checks": checks = args.pop(0).split(",")
    elif a == "--tier": tier = args.pop(0)
    elif a == "--note": note = args.pop(0)
d = f"/verif/seeded/{name}"
meta = json.load(open(f"{d}/meta.json"))
rc, o = sh("git diff --quiet", cwd=REPO); assert rc == 0, REPO + " is dirty"
rc, o = sh(f"git apply {d}/patch.diff", cwd=REPO); assert rc == 0, o
try:
    for c in checks:
        ev = f"{VERIF}/evidence/{c}.json"; bak = ev + ".bak"
        if os.path.exists(ev): shutil.copy(ev, bak)
        t0 = time.time(); rc, o = sh(f"./check {c} {tier}", cwd=VERIF); dt = time.time() - t0
        if os.path.exists(bak): shutil.move(bak, ev)
        sig = [l for l in o.splitlines() if l.startswith("FAILURE sig=")]
        r = {"rc": rc, "verdict": {0: "MISSED", 1: "CAUGHT"}.get(rc, "INCONCLUSIVE"),
             "signature": sig[0][len("FAILURE sig="):] if sig else None, "wall_s": round(dt, 1),
             "tail": "\n".join(o.splitlines()[-6:]), "evaluated_in": (f"{REPO} with the change applied, checks of {VERIF}" if REPO == "/repo" else f"scratch worktree {REPO} of /repo HEAD with the change applied, checks run from a copy of /verif's working tree ({VERIF})")}
        meta.setdefault("checks", {})[c] = r
        print(f"{name} {c}: {r['verdict']} sig={r['signature']} ({r['wall_s']}s)")
finally:
    sh("git checkout -- .", cwd=REPO)
if note: meta["caught_after_strengthening"] = note
json.dump(meta, open(f"{d}/meta.json", "w"), indent=1)
