#!/usr/bin/env python3
"""Regenerates /verif/MANIFEST.json from the table below (kept in one place so the manifest is always valid)."""
import json, subprocess, os

CLAIMED = {
 "C08": dict(
   technique="property-based testing: exhaustive 8-bit sweep + generated selectors vs an arbitrary-precision Python-slice reference (differential), cross-type metamorphic check; thorough: + coverage-guided fuzzing (libFuzzer, entropy-driven: the fuzzer's bytes drive the same generator) with the same oracle in-target",
   level="exploration",
   text="Every selector form over every i8/u8 value and ~50 axis lengths is enumerated (exhaustive for that sub-space); all other integer types are sampled with boundary-biased bounds up to the type limits and axis lengths up to 2^40, each compared with an i128 reference resolver and re-resolved in every other integer type. Evidence of absence only for the enumerated sub-space; sampled elsewhere. Axis lengths reach 2^64-1 (biased to 2^62, 2^63+-2, 2^64-1).",
   note="Reference resolver (40 lines, i128) is the trusted base; semantics of an inclusive end taken from the property text and the repository's own test (..=-1 selects through the last element).",
   design="§3 C08"),
}

CLAIMED["C15"] = dict(
   technique="property-based testing: generated regular-expression ASTs built through the public NFA combinators, compiled DFA compared with a Brzozowski-derivative reference matcher on all strings up to a length bound (differential, bounded-exhaustive per expression); thorough: + coverage-guided fuzzing (libFuzzer, entropy-driven: the fuzzer's bytes drive the same generator) with the same oracle in-target",
   level="exploration",
   text="For each generated expression (incl. ?/+ around operands that begin or end with a loop, tagged flat and nested choices, also placed inside prefix (choice)[+] suffix) acceptance, dead-transition soundness, tag sets, terminal flag and determinism are compared with the derivative matcher on every string over {a,b,c} up to length 5 (6 in thorough) and on random longer strings. Sampled over expressions, exhaustive over short inputs per expression.",
   note="Trusted base: the 150-line derivative matcher in refre.rs. Tags are checked for one tagged (possibly nested) choice, top-level or inside a sequence/loop: tags after s = alternatives that end exactly at the end of s, for every state.",
   design="§3 C15")
CLAIMED["C07"] = dict(
   technique="property-based testing: model-based (matrix-of-offsets model) over generated view/transpose programs, carriers and access operations; address-level check of the mutable iterator; thorough: + coverage-guided fuzzing (libFuzzer, entropy-driven: the fuzzer's bytes drive the same generator) with the same oracle in-target",
   level="exploration",
   text="Generated chains of up to 5 view/transpose steps with selectors of every form and integer type, realised over nested owned views, &mut re-borrows, & borrows and Arc; every read operation and each mutation is compared against a plain matrix model, the whole base matrix is compared after mutation, and iter_mut references are collected before writing and their addresses compared with the model's cells.",
   note="Selector resolution relies on C08's reference; non-aliasing is decided as address distinctness, not as a Stacked-Borrows verdict.",
   design="§3 C07")

CLAIMED["C04"] = dict(
   technique="property-based testing: structured terminal-side protocol printer (independent encoder of keys/reports/SGR/OSC/kitty) -> decoder, exact comparison with the denoted events (round-trip against an independent encoder), table sweeps; thorough: + coverage-guided fuzzing (libFuzzer, entropy-driven: the fuzzer's bytes drive the same generator) with the same oracle in-target",
   level="exploration",
   text="Sequences of 1-8 generated items over every report family with boundary-biased parameters are printed by an independent protocol printer and must decode to exactly the denoted events; every key of the pinned naming table, every mouse button code, every 256-colour index and every DEC mode x status is swept. Sampled over parameter values and concatenations. Half of the cases are decoded a second time through a scripted BufRead under a generated read schedule (cuts snapped behind ESC / the introducer / ESC ESC, reads that return nothing, reads that fail with WouldBlock / Interrupted and are retried) and must yield the same events; every interior cut of one exemplar per family is swept. One long paste in thirty has 64-100 KB.",
   note="The key/button naming table and the 16 named colours are pinned from the library (the property defers to the library's table). SGR semantics from ECMA-48/xterm/kitty in refsgr.rs. 12/16-bit colour reduction accepted between truncation and rounding.",
   design="§3 C04")
CLAIMED["C18"] = dict(
   technique="property-based testing: model-based (dictionary model) over generated registration histories with exhaustive lookups after every step; stateful matcher implications; parser totality + print/parse round trip over generated and swept strings; thorough: + coverage-guided fuzzing (libFuzzer) of parser inputs and registration histories with the same oracle in-target",
   level="exploration",
   text="Registration/override histories over a colliding key pool (two keys differ in letter case only) are replayed against a BTreeMap model with all 1554 chords of length <=4 looked up after every step; a bounded-exhaustive sweep covers all histories of 4 registrations over 2 keys; every Unicode scalar is pushed through the three parsers in four string positions; grammar-shaped and mutated strings are generated. Key-stream cases live through 1-3 rebinds of one KeyMapHandler (prefix left pending, clear() + new registrations or registrations on top, more typing). Thorough tier additionally runs a coverage-guided libFuzzer campaign (cargo-fuzz, 8 processes, fixed number of executions, seeded with generated cases) whose in-target oracle is the same check function.",
   note="Matcher is checked only for the two implications the property states. Which strings a parser accepts is not part of the property.",
   design="§3 C18")
CLAIMED["C20"] = dict(
   technique="property-based testing: brute-force nearest-entry oracle over the xterm 256-colour table in the library's linear-light metric, grey-level nearest/monotone oracle, true-colour identity; thorough tier enumerates all 2^24 colours; thorough: + coverage-guided fuzzing (libFuzzer, entropy-driven: the fuzzer's bytes drive the same generator) with the same oracle in-target",
   level="exploration",
   text="Quick: 16^3 lattice, all palette entries +-1, all greys, and 3.2M generated colours in five colour slots and three depths, 15% of them on an encoder that was used before for a translucent colour. Thorough: ALL 2^24 colours x 5 slots x 3 depths (exhaustive). Half of the cases and sweep chunks take the 256-colour encoder from TTYEncoder::default().",
   note="Distance metric computed through the public rasterize conversion in f64; tolerance tau=2e-5 (measured worst excess 2.6e-7 from the library's 6-digit tables); either neighbouring grey level accepted only between the midpoint of exact thirds and the midpoint of the library's 0.33/0.66 levels (+-0.001); luma as rasterize defines it.",
   design="§3 C20")

CLAIMED["C02"] = dict(
   technique="property-based testing / generational fuzzing in a worker process: hostile grammar-aware byte strings + mutated protocol output under generated read partitions; oracles = no crash/abort/hang, exhaustion => None, scalar validity, raw-bytes-equal-span, big-integer recomputation of every numeric field; thorough: + coverage-guided fuzzing (libFuzzer) with the same oracle in-target",
   level="exploration",
   text="~1M generated byte strings per quick run (raw, hostile skeletons of every sequence family with extreme/empty parameters, malformed UTF-8, mutated well-formed output) cut into reads and fed to the event, command and UTF-8 decoders inside a worker process (aborts are attributed to the case). Numeric fields are recomputed from the input span in 128-bit arithmetic and must equal or be clamped. Thorough tier additionally runs a coverage-guided libFuzzer campaign (cargo-fuzz, 8 processes, fixed number of executions, seeded with generated cases) whose in-target oracle is the same check function. A second pass feeds the same reads through a generated API schedule (decode loop / decode_into into one long-lived vector / into a fresh vector): a call on exhausted input returns 0 and appends nothing, counts equal the growth of the vector, items do not depend on the API. DEC mode reports are among the numeric fields (exact mode and status numbers of the pinned tables); the parameter pool contains values that agree with meaningful numbers modulo 2^8/2^16/2^32/2^64.",
   note="Clamp conventions are listed in the evidence assumptions. Spans come from the verif-hooks wrapper, which is cross-checked against the public API on every case.",
   design="§3 C02")
CLAIMED["C03"] = dict(
   technique="property-based testing: metamorphic (token list invariant under byte-at-a-time, generated partitions and every single cut for inputs <=48 bytes) + validity predicate for leftmost-longest derived from the production DFA trace / a derivative reference matcher over generated pattern sets (hook); differential of the terminal object's tty read loop on a pseudo-terminal against the single-buffer decode; thorough: + coverage-guided fuzzing (libFuzzer) with the same oracle in-target",
   level="exploration",
   text="Production event and command decoders: spans and items identical under all tested partitions (exhaustive over two-read schedules for short inputs), single-buffer tokenisation validated against the automaton's own acceptance trace. Tokeniser core: generated pattern sets built through the public NFA API run through the private tokeniser and validated against the Brzozowski matcher. Read loop: ~3.6k sessions per quick run type generated bytes into a pty in generated chunks (lock-step or free running, padded to straddle the 1024-byte read buffer); Terminal::poll must deliver exactly the events of a fresh decoder over one buffer. Thorough tier additionally runs a coverage-guided libFuzzer campaign (cargo-fuzz, 8 processes, fixed number of executions, seeded with generated cases) whose in-target oracle is the same check function. Partitions also contain reads that fail with WouldBlock / Interrupted and are retried on the same decoder. A third of the read-loop sessions send an event-free prefix of the typed stream while SystemTerminal::open is still probing.",
   note="Grouping of unrecognised bytes is not prescribed (1..=longest viable prefix accepted). For production decoders the pattern set is the production automaton itself.",
   design="§3 C03")
CLAIMED["C11"] = dict(
   technique="property-based testing: model-based over generated draw/erase/response histories; output parsed by an independent APC/kitty parser and RFC 4648 decoder and executed on a kitty reference model; thorough: + coverage-guided fuzzing (libFuzzer, entropy-driven: the fuzzer's bytes drive the same generator) with the same oracle in-target",
   level="exploration",
   text="Histories of 1-15 events over content-equal images with different Arcs/strides, positions biased to the origin/edges, payload sizes around 4096-byte chunk boundaries; checks chunking, flags, payload = pixels, transmit-once, every placement refers to transmitted data, erase addresses exactly the drawn placement. Three histories in ten contain calls whose writer fails part-way (after n bytes or behind the k-th command): the failed call is not judged, a transmission cut before its last chunk counts as not transmitted, every later call is held to the unchanged clauses. One case in 700 crops its windows out of a 96 MiB atlas.",
   note="Terminal-side semantics (p=0 = unspecified, error response invalidates an id) from the kitty graphics specification. Three signatures are listed as known findings (32-bit id collisions; the one cell (65535,65535) that cannot have its own placement id).",
   design="§3 C11")
CLAIMED["C12"] = dict(
   technique="property-based testing: generated images/crops/backgrounds drawn through the sixel handler, decoded by an independent sixel interpreter; exact pixel oracle when colours fit, structural oracle otherwise; repeat-draw byte identity; thorough: + coverage-guided fuzzing (libFuzzer, entropy-driven: the fuzzer's bytes drive the same generator) with the same oracle in-target",
   level="exploration",
   text="Images 6..40 rows (thorough up to 262x300, crossing the subsampling rule) in five pixel layouts with <=8, <=256 and >256 colours, transparent pixels, crops of crops, optional background; every emitted sequence is interpreted and checked for well-formedness, full coverage of the raster, register validity and, in the exact regime, pixel equality at 0-100 resolution. Four cases in ten draw, on the same handler, pictures with the same pixel sequence laid out in another shape; three in a hundred push 260-400 distinct tiny pictures through the handler before a redraw that must be byte-identical. Every case runs on a thread of its own; 15% first draw a many-colour picture on another handler of that thread.",
   note="Partly translucent pixels are accepted within the gamma/linear compositing interval +-1; >256 colours or subsampled images are checked structurally only.",
   design="§3 C12")
CLAIMED["C14"] = dict(
   technique="property-based testing: differential against an independent table-free RFC 4648 codec under generated write partitions, read-size schedules and destination buffer sizes; rejection cases; bounded-exhaustive sweep of short strings and all lengths 0..400; thorough: + coverage-guided fuzzing (libFuzzer) of (kind, schedule, buffers, data) with the same oracle in-target",
   level="exploration",
   text="Encode under arbitrary write partitions (single calls up to 2200 bytes), into a Vec and into a sink that accepts 1-13 bytes per call, must equal the reference text; decode through readers returning 1..64 bytes per call into buffers of 1..80 bytes must return the original bytes then Ok(0); text whose length is not a multiple of 4 must produce an error; arbitrary bytes never panic. Thorough tier additionally runs a coverage-guided libFuzzer campaign (cargo-fuzz, 8 processes, fixed number of executions, seeded with generated cases) whose in-target oracle is the same check function.",
   note="Reference codec checked against the RFC 4648 test vectors on every run.",
   design="§3 C14")

CLAIMED["C05"] = dict(
   technique="property-based testing: generated command streams -> encoder -> independent ECMA-48/xterm parser and interpreter (differential against the commanded operations), SGR judged by a reference SGR state machine from arbitrary prior states; thorough: + coverage-guided fuzzing (libFuzzer, entropy-driven: the fuzzer's bytes drive the same generator) with the same oracle in-target",
   level="exploration",
   text="Streams of 1-9 commands (every variant, boundary-biased numerics incl. i32::MIN/MAX and 0, all faces and face modifications) under 3 colour depths x kitty keyboard on/off; output must parse into complete self-contained sequences whose interpreted operations equal the commanded ones, also when parsed inside the stream, and also when the same encoder was first asked to encode into a writer that refuses part-way (one case in five). One case in five also encodes into a sink that accepts 1..k bytes per write call: what reaches the sink is held to the same oracle. 30% of the cases use translucent / history-correlated colours and are judged against a brand-new encoder per command and per colour.",
   note="Interpreter conventions (0/missing = 1 for counts; SGR tables) are the trusted base in refvt.rs/refsgr.rs. Which palette entry is selected at reduced depth is left to C20.",
   design="§3 C05")
CLAIMED["C06"] = dict(
   technique="property-based testing: round trip (encoder -> command decoder) under generated chunkings + model-based check of the escape-sequence cell writer against a reference SGR state machine; thorough: + coverage-guided fuzzing (libFuzzer, entropy-driven: the fuzzer's bytes drive the same generator) with the same oracle in-target",
   level="exploration",
   text="(a) faces, face modifications and characters encoded in true colour must be read back unchanged by the command decoder under three chunkings (one case in five after a failed encode into a refusing writer); (b) histories of SGR sequences in standard spellings and text written through tty_writer must yield cells whose faces follow SGR semantics from a generated initial face. Round-trip cases also encode into a sink that accepts 1..k bytes per write call; cell-writer histories also run over parents that refuse cells (capacity / clipped lines) and are rewound through parent(): the accepted cells must carry the faces the SGR machine gives over all bytes written. Cell-writer histories are also cut at item boundaries with a fresh tty_writer() instance per segment over the same parent.",
   note="Runs in a worker process (embeds the command decoder). Codes the record cannot express are outside the domain.",
   design="§3 C06")

CLAIMED["C01"] = dict(
   technique="property-based testing: stateful/model-based over generated frame histories; renderer commands executed on a reference terminal screen; ground-truth display oracle + differential oracle against a fresh renderer on a blank screen; thorough: + coverage-guided fuzzing (libFuzzer, entropy-driven: the fuzzer's bytes drive the same generator) with the same oracle in-target",
   level="exploration",
   text="~1M histories per quick run of paint/frame/no-frame/clear/dropped-frames/re-create (and, one case in 12, the library's own render loop on a scripted output queue with stalls, frame drops and Resize events, pictures kept on screen through the stall) over small terminals with narrow and wide characters, coloured blank runs, pool images (same Arc reused) and glyphs; after every delivered frame the reference screen must show exactly the surface and must equal a from-scratch repaint. Half of the terminals have a pixel size that is not a multiple of their cell count.",
   note="Reference screen semantics (wide-character halves, ECH with current face, images above text) are the trusted base; z-order among overlapping images and a wide character half under an image are treated as terminal specific. Two design limits are listed as known findings.",
   design="§3 C01")

CLAIMED["C09"] = dict(
   technique="property-based testing: sentinel-canvas containment over generated windows (offset/strided/transposed), metamorphic chunk independence over generated write partitions, and an exactly-once/reading-order oracle for text rendered at its own layout size (independent layout model for no-wrap and CR cases); bounded-exhaustive sweep of short texts; thorough: + coverage-guided fuzzing (libFuzzer, entropy-driven: the fuzzer's bytes drive the same generator) with the same oracle in-target",
   level="exploration",
   text="~1M cases per quick run: nine writer paths (put_cell, io::Write, utf8_writer, tty_writer, Text sinks, draw_view, layout+render) into windows of a sentinel canvas under three partitions incl. cuts inside UTF-8 characters and escape sequences; texts of 0-39 items (narrow/wide/zero-width chars, newlines, tabs, glyphs with fallback, images) laid out for widths 1-19 and rendered at the reported size, both wrap modes and glyph capabilities. One text case in six lays the same long-lived Text (and clones of it) out and renders it 2-5 times under changing contexts, widths and after mutations.",
   note="A write refused after the window is full is recorded as a label (cells are identical). Faces of cells skipped by tab/newline and positions (as opposed to reading order) are not claimed by the property and not checked.",
   design="§3 C09")
CLAIMED["C10"] = dict(
   technique="property-based testing: generated view trees (built through the API and through JSON deserialisation) with transparent spy wrappers recording per-node constraints and probe leaves painting their id; oracles = no panic / containment in a sentinel canvas / reported size within the received constraint / probe paint inside its layout rectangle / find_path hit-testing; thorough: + coverage-guided fuzzing (libFuzzer, entropy-driven: the fuzzer's bytes drive the same generator) with the same oracle in-target",
   level="exploration",
   text="640k trees per quick run (<=12 nodes, <=5 levels; flex in both axes with every justify and 0-5 children, containers with every alignment incl. offsets and huge margins, frame, tag, dynamic, option/either, scroll bars incl. NaN positions, images, glyphs, text) under 1-3 constraints with extents from {0,1,2,3,7,20,80} and both glyph capabilities. Cell sizes include 0x0 (terminal without pixel size) and one zero extent; JSON trees resolve `ref` views through a cache whose entries change between calls and include a tag or a dynamic view at the root. A quarter of the cases run with a tracing subscriber installed that enables every event and formats every field.",
   note="Alignment/justification geometry is not fixed by the property: only consistency between layout tree, painting and hit-testing is checked. JSON trees carry no probes (size clause checked at the root only).",
   design="§3 C10")
CLAIMED["C13"] = dict(
   technique="property-based testing: brute-force nearest-colour oracle for quantised images and palette lookups, palette/ index bounds, exact reproduction when colours fit, octree pruning bounds; exhaustive 2^24-query sweeps for fixed palettes; thorough: + coverage-guided fuzzing (libFuzzer, entropy-driven: the fuzzer's bytes drive the same generator) with the same oracle in-target",
   level="exploration",
   text="Images up to 48x48 (and at the sampling threshold), pixel pools relative to the requested palette size, alpha over generated backgrounds, crops (incl. narrow windows of wide pictures whose span in the backing buffer exceeds the sampling threshold), both dither settings; palettes of 1-512 colours incl. duplicates/collinear/clustered sets with member, +-1 neighbour and uniform queries; one (quick) or eleven (thorough) palettes are swept over ALL 2^24 query colours. Every image case runs on a thread of its own after 0-2 prelude quantisations (another picture, or the same one with another background / palette size / dither flag); 16% of the images are transposed or strided views.",
   note="Compositing uses rasterize's blend_over (trusted). With dithering on only bounds and exact reproduction are claimed.",
   design="§3 C13")
CLAIMED["C16"] = dict(
   technique="property-based testing: model-based interleavings of the byte queue; sessions of a real terminal object on a pseudo-terminal (one worker process per shard; with or without ioctl pixel size, SIGWINCH raised between operations) with a throttled peer and injected short writes/EAGAIN/EINTR (fault injection through the verif hook), framed chunks checked for order / exactly-once / untorn delivery; thorough: + coverage-guided fuzzing (libFuzzer, entropy-driven: the fuzzer's bytes drive the same generator) with the same oracle in-target",
   level="fault_enumeration",
   text="Queue: ~44k generated operation histories per quick run compared with a deque model after every step. Terminal: ~3.7k pty sessions per quick run with records up to 64 KiB (thorough 256 KiB, far beyond the pty buffer), generated drain rates and cyclic write-fault patterns; the bytes received on the master side must be whole chunks in order, chunks written after the last frames_drop must be present. Every other pty session runs on a pty without pixel size whose peer answers the size request, and two in three raise SIGWINCH between operations: nothing but frames_drop may discard a chunk. Queue histories contain runs of writes without flush up to 2.5 MiB; one pty session in 35 assembles a unit above 1 MiB from many writes and drops frames while it is pending.",
   note="Kernel splitting of writes is sampled (real back-pressure from the pty + injected faults), not enumerated. A hang is reported as inconclusive.",
   design="§3 C16")
CLAIMED["C17"] = dict(
   technique="property-based testing with an owned schedule: wakes from other threads, tty input and signals placed at named points of the poll loop (verif hook) in pty sessions, one terminal per worker process; generated exit paths with termios and closing-sequence inspection",
   level="exploration",
   text="6.4k sessions per quick run: 0-4 rounds of {1-3 concurrent wakes | typed input | SIGWINCH} placed before the poll or at 7 schedule points x 3 loop iterations of polls with zero / 50 ms / no timeout, optionally with output pending and a stalled peer; exit by drop, drop with pending output, run/run_render handler error or quit, SIGTERM/INT/QUIT (also raised inside the release), back-pressure at drop, an application that queued its own mode-off commands, or master closed first; one session in four takes the terminal size from escape sequences (SIGWINCH answered by asking the terminal); termios must equal the snapshot, the closing sequence must be delivered / the terminal must end with mouse reporting off and the cursor visible. Backlog rounds (12% of rounds): a burst of keys confirmed (FIONREAD) to have been read by the poll that delivered the first one, output queued, SIGWINCH raised: the keys must precede the Resize. Storm rounds (15%): 2-4 threads call wake() in a tight loop while the main thread polls; a further request issued afterwards must be delivered.",
   note="Interleavings are sampled at hook points; races inside select(2) are not enumerable. poll(None) is guarded by a rescue thread; a poll that not even typed input ends is reported by the rescue thread with a signature naming the trigger.",
   design="§3 C17")

CLAIMED["C19"] = dict(
   technique="property-based testing in a memory-capped worker process: serde/text round trips of generated faces (attribute sets built in steps), sizes, chords and images (crops, strided views, 1/3/4-channel JSON); grammar-based and arbitrary JSON / byte documents with per-field valid/missing/repeated/wrong-type/extreme modes and nesting up to 120 levels; every accepted view tree is laid out and rendered into a sentinel canvas",
   level="exploration",
   text="64k cases per quick run; deserialisation must return Ok or Err without panic, abort, stack overflow or unbounded allocation (1 GiB address-space cap), and must finish (per-case time limit, re-tried once in a fresh process); successful view trees are laid out under three constraints with both glyph settings and rendered. Half of the documents are also laid out and rendered under a generated terminal (no pixel size / fewer pixels than cells / other cell sizes); the scripted reference cache hands out entries whose root keeps data in its layout node (tag, dynamic view, another reference). Half of the cases run with a tracing subscriber installed that enables every event and formats every field.",
   note="One known finding is a defect of the rasterize dependency (arc path parser). 'Rendered' means View::layout + View::render, not glyph rasterisation by the terminal renderer.",
   design="§3 C19")

NOT_APPLICABLE = {}

def main():
    root = os.path.dirname(os.path.dirname(os.path.abspath(__file__)))
    hooks = subprocess.run(["git","-C","/repo","log","--format=%H %s"],capture_output=True,text=True).stdout.splitlines()
    hook_commits = [l.split()[0] for l in hooks if l.split(" ",1)[1].startswith("verif-hooks:")]
    checks = []
    for pid in sorted(CLAIMED):
        c = CLAIMED[pid]
        checks.append({
            "property_id": pid,
            "quick_cmd": f"./check {pid} quick",
            "thorough_cmd": f"./check {pid} thorough",
            "evidence_file": f"/verif/evidence/{pid}.json",
            "replay_cmd_template": f"./check {pid} --replay {{path}}",
            "engine": c.get("engine","pbt"),
            "level_claimed": {"category": c["level"], "text": c["text"], "design_ref": c["design"]},
            "level_note": c["note"],
            "technique": c["technique"],
        })
    props = [json.loads(l)["id"] for l in open(os.path.join(root,"properties.jsonl"))]
    na = [{"property_id": p, "reason": NOT_APPLICABLE.get(p, "check not built yet in this session (work in progress; see DESIGN.md §3 for the planned generated check)")} for p in props if p not in CLAIMED]
    manifest = {
        "version": 1,
        "setup_cmd": "cd /verif/harness && CARGO_NET_OFFLINE=true cargo build --release --offline",
        "hooks": {
            "guard": "cargo feature `verif-hooks` of surf_n_term (off by default)",
            "enable": "the harness crate depends on surf_n_term = { path = \"/repo\", features = [\"verif-hooks\"] }",
            "baseline_off_cmd": "cd /repo && cargo test --workspace --no-fail-fast --offline",
            "source_commits": hook_commits,
            "add_only": True,
        },
        "engines": [
            {"name": "pbt", "path": "/verif/harness", "serves_properties": sorted(CLAIMED),
             "kind_free_text": "Rust binary snt-check: proptest strategies + explicit oracles/reference models per property, 16 deterministic shards seeded from VERIF_SEED, shrinking, replay files, optional worker-subprocess isolation"},
            {"name": "fuzz", "path": "/verif/fuzz", "serves_properties": ["C01", "C02", "C03", "C04", "C05", "C06", "C07", "C08", "C09", "C10", "C11", "C12", "C13", "C14", "C15", "C16", "C18", "C20"],
             "kind_free_text": "cargo-fuzz crate (libFuzzer, nightly toolchain, sanitizer none, debug assertions + overflow checks), fifth stage of every listed property's THOROUGH tier (8 processes, fixed work -runs=N, -seed from VERIF_SEED, fresh corpus directories). Two kinds of target, both running the SAME Property::check as the generated search in-process (failures with a listed known-finding signature are tolerated in-target; an artifact is re-executed through the normal executor and becomes the replay file): (a) c02, c03, c14, c18: hand-written byte layout (Property::case_from_bytes), corpus seeded with generated cases; (b) gen (C01, C04-C13, C15, C16 queue histories, C20): entropy-driven - the fuzzer's bytes replace the random numbers behind the property's own proptest generator (RngAlgorithm::PassThrough + a pseudo-random tail derived from the bytes), so every input denotes a case of exactly the generated domain and coverage feedback steers the generator. For (b) /verif/vendor/proptest is proptest 1.11.0 with ONE patched function (forking a PassThrough generator no longer halves the byte stream; the default generators are untouched, so the generated search is bit-for-bit what the registry crate produces). C17 (process-wide signals, real time) and C19 (the rasterize dependency's known unbounded allocation aborts in-process) have no fuzz stage"},
        ],
        "checks": checks,
        "not_applicable": na,
        "notes": "Known and fixed findings: /verif/known_findings.txt (witnesses of known findings: /verif/findings/<ID>/). Regression inputs: /verif/corpus/<ID>/. Seeded changes used to test sensitivity (240, each with patch, demonstration and what was run): /verif/seeded/. /verif/vendor/proptest is proptest 1.11.0 with one patched function (PassThrough fork; used by the entropy-driven fuzz target only, the default generators are untouched). Checks are meant to be run one at a time on an otherwise quiet machine: under heavy load (load average above ~40 on 16 cores) the pty-based checks C03, C16, C17 may end inconclusive (exit 2), never with a violation.",
    }
    json.dump(manifest, open(os.path.join(root,"MANIFEST.json"),"w"), indent=1)
    print("wrote MANIFEST.json with", len(checks), "checks,", len(na), "not applicable")

if __name__ == "__main__":
    main()
