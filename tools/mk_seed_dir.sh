#!/bin/bash
# usage: mk_seed_dir.sh C01 -> /tmp/seed_C01 (git worktree of /repo HEAD + PROPERTY.json only)
set -e
id="$1"; w="/tmp/seed_$id"
git -C /repo worktree remove --force "$w" 2>/dev/null || true
rm -rf "$w"
git -C /repo worktree prune
git -C /repo worktree add --detach "$w" HEAD >/dev/null 2>&1
cp /repo/Cargo.lock "$w/Cargo.lock"
python3 - "$id" "$w" <<'PY'
import json,sys
pid,w=sys.argv[1],sys.argv[2]
for l in open('/verif/properties.jsonl'):
    p=json.loads(l)
    if p['id']==pid:
        open(w+'/PROPERTY.json','w').write(json.dumps(p,indent=1))
PY
echo "$w"
