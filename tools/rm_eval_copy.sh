#!/bin/bash
n="$1"
git -C /repo worktree remove --force "/tmp/evalrepo$n" 2>/dev/null || true
rm -rf "/tmp/evalrepo$n" "/tmp/evalverif$n"; git -C /repo worktree prune
