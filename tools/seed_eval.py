#!/usr/bin/env python3
"""Confirm a seeded change produced by a sub-agent and run the checks against it.

usage: seed_eval.py <ID> <n> [--checks C01,C02] [--tier quick]

1. in the agent's scratch worktree /tmp/seed_<ID>: the change applies on a clean tree, the
   library's own test suite still passes with it, the demonstration fails with it and passes
   without it;
2. apply the change to /repo (git apply), run the check(s), undo it (git checkout -- .);
3. store it as /verif/seeded/<ID>-<n>/{patch.diff, demo.*, meta.json}.
"""
import json, os, shutil, subprocess, sys, time

def sh(cmd, cwd=None, timeout=3600):
    p = subprocess.run(cmd, shell=True, cwd=cwd, capture_output=True, text=True, timeout=timeout,
                       env={**os.environ, "CARGO_NET_OFFLINE": "true"})
    return p.returncode, p.stdout + p.stderr

REPO = os.environ.get("SEED_REPO", "/repo")      # tree the change is applied to
VERIF = os.environ.get("SEED_VERIF", "/verif")   # checks that are run against it (a copy made by mk_eval_copy.sh, or /verif)

def main():
    pid, n = sys.argv[1], sys.argv[2]
    checks = [pid]
    tier = "quick"
    args = sys.argv[3:]
    while args:
        a = args.pop(0)
        if a == "--checks": checks = args.pop(0).split(",")
        elif a == "--tier": tier = args.pop(0)
    w = f"/tmp/seed_{pid}"
    out = f"{w}/out"
    patch = f"{out}/change{n}.diff"
    demo_rs = f"{out}/demo{n}.rs"
    demo_diff = f"{out}/demo{n}.diff"
    meta = {"property": pid, "n": int(n), "ran": []}
    assert os.path.exists(patch), patch
    # ---- 1. confirm in the scratch worktree
    sh("git checkout -- . && git clean -fdq -e out -e target -e Cargo.lock", cwd=w)
    def install_demo():
        if os.path.exists(demo_rs):
            os.makedirs(f"{w}/tests", exist_ok=True)
            shutil.copy(demo_rs, f"{w}/tests/demo.rs")
            return "cargo test --offline --test demo"
        rc, o = sh(f"git apply {demo_diff}", cwd=w)
        assert rc == 0, "demo diff does not apply: " + o
        return "cargo test --offline --lib"
    def remove_demo():
        if os.path.exists(demo_rs):
            os.remove(f"{w}/tests/demo.rs")
            try: os.rmdir(f"{w}/tests")
            except OSError: pass
    # baseline: demo passes without the change
    cmd = install_demo()
    rc, o = sh(cmd, cwd=w)
    meta["ran"].append({"cmd": cmd + " (unchanged tree + demo)", "rc": rc})
    demo_passes_clean = rc == 0
    sh("git checkout -- . && git clean -fdq -e out -e target -e Cargo.lock", cwd=w)
    # with the change: suite passes, demo fails
    rc, o = sh(f"git apply {patch}", cwd=w)
    assert rc == 0, "patch does not apply: " + o
    rc, o = sh("cargo test --offline", cwd=w)
    meta["ran"].append({"cmd": "cargo test --offline (change applied, no demo)", "rc": rc})
    suite_passes = rc == 0
    cmd = install_demo()
    rc, o = sh(cmd, cwd=w)
    meta["ran"].append({"cmd": cmd + " (change applied + demo)", "rc": rc})
    demo_fails_changed = rc != 0
    meta["demo_output_tail"] = o[-1500:]
    sh("git checkout -- . && git clean -fdq -e out -e target -e Cargo.lock", cwd=w)
    meta["confirmed"] = bool(demo_passes_clean and suite_passes and demo_fails_changed)
    meta["demo_passes_on_unchanged_tree"] = demo_passes_clean
    meta["suite_passes_with_change"] = suite_passes
    meta["demo_fails_with_change"] = demo_fails_changed
    # ---- 2. run our checks against it
    rc, o = sh("git diff --quiet", cwd=REPO)
    assert rc == 0, REPO + " is dirty"
    results = {}
    rc, o = sh(f"git apply {patch}", cwd=REPO)
    assert rc == 0, f"patch does not apply to {REPO}: " + o
    if REPO != "/repo":
        meta["evaluated_in"] = f"scratch worktree {REPO} of /repo HEAD with the change applied; checks run from a copy of /verif's working tree ({VERIF}) whose harness depends on that worktree"
    try:
        for c in checks:
            ev = f"{VERIF}/evidence/{c}.json"
            bak = ev + ".bak"
            if os.path.exists(ev): shutil.copy(ev, bak)
            t0 = time.time()
            rc, o = sh(f"./check {c} {tier}", cwd=VERIF, timeout=7200)
            dt = time.time() - t0
            if os.path.exists(bak): shutil.move(bak, ev)
            sig = [l for l in o.splitlines() if l.startswith("FAILURE sig=")]
            results[c] = {"rc": rc, "verdict": {0: "MISSED", 1: "CAUGHT"}.get(rc, "INCONCLUSIVE"),
                          "signature": sig[0][len("FAILURE sig="):] if sig else None, "wall_s": round(dt, 1),
                          "tail": "\n".join(o.splitlines()[-6:])}
    finally:
        sh("git checkout -- .", cwd=REPO)
    meta["checks"] = results
    if pid in results:
        meta.setdefault("first_run_verdict", results[pid]["verdict"])
    if os.environ.get("SEED_ROUND"):
        meta["round"] = int(os.environ["SEED_ROUND"])
    # ---- 3. store
    d = f"/verif/seeded/{pid}-{n}"
    os.makedirs(d, exist_ok=True)
    shutil.copy(patch, f"{d}/patch.diff")
    if os.path.exists(demo_rs): shutil.copy(demo_rs, f"{d}/demo.rs")
    if os.path.exists(demo_diff): shutil.copy(demo_diff, f"{d}/demo.diff")
    notes = f"{out}/NOTES.md"
    if os.path.exists(notes): shutil.copy(notes, f"{d}/NOTES.md")
    meta["breaks"] = pid
    # annotations made by hand survive a re-evaluation
    if os.path.exists(f"{d}/meta.json"):
        prev = json.load(open(f"{d}/meta.json"))
        for k in ("needs", "first_run_verdict", "caught_after_strengthening", "rebased", "round"):
            if k in prev: meta[k] = prev[k]
    json.dump(meta, open(f"{d}/meta.json", "w"), indent=1)
    print(json.dumps({k: meta[k] for k in ("property", "n", "confirmed", "demo_passes_on_unchanged_tree", "suite_passes_with_change", "demo_fails_with_change")}))
    for c, r in results.items():
        print(f"  {c}: {r['verdict']} sig={r['signature']} ({r['wall_s']}s)")

if __name__ == "__main__":
    main()
