//! Coverage-guided counterpart of the C03 check: libFuzzer's bytes are decoded into a case by
//! `Property::case_from_bytes` and judged by the SAME `Property::check` the generated search uses.
#![no_main]
#![allow(dead_code)]

#[macro_use]
#[path = "../../harness/src/engine.rs"]
mod engine;
#[path = "../../harness/src/c03.rs"]
mod c03;
#[path = "../../harness/src/c04.rs"]
mod c04;
#[path = "../../harness/src/hostile.rs"]
mod hostile;
#[path = "../../harness/src/refre.rs"]
mod refre;
#[path = "../../harness/src/refsgr.rs"]
mod refsgr;
#[path = "../../harness/src/ttyout.rs"]
mod ttyout;
#[path = "../../harness/src/pty.rs"]
mod pty;

libfuzzer_sys::fuzz_target!(|data: &[u8]| {
    engine::fuzz_one(&c03::C03, data);
});
