//! Coverage-guided counterpart of the C14 check: libFuzzer's bytes are decoded into a case by
//! `Property::case_from_bytes` and judged by the SAME `Property::check` the generated search uses.
#![no_main]
#![allow(dead_code)]

#[macro_use]
#[path = "../../harness/src/engine.rs"]
mod engine;
#[path = "../../harness/src/c14.rs"]
mod c14;

libfuzzer_sys::fuzz_target!(|data: &[u8]| {
    engine::fuzz_one(&c14::C14, data);
});
