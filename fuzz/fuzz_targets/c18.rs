//! Coverage-guided counterpart of the C18 check: libFuzzer's bytes are decoded into a case by
//! `Property::case_from_bytes` and judged by the SAME `Property::check` the generated search uses.
#![no_main]
#![allow(dead_code)]

#[macro_use]
#[path = "../../harness/src/engine.rs"]
mod engine;
#[path = "../../harness/src/c18.rs"]
mod c18;

libfuzzer_sys::fuzz_target!(|data: &[u8]| {
    engine::fuzz_one(&c18::C18, data);
});
