//! Generic coverage-guided target: libFuzzer's bytes are the entropy stream of the property's own
//! proptest generator (`engine::case_from_entropy`), the case is judged by the SAME
//! `Property::check` the generated search uses. The property is chosen by VERIF_FUZZ_ID.
#![no_main]
#![allow(dead_code)]

#[macro_use]
#[path = "../../harness/src/engine.rs"]
mod engine;
#[path = "../../harness/src/c01.rs"]
mod c01;
#[path = "../../harness/src/c02.rs"]
mod c02;
#[path = "../../harness/src/c03.rs"]
mod c03;
#[path = "../../harness/src/c04.rs"]
mod c04;
#[path = "../../harness/src/c05.rs"]
mod c05;
#[path = "../../harness/src/c06.rs"]
mod c06;
#[path = "../../harness/src/c07.rs"]
mod c07;
#[path = "../../harness/src/c08.rs"]
mod c08;
#[path = "../../harness/src/c09.rs"]
mod c09;
#[path = "../../harness/src/c10.rs"]
mod c10;
#[path = "../../harness/src/c11.rs"]
mod c11;
#[path = "../../harness/src/c12.rs"]
mod c12;
#[path = "../../harness/src/c13.rs"]
mod c13;
#[path = "../../harness/src/c14.rs"]
mod c14;
#[path = "../../harness/src/c15.rs"]
mod c15;
#[path = "../../harness/src/c16.rs"]
mod c16;
#[path = "../../harness/src/c17.rs"]
mod c17;
#[path = "../../harness/src/c18.rs"]
mod c18;
#[path = "../../harness/src/c19.rs"]
mod c19;
#[path = "../../harness/src/c20.rs"]
mod c20;
#[path = "../../harness/src/hostile.rs"]
mod hostile;
#[path = "../../harness/src/mockterm.rs"]
mod mockterm;
#[path = "../../harness/src/pty.rs"]
mod pty;
#[path = "../../harness/src/refre.rs"]
mod refre;
#[path = "../../harness/src/refsgr.rs"]
mod refsgr;
#[path = "../../harness/src/refvt.rs"]
mod refvt;
#[path = "../../harness/src/ttyout.rs"]
mod ttyout;

fn id() -> &'static str {
    static ID: std::sync::OnceLock<String> = std::sync::OnceLock::new();
    ID.get_or_init(|| std::env::var("VERIF_FUZZ_ID").unwrap_or_default())
}

libfuzzer_sys::fuzz_target!(|data: &[u8]| {
    match id() {
        "C01" => engine::fuzz_one(&c01::C01, data),
        "C04" => engine::fuzz_one(&c04::C04, data),
        "C05" => engine::fuzz_one(&c05::C05, data),
        "C06" => engine::fuzz_one(&c06::C06, data),
        "C07" => engine::fuzz_one(&c07::C07, data),
        "C08" => engine::fuzz_one(&c08::C08, data),
        "C09" => engine::fuzz_one(&c09::C09, data),
        "C10" => engine::fuzz_one(&c10::C10, data),
        "C11" => engine::fuzz_one(&c11::C11, data),
        "C12" => engine::fuzz_one(&c12::C12, data),
        "C13" => engine::fuzz_one(&c13::C13, data),
        "C15" => engine::fuzz_one(&c15::C15, data),
        "C16" => engine::fuzz_one(&c16::C16, data),
        "C20" => engine::fuzz_one(&c20::C20, data),
        other => {
            eprintln!("VERIF_FUZZ_ID={other:?}: no entropy-driven target for this property");
            std::process::exit(3);
        }
    }
});
