//! Coverage-guided counterpart of C02/C03: the first two bytes choose the read partition, the
//! rest is the input; the in-target oracles are the SAME functions the proptest harness uses
//! (C02: totality / scalar validity / raw bytes / numeric fields; C03: chunk independence and
//! leftmost-longest validity against the production automaton's trace).
#![no_main]
#![allow(dead_code)]

#[macro_use]
#[path = "../../harness/src/engine.rs"]
mod engine;
#[path = "../../harness/src/c02.rs"]
mod c02;
#[path = "../../harness/src/c03.rs"]
mod c03;
#[path = "../../harness/src/c04.rs"]
mod c04;
#[path = "../../harness/src/hostile.rs"]
mod hostile;
#[path = "../../harness/src/refre.rs"]
mod refre;
#[path = "../../harness/src/refsgr.rs"]
mod refsgr;
#[path = "../../harness/src/ttyout.rs"]
mod ttyout;

use engine::Property;
use libfuzzer_sys::fuzz_target;

fuzz_target!(|data: &[u8]| {
    if data.len() < 2 {
        return;
    }
    let cuts: Vec<u16> = vec![(data[0] as u16) << 8 | 0x55, (data[1] as u16) << 8 | 0xaa];
    let input = data[2..].to_vec();
    let case = c02::Case::Stream { input: input.clone(), cuts: cuts.clone() };
    if let Err(f) = c02::C02.check(&case) {
        panic!("C02 violation sig={} :: {}", f.sig, f.msg);
    }
    if input.len() <= 96 {
        let case = c03::Case::Production { input, parts: vec![cuts] };
        if let Err(f) = c03::C03.check(&case) {
            panic!("C03 violation sig={} :: {}", f.sig, f.msg);
        }
    }
});
