//! C05 — encoded commands mean exactly what was commanded to a VT/xterm interpreter.
//!
//! Generator: streams of terminal commands (every variant, boundary-biased parameters, every
//! face) under every colour depth / keyboard capability, encoded through ONE encoder.
//! Oracle: the bytes are parsed by the independent ECMA-48/xterm parser (`refvt`), must consist
//! of complete sequences only, and the interpreted operation list must equal the operations
//! the commands denote; SGR output is judged semantically with the reference SGR machine
//! (`refsgr`) starting from an arbitrary prior state.
//! Colours may be translucent and repeat the RGB of the colour looked up just before with
//! another alpha; what a translucent colour is encoded as is taken from the library itself:
//! the command encoded alone by a brand-new encoder is the reference for the long-lived one
//! ("parses back into the same operations whatever preceded it"), and a colour encoded alone
//! is the reference for the same colour next to other fields ("one palette entry per colour").

use crate::engine::*;
use crate::refsgr::{self, Role, SgrParam, SgrState};
use crate::refvt::{self, Op};
use crate::ttyout::DEC_MODES;
use proptest::prelude::*;
use serde::{Deserialize, Serialize};
use surf_n_term::encoder::{ColorDepth, Encoder, TTYEncoder};
use surf_n_term::{
    Face, FaceAttrs, FaceModify, Position, RGBA, TerminalCaps, TerminalColor, TerminalCommand,
    UnderlineStyle,
};

pub struct C05;

#[derive(Clone, Copy, Debug, PartialEq, Eq, Serialize, Deserialize)]
pub struct FaceSpec {
    pub fg: Option<[u8; 3]>,
    pub bg: Option<[u8; 3]>,
    /// bit0 bold, bit1 italic, bit2 blink, bit3 reverse, bit4 strike
    pub flags: u8,
    /// 0 none .. 5 dashed
    pub underline: u8,
    /// alpha of fg / bg (None = opaque); only meaningful where the colour is present
    #[serde(default)]
    pub fg_alpha: Option<u8>,
    #[serde(default)]
    pub bg_alpha: Option<u8>,
}

/// the library colour of a generated colour (`alpha` None = opaque)
pub fn rgba(c: Option<[u8; 3]>, alpha: Option<u8>) -> Option<RGBA> {
    c.map(|[r, g, b]| RGBA::new(r, g, b, alpha.unwrap_or(255)))
}

pub fn ul_style(n: u8) -> UnderlineStyle {
    match n {
        1 => UnderlineStyle::Straight,
        2 => UnderlineStyle::Double,
        3 => UnderlineStyle::Curly,
        4 => UnderlineStyle::Dotted,
        5 => UnderlineStyle::Dashed,
        _ => UnderlineStyle::None,
    }
}

impl FaceSpec {
    pub fn to_face(self) -> Face {
        let mut attrs = FaceAttrs::EMPTY;
        for (bit, flag) in [
            (1, FaceAttrs::BOLD),
            (2, FaceAttrs::ITALIC),
            (4, FaceAttrs::BLINK),
            (8, FaceAttrs::REVERSE),
            (16, FaceAttrs::STRIKE),
        ] {
            if self.flags & bit != 0 {
                attrs = attrs | flag;
            }
        }
        attrs = attrs | FaceAttrs::from(ul_style(self.underline));
        Face::new(rgba(self.fg, self.fg_alpha), rgba(self.bg, self.bg_alpha), attrs)
    }
}

#[derive(Clone, Copy, Debug, PartialEq, Eq, Serialize, Deserialize)]
pub struct FmSpec {
    pub reset: bool,
    pub fg: Option<[u8; 3]>,
    pub bg: Option<[u8; 3]>,
    pub underline: Option<u8>,
    pub underline_color: Option<[u8; 3]>,
    pub bold: Option<bool>,
    pub italic: Option<bool>,
    pub blink: Option<bool>,
    pub strike: Option<bool>,
    /// alpha of fg / bg / underline colour (None = opaque); only meaningful where the colour
    /// is present
    #[serde(default)]
    pub fg_alpha: Option<u8>,
    #[serde(default)]
    pub bg_alpha: Option<u8>,
    #[serde(default)]
    pub ul_alpha: Option<u8>,
}

impl FmSpec {
    pub fn to_lib(self) -> FaceModify {
        FaceModify {
            reset: self.reset,
            fg: rgba(self.fg, self.fg_alpha),
            bg: rgba(self.bg, self.bg_alpha),
            underline: self.underline.map(ul_style),
            underline_color: rgba(self.underline_color, self.ul_alpha),
            bold: self.bold,
            italic: self.italic,
            blink: self.blink,
            strike: self.strike,
        }
    }
    pub fn is_noop(&self) -> bool {
        // (an alpha without its colour means nothing)
        !self.reset
            && self.fg.is_none()
            && self.bg.is_none()
            && self.underline.is_none()
            && self.underline_color.is_none()
            && self.bold.is_none()
            && self.italic.is_none()
            && self.blink.is_none()
            && self.strike.is_none()
    }
}

#[derive(Clone, Debug, PartialEq, Eq, Serialize, Deserialize)]
pub enum ColorSlot {
    Fg,
    Bg,
    Palette(usize),
}

#[derive(Clone, Debug, PartialEq, Eq, Serialize, Deserialize)]
pub enum Cmd {
    Char(char),
    Face(FaceSpec),
    FaceModify(FmSpec),
    FaceGet,
    DecModeSet { enable: bool, mode: usize },
    DecModeGet(usize),
    CursorGet,
    CursorTo { row: usize, col: usize },
    CursorMove { row: i32, col: i32 },
    CursorSave,
    CursorRestore,
    EraseLineLeft,
    EraseLineRight,
    EraseLine,
    EraseScreen,
    EraseChars(usize),
    Scroll(i32),
    ScrollRegion { start: usize, end: usize },
    Reset,
    Termcap(Vec<String>),
    Color { slot: ColorSlot, color: Option<[u8; 3]> },
    Title(String),
    DeviceAttrs,
    KeyboardLevel(usize),
}

#[derive(Clone, Copy, Debug, PartialEq, Eq, Serialize, Deserialize)]
pub struct Caps {
    /// 0 true colour, 1 256 colours, 2 grey
    pub depth: u8,
    pub glyphs: bool,
    pub kitty_keyboard: bool,
}

impl Caps {
    pub fn to_lib(self) -> TerminalCaps {
        TerminalCaps {
            depth: match self.depth {
                0 => ColorDepth::TrueColor,
                1 => ColorDepth::EightBit,
                _ => ColorDepth::Gray,
            },
            glyphs: self.glyphs,
            kitty_keyboard: self.kitty_keyboard,
        }
    }
}

#[derive(Clone, Debug, Serialize, Deserialize)]
pub struct Case {
    pub caps: Caps,
    pub prior: FaceSpec,
    pub cmds: Vec<Cmd>,
    /// history: before the stream, the same encoder was asked to encode command
    /// `cmds[i % len]` into a writer that accepts only `n` bytes and then refuses
    /// (`WouldBlock`), e.g. a full non-blocking pipe; the failed call's outcome is ignored
    #[serde(default)]
    pub failed_before: Option<(u8, u8)>,
    /// sink: the same stream is also encoded (fresh encoder, same history) into a writer that
    /// accepts at most `pattern[call % len]` (>= 1) bytes per `write` call, as `io::Write`
    /// allows (pipe, tty, fixed slice); see `ShortSink`
    #[serde(default)]
    pub short_sink: Option<Vec<u8>>,
    /// the library as its own reference: every command is also encoded alone by a brand-new
    /// encoder, and every colour of a face command alone (see `judge_against_fresh`)
    #[serde(default)]
    pub fresh_reference: bool,
}

/// `io::Write` that accepts `room` more bytes and then fails with `WouldBlock`
pub struct RefusingWriter {
    pub room: usize,
}

impl std::io::Write for RefusingWriter {
    fn write(&mut self, buf: &[u8]) -> std::io::Result<usize> {
        if self.room == 0 && !buf.is_empty() {
            return Err(std::io::ErrorKind::WouldBlock.into());
        }
        let n = buf.len().min(self.room);
        self.room -= n;
        Ok(n)
    }
    fn flush(&mut self) -> std::io::Result<()> {
        Ok(())
    }
}

/// `io::Write` that accepts at most `pattern[call % len]` bytes per `write` call (at least one
/// byte of a non-empty buffer, so a caller that retries always makes progress and never sees
/// an error); an empty pattern accepts everything. `data` is what reached the sink.
pub struct ShortSink {
    pub pattern: Vec<u8>,
    pub calls: usize,
    pub data: Vec<u8>,
}

impl ShortSink {
    pub fn new(pattern: &[u8]) -> Self {
        ShortSink { pattern: pattern.to_vec(), calls: 0, data: Vec::new() }
    }
}

impl std::io::Write for ShortSink {
    fn write(&mut self, buf: &[u8]) -> std::io::Result<usize> {
        let limit = match self.pattern.len() {
            0 => usize::MAX,
            n => (self.pattern[self.calls % n] as usize).max(1),
        };
        self.calls += 1;
        let n = buf.len().min(limit);
        self.data.extend_from_slice(&buf[..n]);
        Ok(n)
    }
    fn flush(&mut self) -> std::io::Result<()> {
        Ok(())
    }
}

/// per-call limits of a `ShortSink`: mostly a few bytes (shorter than one SGR parameter),
/// sometimes up to a whole short sequence or a line
pub fn short_sink_pattern() -> BoxedStrategy<Vec<u8>> {
    proptest::collection::vec(prop_oneof![3 => 1u8..=3, 2 => 1u8..=16, 1 => 1u8..=64], 1..4).boxed()
}

fn dec_mode(n: usize) -> surf_n_term::DecMode {
    DEC_MODES.iter().find(|(k, _)| *k == n).expect("mode from table").1
}

impl Cmd {
    pub fn to_lib(&self) -> TerminalCommand {
        match self {
            Cmd::Char(c) => TerminalCommand::Char(*c),
            Cmd::Face(f) => TerminalCommand::Face(f.to_face()),
            Cmd::FaceModify(m) => TerminalCommand::FaceModify(m.to_lib()),
            Cmd::FaceGet => TerminalCommand::FaceGet,
            Cmd::DecModeSet { enable, mode } => TerminalCommand::DecModeSet { enable: *enable, mode: dec_mode(*mode) },
            Cmd::DecModeGet(mode) => TerminalCommand::DecModeGet(dec_mode(*mode)),
            Cmd::CursorGet => TerminalCommand::CursorGet,
            Cmd::CursorTo { row, col } => TerminalCommand::CursorTo(Position::new(*row, *col)),
            Cmd::CursorMove { row, col } => TerminalCommand::CursorMove { row: *row, col: *col },
            Cmd::CursorSave => TerminalCommand::CursorSave,
            Cmd::CursorRestore => TerminalCommand::CursorRestore,
            Cmd::EraseLineLeft => TerminalCommand::EraseLineLeft,
            Cmd::EraseLineRight => TerminalCommand::EraseLineRight,
            Cmd::EraseLine => TerminalCommand::EraseLine,
            Cmd::EraseScreen => TerminalCommand::EraseScreen,
            Cmd::EraseChars(n) => TerminalCommand::EraseChars(*n),
            Cmd::Scroll(n) => TerminalCommand::Scroll(*n),
            Cmd::ScrollRegion { start, end } => TerminalCommand::ScrollRegion { start: *start, end: *end },
            Cmd::Reset => TerminalCommand::Reset,
            Cmd::Termcap(names) => TerminalCommand::Termcap(names.clone()),
            Cmd::Color { slot, color } => TerminalCommand::Color {
                name: match slot {
                    ColorSlot::Fg => TerminalColor::Foreground,
                    ColorSlot::Bg => TerminalColor::Background,
                    ColorSlot::Palette(i) => TerminalColor::Palette(*i),
                },
                color: color.map(|[r, g, b]| RGBA::new(r, g, b, 255)),
            },
            Cmd::Title(t) => TerminalCommand::Title(t.clone()),
            Cmd::DeviceAttrs => TerminalCommand::DeviceAttrs,
            Cmd::KeyboardLevel(n) => TerminalCommand::KeyboardLevel(*n),
        }
    }

    fn kind(&self) -> &'static str {
        match self {
            Cmd::Char(_) => "char",
            Cmd::Face(_) => "face",
            Cmd::FaceModify(_) => "face-modify",
            Cmd::FaceGet => "face-get",
            Cmd::DecModeSet { .. } => "dec-set",
            Cmd::DecModeGet(_) => "dec-get",
            Cmd::CursorGet => "cursor-get",
            Cmd::CursorTo { .. } => "cursor-to",
            Cmd::CursorMove { .. } => "cursor-move",
            Cmd::CursorSave | Cmd::CursorRestore => "cursor-save-restore",
            Cmd::EraseLineLeft | Cmd::EraseLineRight | Cmd::EraseLine | Cmd::EraseScreen => "erase",
            Cmd::EraseChars(_) => "erase-chars",
            Cmd::Scroll(_) => "scroll",
            Cmd::ScrollRegion { .. } => "scroll-region",
            Cmd::Reset => "reset",
            Cmd::Termcap(_) => "termcap",
            Cmd::Color { .. } => "color",
            Cmd::Title(_) => "title",
            Cmd::DeviceAttrs => "da1",
            Cmd::KeyboardLevel(_) => "keyboard-level",
        }
    }
}

/// what one command must look like to the interpreter
enum Want {
    Ops(Vec<Op>),
    /// exactly one SGR sequence with the meaning of this face
    Face(FaceSpec),
    /// exactly one SGR sequence with the meaning of this modification (none if a no-op)
    Modify(FmSpec),
}

const KEYBOARD_LEVEL: u64 = 0b0101;

fn want(cmd: &Cmd, caps: Caps) -> Want {
    let ops = |v: Vec<Op>| Want::Ops(v);
    match cmd {
        Cmd::Char(c) => ops(vec![if (*c as u32) < 0x20 || *c == '\u{7f}' { Op::C0(*c as u8) } else { Op::Print(*c) }]),
        Cmd::Face(f) => Want::Face(*f),
        Cmd::FaceModify(m) => Want::Modify(*m),
        Cmd::FaceGet => ops(vec![Op::Decrqss(b"m".to_vec())]),
        Cmd::DecModeSet { enable, mode } => {
            let mut v = Vec::new();
            let alt = *mode == 1049;
            if alt && !*enable && caps.kitty_keyboard {
                v.push(Op::KittyKbdSet(0, 1));
            }
            v.push(Op::DecSet(*mode as u64, *enable));
            if alt && *enable && caps.kitty_keyboard {
                v.push(Op::KittyKbdSet(KEYBOARD_LEVEL, 1));
            }
            ops(v)
        }
        Cmd::DecModeGet(mode) => ops(vec![Op::Decrqm(*mode as u64)]),
        Cmd::CursorGet => ops(vec![Op::Dsr6]),
        Cmd::CursorTo { row, col } => ops(vec![Op::Cup(*row as u64 + 1, *col as u64 + 1)]),
        Cmd::CursorMove { row, col } => {
            let mut v = Vec::new();
            // at most one horizontal and one vertical relative move, none for 0
            if *col > 0 {
                v.push(Op::Cuf(*col as u64));
            } else if *col < 0 {
                v.push(Op::Cub(col.unsigned_abs() as u64));
            }
            if *row > 0 {
                v.push(Op::Cud(*row as u64));
            } else if *row < 0 {
                v.push(Op::Cuu(row.unsigned_abs() as u64));
            }
            ops(v)
        }
        Cmd::CursorSave => ops(vec![Op::SaveCursor]),
        Cmd::CursorRestore => ops(vec![Op::RestoreCursor]),
        Cmd::EraseLineRight => ops(vec![Op::El(0)]),
        Cmd::EraseLineLeft => ops(vec![Op::El(1)]),
        Cmd::EraseLine => ops(vec![Op::El(2)]),
        Cmd::EraseScreen => ops(vec![Op::Ed(2)]),
        // erases exactly n cells: nothing for 0 (ECH 0 would erase one)
        Cmd::EraseChars(n) => ops(if *n == 0 { vec![] } else { vec![Op::Ech(*n as u64)] }),
        Cmd::Scroll(n) => ops(if *n > 0 {
            vec![Op::Su(*n as u64)]
        } else if *n < 0 {
            vec![Op::Sd(n.unsigned_abs() as u64)]
        } else {
            vec![]
        }),
        Cmd::ScrollRegion { start, end } => ops(vec![if end > start {
            Op::Decstbm(Some((*start as u64 + 1, *end as u64 + 1)))
        } else {
            Op::Decstbm(None)
        }]),
        Cmd::Reset => ops(vec![Op::Ris]),
        Cmd::Termcap(names) => ops(vec![Op::Xtgettcap(names.iter().map(|n| n.as_bytes().to_vec()).collect())]),
        Cmd::Color { slot, color } => {
            let slot = match slot {
                ColorSlot::Fg => "10".to_string(),
                ColorSlot::Bg => "11".to_string(),
                ColorSlot::Palette(i) => format!("4;{i}"),
            };
            let value = match color {
                None => "?".to_string(),
                Some([r, g, b]) => format!("#{r:02x}{g:02x}{b:02x}"),
            };
            ops(vec![Op::OscColor { slot, value }])
        }
        Cmd::Title(t) => ops(vec![Op::OscTitle(t.clone())]),
        Cmd::DeviceAttrs => ops(vec![Op::Da1]),
        Cmd::KeyboardLevel(n) => ops(if caps.kitty_keyboard { vec![Op::KittyKbdSet(*n as u64, 1)] } else { vec![] }),
    }
}

fn translucent(alpha: Option<u8>) -> bool {
    alpha.is_some_and(|a| a != 255)
}

/// the colours of a face command in the order the encoder resolves them
fn colour_slots(cmd: &Cmd) -> Vec<(Role, [u8; 3], Option<u8>)> {
    let all = match cmd {
        Cmd::Face(f) => vec![(Role::Fg, f.fg, f.fg_alpha), (Role::Bg, f.bg, f.bg_alpha)],
        Cmd::FaceModify(m) => vec![(Role::Fg, m.fg, m.fg_alpha), (Role::Bg, m.bg, m.bg_alpha), (Role::Ul, m.underline_color, m.ul_alpha)],
        _ => Vec::new(),
    };
    all.into_iter().filter_map(|(r, c, a)| c.map(|c| (r, c, a))).collect()
}

/// `cmd` encoded alone by a brand-new encoder; None if that fails (judged on the stream)
fn fresh_bytes(cmd: TerminalCommand, caps: Caps) -> Option<Vec<u8>> {
    let mut out = Vec::new();
    let mut enc = TTYEncoder::new(caps.to_lib());
    guard_val(|| enc.encode(&mut out, cmd)).ok()?.ok()?;
    Some(out)
}

fn ops_of(bytes: &[u8]) -> Option<Vec<Op>> {
    Some(refvt::parse(bytes).ok()?.iter().map(refvt::interpret).collect())
}

/// what the colour parameters of `role` select (an interpreter's view: RGB of the parameter)
fn selected(params: &[SgrParam], role: Role) -> Vec<[u8; 3]> {
    colour_params(params, role).into_iter().filter_map(|p| refsgr::color_of(p).map(|(_, rgb)| rgb)).collect()
}

fn depth_name(caps: Caps) -> &'static str {
    match caps.depth {
        0 => "true-colour",
        1 => "256-colour",
        _ => "grey-level",
    }
}

/// the library as its own reference (`bytes`/`ops` = what the long-lived encoder of the stream
/// emitted for `cmd`)
fn judge_against_fresh(cmd: &Cmd, caps: Caps, bytes: &[u8], ops: &[Op]) -> Result<(), Fail> {
    // "a stream of commands parses back into the same operations whatever preceded it": the
    // command encoded alone by a brand-new encoder must mean the same
    if let Some(fresh) = fresh_bytes(cmd.to_lib(), caps) {
        if fresh != bytes {
            if let Some(fresh_ops) = ops_of(&fresh) {
                ensure!(
                    fresh_ops == ops,
                    format!("encode/{}/depends-on-history", cmd.kind()),
                    "{:?} under {:?}: the stream's encoder emitted \"{}\" = {:?}, a brand-new encoder emits \"{}\" = {:?} for the same command",
                    cmd,
                    caps,
                    esc(bytes),
                    ops,
                    esc(&fresh),
                    fresh_ops
                );
            }
        }
    }
    // "one palette entry per colour" (one true colour / grey level): what a colour selects is
    // decided by the colour, not by the other colours and attributes of the command nor by
    // earlier commands; the reference is the colour alone in a FaceModify of a new encoder
    let slots = colour_slots(cmd);
    if let ([Op::Sgr(params)], false) = (ops, slots.is_empty()) {
        let family = if matches!(cmd, Cmd::Face(_)) { "face" } else { "modify" };
        for (role, rgb, alpha) in slots {
            let colour = rgba(Some(rgb), alpha);
            let alone = match role {
                Role::Fg => FaceModify { fg: colour, ..FaceModify::default() },
                Role::Bg => FaceModify { bg: colour, ..FaceModify::default() },
                Role::Ul => FaceModify { underline_color: colour, ..FaceModify::default() },
            };
            let Some(alone_bytes) = fresh_bytes(TerminalCommand::FaceModify(alone), caps) else { continue };
            let alone_sel = match ops_of(&alone_bytes).as_deref() {
                Some([Op::Sgr(p)]) => selected(p, role),
                Some([]) => Vec::new(),
                _ => continue,
            };
            let here = selected(params, role);
            ensure!(
                here == alone_sel,
                format!("{family}/{}-depends-on-context", depth_name(caps)),
                "{:?} under {:?} emitted \"{}\": the {:?} colour {:?} (alpha {:?}) selects {:?} here, but {:?} when a brand-new encoder encodes this colour alone (\"{}\")",
                cmd,
                caps,
                esc(bytes),
                role,
                rgb,
                alpha.unwrap_or(255),
                here,
                alone_sel,
                esc(&alone_bytes)
            );
        }
    }
    Ok(())
}

fn colour_params(params: &[SgrParam], role: Role) -> Vec<&SgrParam> {
    params
        .iter()
        .filter(|p| matches!(refsgr::color_of(p), Some((r, _)) if r == role))
        .collect()
}

/// equivalent OSC colour spellings an interpreter accepts for an opaque colour
fn osc_value_matches(got: &str, want: &str) -> bool {
    if got == want {
        return true;
    }
    // `rgb:rr/gg/bb` is the other standard spelling
    if let (Some(h), Some(rgb)) = (want.strip_prefix('#'), got.strip_prefix("rgb:")) {
        let parts: Vec<&str> = rgb.split('/').collect();
        if parts.len() == 3 && h.len() == 6 {
            return parts.iter().enumerate().all(|(i, p)| p.eq_ignore_ascii_case(&h[2 * i..2 * i + 2]));
        }
    }
    false
}

fn check_face_sgr(params: &[SgrParam], face: FaceSpec, caps: Caps, prior: FaceSpec) -> Result<(), Fail> {
    let mut st = SgrState::from_face(&prior.to_face());
    st.ul_color = Some([9, 9, 9]);
    st.apply_all(params);
    let want = SgrState::from_face(&face.to_face());
    // attributes: exactly the requested ones, whatever was set before
    let attrs = |s: &SgrState| (s.underline, s.bold, s.italic, s.blink, s.strike, s.reverse);
    ensure!(
        attrs(&st) == attrs(&want),
        "face/attributes",
        "Face({:?}) from prior {:?} emitted SGR {:?} which leaves attributes (underline,bold,italic,blink,strike,reverse) = {:?}, requested {:?}",
        face,
        prior,
        refsgr::print(params),
        attrs(&st),
        attrs(&want)
    );
    ensure!(
        st.ul_color.is_none(),
        "face/underline-colour-survives",
        "Face emitted SGR {:?} which keeps a previously set underline colour",
        refsgr::print(params)
    );
    for (role, have, wanted, alpha) in [(Role::Fg, st.fg, want.fg, face.fg_alpha), (Role::Bg, st.bg, want.bg, face.bg_alpha)] {
        let ps = colour_params(params, role);
        match caps.depth {
            // which RGB a terminal should show for a translucent colour the statement does not
            // say: exactly one true-colour parameter, its value is judged against the library
            // itself (fresh encoder / colour alone, see `judge`)
            0 if translucent(alpha) => ensure!(
                ps.len() == wanted.is_some() as usize && ps.iter().all(|p| matches!(p, SgrParam::Rgb { .. })) && have.is_some() == wanted.is_some(),
                "face/true-colour-one-parameter-per-colour",
                "Face({:?}) emitted SGR {:?}: expected exactly one true-colour parameter for the translucent {:?} colour",
                face,
                refsgr::print(params),
                role
            ),
            0 => ensure!(
                have == wanted,
                "face/true-colour",
                "Face({:?}) emitted SGR {:?}: {:?} colour becomes {:?}, requested {:?}",
                face,
                refsgr::print(params),
                role,
                have,
                wanted
            ),
            1 => ensure!(
                ps.len() == wanted.is_some() as usize
                    && ps.iter().all(|p| matches!(p, SgrParam::Idx { .. }))
                    && have.is_some() == wanted.is_some(),
                "face/256-colour-one-entry-per-colour",
                "Face({:?}) at 256 colours emitted SGR {:?}: expected exactly one palette entry for a present {:?} colour and none otherwise",
                face,
                refsgr::print(params),
                role
            ),
            _ => ensure!(
                ps.len() == wanted.is_some() as usize
                    && ps.iter().all(|p| matches!(p, SgrParam::Named { n: 0 | 7, .. }))
                    && have.is_some() == wanted.is_some(),
                "face/grey-one-level-per-colour",
                "Face({:?}) at grey depth emitted SGR {:?}: expected exactly one of the four grey levels for a present {:?} colour",
                face,
                refsgr::print(params),
                role
            ),
        }
    }
    ensure!(
        colour_params(params, Role::Ul).is_empty(),
        "face/unrequested-underline-colour",
        "Face emitted an underline colour: {:?}",
        refsgr::print(params)
    );
    Ok(())
}

fn check_modify_sgr(params: &[SgrParam], m: FmSpec, caps: Caps, prior: FaceSpec) -> Result<(), Fail> {
    let got = refsgr::to_face_modify(params);
    let want = m.to_lib();
    // non-colour fields must be exactly those named
    ensure!(
        (got.reset, got.underline, got.bold, got.italic, got.blink, got.strike)
            == (want.reset, want.underline, want.bold, want.italic, want.blink, want.strike),
        "modify/attributes",
        "FaceModify({:?}) emitted SGR {:?} which an SGR interpreter reads as {:?}",
        m,
        refsgr::print(params),
        got
    );
    // and behave so on an arbitrary prior state
    let mut st = SgrState::from_face(&prior.to_face());
    let before = st;
    st.apply_all(params);
    let mut model = if m.reset { SgrState::default() } else { before };
    if let Some(u) = m.underline {
        model.underline = u;
    }
    for (field, v) in [(&mut model.bold, m.bold), (&mut model.italic, m.italic), (&mut model.blink, m.blink), (&mut model.strike, m.strike)] {
        if let Some(v) = v {
            *field = v;
        }
    }
    ensure!(
        (st.underline, st.bold, st.italic, st.blink, st.strike, st.reverse)
            == (model.underline, model.bold, model.italic, model.blink, model.strike, model.reverse),
        "modify/attributes-on-prior-state",
        "FaceModify({:?}) on prior {:?}: SGR {:?} gives {:?}, expected {:?}",
        m,
        prior,
        refsgr::print(params),
        st,
        model
    );
    for (role, got_c, want_c, alpha) in [
        (Role::Fg, got.fg, want.fg, m.fg_alpha),
        (Role::Bg, got.bg, want.bg, m.bg_alpha),
        (Role::Ul, got.underline_color, want.underline_color, m.ul_alpha),
    ] {
        let ps = colour_params(params, role);
        match caps.depth {
            // (see check_face_sgr)
            0 if translucent(alpha) => ensure!(
                got_c.is_some() == want_c.is_some() && ps.len() == want_c.is_some() as usize && ps.iter().all(|p| matches!(p, SgrParam::Rgb { .. })),
                "modify/true-colour-one-parameter-per-colour",
                "FaceModify({:?}) emitted SGR {:?}: expected exactly one true-colour parameter for the translucent {:?} colour",
                m,
                refsgr::print(params),
                role
            ),
            0 => ensure!(
                got_c == want_c && ps.len() == want_c.is_some() as usize,
                "modify/true-colour",
                "FaceModify({:?}) emitted SGR {:?}: {:?} colour read back as {:?}",
                m,
                refsgr::print(params),
                role,
                got_c
            ),
            1 => ensure!(
                ps.len() == want_c.is_some() as usize && ps.iter().all(|p| matches!(p, SgrParam::Idx { .. })),
                "modify/256-colour-one-entry-per-colour",
                "FaceModify({:?}) at 256 colours emitted SGR {:?} for {:?}",
                m,
                refsgr::print(params),
                role
            ),
            _ => {
                let expect = if role == Role::Ul { 0 } else { want_c.is_some() as usize };
                ensure!(
                    ps.len() == expect && ps.iter().all(|p| matches!(p, SgrParam::Named { n: 0 | 7, .. })),
                    "modify/grey-one-level-per-colour",
                    "FaceModify({:?}) at grey depth emitted SGR {:?} for {:?}",
                    m,
                    refsgr::print(params),
                    role
                );
            }
        }
    }
    Ok(())
}

fn esc(b: &[u8]) -> String {
    String::from_utf8_lossy(b).escape_debug().to_string()
}

/// encode the case's stream (after its history) through a fresh encoder into `out`;
/// returns the byte range each command produced (`written` = bytes that reached `out`)
fn encode_stream<W: std::io::Write>(case: &Case, out: &mut W, written: impl Fn(&W) -> usize, sink: &str) -> Result<Vec<(usize, usize)>, Fail> {
    let caps = case.caps;
    let mut enc = TTYEncoder::new(caps.to_lib());
    if let Some((i, room)) = case.failed_before {
        // whatever preceded: an encode call that failed half-way must leave nothing behind
        let cmd = &case.cmds[i as usize % case.cmds.len()];
        let mut w = RefusingWriter { room: room as usize };
        let _ = guard_val(|| enc.encode(&mut w, cmd.to_lib())).map_err(|f| {
            Fail::new(format!("encode/{}+{}", cmd.kind(), f.sig), format!("{:?} under {:?} into a refusing writer: {}", cmd, caps, f.msg))
        })?;
    }
    let mut per_cmd: Vec<(usize, usize)> = Vec::new();
    for cmd in &case.cmds {
        let start = written(out);
        let r = guard_val(|| enc.encode(&mut *out, cmd.to_lib())).map_err(|f| {
            Fail::new(format!("encode/{}+{}", cmd.kind(), f.sig), format!("{:?} under {:?}{sink}: {}", cmd, caps, f.msg))
        })?;
        if let Err(e) = r {
            let class = if sink.is_empty() { "error" } else { "short-write-sink-error" };
            return Err(Fail::new(format!("encode/{}/{class}", cmd.kind()), format!("{:?}{sink}: encoder returned {e:?}", cmd)));
        }
        per_cmd.push((start, written(out)));
    }
    Ok(per_cmd)
}

/// the oracle: `all` (what reached the writer) parsed by the independent interpreter
fn judge(case: &Case, all: &[u8], per_cmd: &[(usize, usize)]) -> Result<(), Fail> {
    let caps = case.caps;
    // the whole stream must be complete sequences, and each command self-contained
    let stream = refvt::parse(all).map_err(|e| {
        Fail::new("stream/incomplete-or-malformed", format!("stream \"{}\" of {:?}: {e}", esc(all), case.cmds))
    })?;
    let mut stream_ops: Vec<Op> = stream.iter().map(refvt::interpret).collect();
    stream_ops.reverse(); // pop from the front
    for (cmd, (s, e)) in case.cmds.iter().zip(per_cmd.iter()) {
        let bytes = &all[*s..*e];
        let seqs = refvt::parse(bytes).map_err(|err| {
            Fail::new(
                format!("encode/{}/not-self-contained", cmd.kind()),
                format!("{:?} under {:?} emitted \"{}\": {err}", cmd, caps, esc(bytes)),
            )
        })?;
        let ops: Vec<Op> = seqs.iter().map(refvt::interpret).collect();
        // same operations whatever preceded (stream parse == isolated parse)
        for op in &ops {
            let from_stream = stream_ops.pop();
            ensure!(
                from_stream.as_ref() == Some(op),
                "stream/context-dependent",
                "{:?}: parsed alone gives {:?} but inside the stream gives {:?}",
                cmd,
                op,
                from_stream
            );
        }
        let mismatch = |what: &str, detail: String| {
            Err(Fail::new(
                format!("encode/{}/{what}", cmd.kind()),
                format!("{:?} under {:?} emitted \"{}\" = {:?}: {detail}", cmd, caps, esc(bytes), ops),
            ))
        };
        match want(cmd, caps) {
            Want::Ops(w) => {
                let same = w.len() == ops.len()
                    && w.iter().zip(ops.iter()).all(|(w, g)| match (w, g) {
                        (Op::OscColor { slot: ws, value: wv }, Op::OscColor { slot: gs, value: gv }) => ws == gs && osc_value_matches(gv, wv),
                        (w, g) => w == g,
                    });
                if !same {
                    let class = match cmd {
                        Cmd::EraseChars(0) => "zero-count",
                        Cmd::CursorMove { row, col } if *row == i32::MIN || *col == i32::MIN => "i32-min",
                        Cmd::Scroll(n) if *n == i32::MIN => "i32-min",
                        _ => "wrong-operation",
                    };
                    return mismatch(class, format!("a VT/xterm interpreter should perform {:?}", w));
                }
            }
            Want::Face(f) => match ops.as_slice() {
                [Op::Sgr(params)] => check_face_sgr(params, f, caps, case.prior)?,
                _ => return mismatch("not-one-sgr", "expected exactly one well-formed SGR sequence".into()),
            },
            Want::Modify(m) => match ops.as_slice() {
                [] if m.is_noop() || (caps.depth == 2 && FmSpec { underline_color: None, ..m }.is_noop()) => {}
                [Op::Sgr(params)] => check_modify_sgr(params, m, caps, case.prior)?,
                _ => return mismatch("not-one-sgr", "expected exactly one well-formed SGR sequence (none for a no-op)".into()),
            },
        }
        if case.fresh_reference {
            judge_against_fresh(cmd, caps, bytes, &ops)?;
        }
    }
    Ok(())
}

pub fn check_case(case: &Case) -> Outcome {
    let caps = case.caps;
    let mut all: Vec<u8> = Vec::new();
    let per_cmd = encode_stream(case, &mut all, |v| v.len(), "")?;
    judge(case, &all, &per_cmd)?;
    if let Some(pattern) = &case.short_sink {
        // `encode` returned Ok for every command, so by the contract of io::Write (a call may
        // accept only a prefix, the caller offers the rest again) the complete sequences must
        // have reached this writer too
        let note = format!(" into a writer accepting at most {:?} bytes per write call (cyclic)", pattern);
        let mut sink = ShortSink::new(pattern);
        let per_sink = encode_stream(case, &mut sink, |s| s.data.len(), &note)?;
        if sink.data != all {
            if let Err(f) = judge(case, &sink.data, &per_sink) {
                let idx = per_cmd
                    .iter()
                    .zip(per_sink.iter())
                    .position(|((s, e), (ss, se))| all[*s..*e] != sink.data[*ss..*se])
                    .unwrap_or(0);
                let cmd = &case.cmds[idx];
                return Err(Fail::new(
                    format!("encode/{}/short-write-sink", cmd.kind()),
                    format!(
                        "{:?} under {:?}{note}: \"{}\" reached the writer, a Vec receives \"{}\", and encode returned Ok; judged on what reached the writer: [{}] {}",
                        cmd,
                        caps,
                        esc(&sink.data[per_sink[idx].0..per_sink[idx].1]),
                        esc(&all[per_cmd[idx].0..per_cmd[idx].1]),
                        f.sig,
                        f.msg
                    ),
                ));
            }
        }
    }
    let kinds: std::collections::BTreeSet<&str> = case.cmds.iter().map(|c| c.kind()).collect();
    let rich_face = case.cmds.iter().any(|c| match c {
        Cmd::Face(f) => (f.flags.count_ones() + (f.underline != 0) as u32) >= 2 && (f.fg.is_some() || f.bg.is_some()),
        _ => false,
    });
    let extreme = case.cmds.iter().any(|c| match c {
        Cmd::CursorMove { row, col } => [i32::MIN, i32::MAX].contains(row) || [i32::MIN, i32::MAX].contains(col),
        Cmd::Scroll(n) => [i32::MIN, i32::MAX].contains(n),
        Cmd::CursorTo { row, col } => *row >= 65534 || *col >= 65534,
        Cmd::EraseChars(0) => true,
        _ => false,
    });
    // colours in the order the encoder looks them up
    let lookups: Vec<(usize, [u8; 3], u8)> = case
        .cmds
        .iter()
        .enumerate()
        .flat_map(|(i, c)| colour_slots(c).into_iter().map(move |(_, rgb, a)| (i, rgb, a.unwrap_or(255))))
        .collect();
    let has_translucent = lookups.iter().any(|l| l.2 != 255);
    let echo = |same_cmd: bool| lookups.windows(2).any(|w| w[0].1 == w[1].1 && w[0].2 != w[1].2 && (w[0].0 == w[1].0) == same_cmd);
    let mut pass = Pass::new(kinds.len() >= 2 || rich_face || extreme)
        .label_if(case.fresh_reference, "fresh-encoder-reference")
        .label_if(has_translucent, "translucent-colour")
        .label_if(echo(true), "equal-rgb-other-alpha:in-one-command")
        .label_if(echo(false), "equal-rgb-other-alpha:consecutive-commands")
        .label_if(lookups.windows(2).any(|w| w[0].1 == w[1].1 && w[0].2 == w[1].2), "same-colour-twice-in-a-row")
        .label(match caps.depth { 0 => "depth:true", 1 => "depth:256", _ => "depth:grey" })
        .label_if(caps.kitty_keyboard, "kitty-keyboard")
        .label_if(case.short_sink.is_some(), "short-write-sink")
        .label_if(rich_face, "rich-face")
        .label_if(extreme, "extreme-numeric");
    for k in kinds {
        pass = pass.label(k);
    }
    Ok(pass)
}

fn rgb() -> BoxedStrategy<[u8; 3]> {
    prop_oneof![
        3 => any::<[u8; 3]>(),
        1 => proptest::sample::select(vec![[0u8, 0, 0], [255, 255, 255], [128, 128, 128], [255, 0, 0], [1, 2, 3], [95, 135, 175]]),
    ]
    .boxed()
}

pub fn face_spec() -> BoxedStrategy<FaceSpec> {
    (proptest::option::of(rgb()), proptest::option::of(rgb()), 0u8..32, 0u8..=5)
        .prop_map(|(fg, bg, flags, underline)| FaceSpec { fg, bg, flags, underline, fg_alpha: None, bg_alpha: None })
        .boxed()
}

pub fn fm_spec() -> BoxedStrategy<FmSpec> {
    let ob = || proptest::option::weighted(0.4, any::<bool>());
    (
        proptest::bool::weighted(0.25),
        proptest::option::weighted(0.4, rgb()),
        proptest::option::weighted(0.4, rgb()),
        proptest::option::weighted(0.4, 0u8..=5),
        proptest::option::weighted(0.25, rgb()),
        ob(),
        ob(),
        ob(),
        ob(),
    )
        .prop_map(|(reset, fg, bg, underline, underline_color, bold, italic, blink, strike)| FmSpec {
            reset,
            fg,
            bg,
            underline,
            underline_color,
            bold,
            italic,
            blink,
            strike,
            fg_alpha: None,
            bg_alpha: None,
            ul_alpha: None,
        })
        .boxed()
}

const ALPHAS: [u8; 8] = [0, 1, 48, 128, 200, 254, 255, 96];

/// history-correlated colours: the k-th colour the encoder will look up (fg, bg, underline
/// colour of each face command, in this order) is rewritten as `plan[k % len]` says:
/// `p % 4` = 0 unchanged, 1 own RGB with alpha `ALPHAS[p / 4 % 8]`, 2|3 the RGB of the colour
/// looked up just before (same or previous face command) with alpha `ALPHAS[p / 4 % 8]`
pub fn correlate_colours(cmds: &mut [Cmd], plan: &[u8]) {
    if plan.is_empty() {
        return;
    }
    let mut prev: Option<[u8; 3]> = None;
    let mut k = 0usize;
    let mut slot = |c: &mut Option<[u8; 3]>, a: &mut Option<u8>| {
        let Some(rgb) = c.as_mut() else { return };
        let p = plan[k % plan.len()];
        k += 1;
        let alpha = ALPHAS[(p / 4) as usize % ALPHAS.len()];
        match p % 4 {
            0 => {}
            1 => *a = Some(alpha),
            _ => {
                if let Some(q) = prev {
                    *rgb = q;
                }
                *a = Some(alpha);
            }
        }
        prev = Some(*rgb);
    };
    for cmd in cmds {
        match cmd {
            Cmd::Face(f) => {
                slot(&mut f.fg, &mut f.fg_alpha);
                slot(&mut f.bg, &mut f.bg_alpha);
            }
            Cmd::FaceModify(m) => {
                slot(&mut m.fg, &mut m.fg_alpha);
                slot(&mut m.bg, &mut m.bg_alpha);
                slot(&mut m.underline_color, &mut m.ul_alpha);
            }
            _ => {}
        }
    }
}

fn pos() -> BoxedStrategy<usize> {
    prop_oneof![
        3 => proptest::sample::select(vec![0usize, 1, 79, 65534, 65535]),
        3 => 0usize..300,
        1 => 0usize..(1 << 31),
    ]
    .boxed()
}

fn signed() -> BoxedStrategy<i32> {
    prop_oneof![
        3 => proptest::sample::select(vec![0, 1, -1, i32::MAX, i32::MIN, i32::MIN + 1]),
        3 => -300i32..300,
        1 => any::<i32>(),
    ]
    .boxed()
}

pub fn printable_char() -> BoxedStrategy<char> {
    prop_oneof![
        5 => (0x20u32..0x7f).prop_map(|c| char::from_u32(c).unwrap()),
        2 => proptest::sample::select(vec!['é', 'я', '世', '🤩', '\u{a0}', '\u{ffff}', '\u{10ffff}']),
        2 => any::<char>().prop_filter("printable", |c| !c.is_control()),
    ]
    .boxed()
}

fn cmd() -> BoxedStrategy<Cmd> {
    let modes: Vec<usize> = DEC_MODES.iter().map(|m| m.0).collect();
    let title = proptest::collection::vec(printable_char(), 0..12).prop_map(|v| v.into_iter().collect::<String>());
    prop_oneof![
        3 => printable_char().prop_map(Cmd::Char),
        6 => face_spec().prop_map(Cmd::Face),
        6 => fm_spec().prop_map(Cmd::FaceModify),
        1 => Just(Cmd::FaceGet),
        3 => (any::<bool>(), proptest::sample::select(modes.clone())).prop_map(|(enable, mode)| Cmd::DecModeSet { enable, mode }),
        1 => proptest::sample::select(modes).prop_map(Cmd::DecModeGet),
        1 => Just(Cmd::CursorGet),
        3 => (pos(), pos()).prop_map(|(row, col)| Cmd::CursorTo { row, col }),
        3 => (signed(), signed()).prop_map(|(row, col)| Cmd::CursorMove { row, col }),
        1 => Just(Cmd::CursorSave),
        1 => Just(Cmd::CursorRestore),
        1 => Just(Cmd::EraseLineLeft),
        1 => Just(Cmd::EraseLineRight),
        1 => Just(Cmd::EraseLine),
        1 => Just(Cmd::EraseScreen),
        3 => prop_oneof![Just(0usize), Just(1usize), 0usize..300, 0usize..(1 << 31)].prop_map(Cmd::EraseChars),
        3 => signed().prop_map(Cmd::Scroll),
        2 => (pos(), pos()).prop_map(|(start, end)| Cmd::ScrollRegion { start, end }),
        1 => Just(Cmd::Reset),
        2 => proptest::collection::vec("[A-Za-z0-9]{1,8}", 0..4).prop_map(Cmd::Termcap),
        2 => (prop_oneof![Just(ColorSlot::Fg), Just(ColorSlot::Bg), prop_oneof![0usize..=255, 0usize..100000].prop_map(ColorSlot::Palette)], proptest::option::of(rgb()))
            .prop_map(|(slot, color)| Cmd::Color { slot, color }),
        2 => title.prop_map(Cmd::Title),
        1 => Just(Cmd::DeviceAttrs),
        2 => prop_oneof![0usize..32, 0usize..100000].prop_map(Cmd::KeyboardLevel),
    ]
    .boxed()
}

pub fn caps() -> BoxedStrategy<Caps> {
    (0u8..3, any::<bool>(), any::<bool>())
        .prop_map(|(depth, glyphs, kitty_keyboard)| Caps { depth, glyphs, kitty_keyboard })
        .boxed()
}

impl Property for C05 {
    type Case = Case;

    fn fuzz(&self) -> Option<FuzzSpec> {
        // entropy-driven target: libFuzzer's bytes replace the generator's random numbers
        Some(FuzzSpec { target: "gen", jobs: 8, runs: 400_000, max_len: 2048, seeds: 64 })
    }

    fn id(&self) -> &'static str {
        "C05"
    }

    fn strategy(&self, _tier: Tier) -> BoxedStrategy<Case> {
        // in 30% of the cases the colours of the stream are correlated with their history and get
        // an alpha (see `correlate_colours`)
        let plan = prop_oneof![7 => Just(Vec::new()), 3 => proptest::collection::vec(any::<u8>(), 1..6)];
        (caps(), face_spec(), proptest::collection::vec(cmd(), 1..10), proptest::option::weighted(0.2, (any::<u8>(), 0u8..48)), proptest::option::weighted(0.2, short_sink_pattern()), plan, proptest::bool::weighted(0.1))
            .prop_map(|(caps, prior, mut cmds, failed_before, short_sink, plan, fresh)| {
                correlate_colours(&mut cmds, &plan);
                Case { caps, prior, cmds, failed_before, short_sink, fresh_reference: fresh || !plan.is_empty() }
            })
            .boxed()
    }

    fn check(&self, case: &Case) -> Outcome {
        check_case(case)
    }

    fn cases(&self, tier: Tier) -> u32 {
        tier.pick(120_000, 1_000_000)
    }

    fn rule(&self) -> String {
        "streams of 1-9 commands through one TTYEncoder (in one case of five the encoder has first been asked to encode one of these commands into a writer that refuses after 0-47 bytes; in one case of five the same stream is also encoded, by a fresh encoder with the same history, into a writer that accepts only 1-64 (mostly 1-3) bytes per write call in a cyclic pattern of 1-3 limits, and if other bytes reach it than reach the Vec the whole oracle is applied to them: signature encode/<kind>/short-write-sink) under every colour depth x kitty-keyboard setting: every TerminalCommand variant except Raw/Image (positions biased to 0,1,79,65534,65535 and uniform below 2^31; signed moves/scrolls incl. 0, +-1, i32::MAX, i32::MIN; erase counts incl. 0; faces = optional fg/bg x all 32 flag subsets x 6 underline styles; face modifications with every field combination; colours opaque, and in 30% of the cases rewritten along the order in which the encoder looks them up (fg, bg, underline colour of each face command) by a generated plan of 1-5 steps: unchanged / own RGB with an alpha out of 0,1,48,96,128,200,254,255 / the RGB of the colour looked up just before, in the same or the previous face command, with such an alpha - so translucent colours, the same colour twice in a row and equal RGB with another alpha occur as fg/bg of one face and in consecutive commands; all DEC modes; palette indices; capability names [A-Za-z0-9]{1,8}; titles and characters of printable Unicode). The output is parsed by an independent ECMA-48/xterm parser: complete self-contained sequences only, operation list equal to the commanded operations, identical when parsed inside the stream; SGR judged by the reference SGR machine from an arbitrary prior state (a translucent colour in true colour: exactly one true-colour parameter). In the cases with rewritten colours and in one of ten others the library is also its own reference: every command is encoded alone by a brand-new encoder and, if the bytes differ, must parse into the same operations as the bytes of the stream's encoder (encode/<kind>/depends-on-history); every colour of a face command is encoded alone (FaceModify with just this colour, brand-new encoder) and must select the same true colour / palette entry / grey level as inside the command (face|modify/<true-colour|256-colour|grey-level>-depends-on-context). non-trivial = >=2 command kinds, or a face with >=2 attributes and a colour, or an extreme numeric".into()
    }

    fn assumptions(&self) -> Vec<String> {
        vec![
            "interpreter conventions: missing or 0 count = 1 for CUU/CUD/CUF/CUB/ECH/SU/SD; SGR per ECMA-48/xterm/kitty (22 normal intensity, 21 double underline, 4:n underline styles, 38/48/58 colours)".into(),
            "reduced depths are checked for shape only (exactly one palette entry / grey level per present colour); which entry is C20's subject".into(),
            "EraseChars(0), Scroll(0), CursorMove{0,0} must perform nothing".into(),
            "translucent colours: the statement does not say which RGB / palette entry an interpreter should be given for a colour with alpha < 255, so the harness requires no particular value - only the shape (one parameter per colour) and that the value is a function of the colour: equal to what a brand-new encoder emits for the same command, and to what it emits for this colour alone ('one palette entry per colour', 'whatever preceded it'); parameters are compared by the RGB an interpreter resolves them to".into(),
            "positions at or above 2^31 and TerminalCommand::Raw/Image are not generated".into(),
            "contract of io::Write the statement relies on: write may accept any non-empty prefix of the buffer and the caller must offer the rest again; a writer that always makes progress and never fails must therefore receive the complete sequences whenever encode returns Ok (an Err from encode into such a writer is reported as encode/<kind>/short-write-sink-error)".into(),
        ]
    }
}
