//! C12 — sixel output decodes to the quantised image, exact when colours fit the palette.
//!
//! Oracle: an independent sixel interpreter (written from the DEC/xterm description of the
//! protocol, not from the encoder) decodes the bytes written by `SixelImageHandler::draw`
//! into a raster of `Option<colour>`.  Checked on every draw:
//!   * the output is exactly one well-formed `DCS q … ST` sequence,
//!   * raster attributes declare `width x 6*floor(height/6)`,
//!   * colour registers: index < 256 (hence at most 256), components 0..=100, nothing is
//!     painted with an undefined register,
//!   * every pixel of the declared raster is painted at least once and nothing outside it,
//!   * if the (cropped) source has at most 256 distinct colours at 0..=100 resolution after
//!     compositing over the configured background and is below the subsampling threshold
//!     of `ColorPalette::from_image`, the decoded picture equals the source pixel for pixel,
//!   * drawing the same image again on the same handler emits identical bytes.
//! A second, fresh handler draws the same views in another order (different `HashMap`
//! seeds, different cache history) and is held to the same per-draw oracle.
//! Histories of the long-lived handler besides redraw / erase+redraw:
//!   * pictures that share the row-major pixel sequence of a view but not its shape (the same
//!     pixel list laid out `w' x h'` with `w'*h' == w*h`, `h' >= 6`; a fresh buffer or a window
//!     cropped out of a larger one) are drawn after the view (and, on a fresh handler, before
//!     it): each is decoded and compared with ITS OWN source,
//!   * rarely, more than 256 other distinct (tiny) pictures go through the handler between the
//!     first draw of the views and their redraw, which must still be byte-identical.
//! History of the THREAD: every case runs on a thread of its own; in 15 cases of 100 a wide
//! picture with a distinct colour per pixel (more than 256 colours: dithered) is drawn first on
//! ANOTHER handler of that thread (dropped or kept alive), then the views are drawn and held to
//! the same oracle as always.

use crate::engine::*;
use proptest::collection::vec;
use proptest::prelude::*;
use serde::{Deserialize, Serialize};
use std::collections::{BTreeMap, BTreeSet};
use surf_n_term::{Image, ImageHandler, Position, RGBA, Size, SixelImageHandler, SurfaceOwned};

pub struct C12;

/// `ColorPalette::from_image(img, 256, _)` subsamples when `h*w / (256*100) >= 2`.
const SUBSAMPLE_PIXELS: usize = 2 * 256 * 100;

// ---------------------------------------------------------------------------------------
// case

/// Crop given in permille of the room that is left (monotone: 0 = smallest crop at origin).
#[derive(Clone, Copy, Debug, PartialEq, Eq, Serialize, Deserialize)]
pub struct CropSpec {
    pub top: u16,
    pub height: u16,
    pub left: u16,
    pub width: u16,
}

#[derive(Clone, Debug, Serialize, Deserialize)]
pub enum Pattern {
    /// pixel i (row major) = palette[i mod n] — every palette colour occurs if h*w >= n
    Cycle,
    /// pixel i = palette[idx[i mod len] mod n]
    Noise { idx: Vec<u16> },
    /// pixel (y,x) = palette[(rows[y] + cols[x]) mod n]; `cols` is piecewise constant so that
    /// neighbouring columns repeat (run-length and skip compression)
    Sum { rows: Vec<u16>, cols: Vec<u16> },
    /// opaque gradient, palette unused: r = r0 + x*dx, g = g0 + y*dy (mod 256), b = b0
    Gradient { r0: u8, g0: u8, b0: u8, dx: u8, dy: u8 },
    /// arbitrary RGBA pixels, palette unused: pixel i = px[i mod len]
    Raw { px: Vec<[u8; 4]> },
}

#[derive(Clone, Debug, Serialize, Deserialize)]
pub struct Case {
    pub h: usize,
    pub w: usize,
    /// configured background of the handler (opaque)
    pub bg: Option<[u8; 3]>,
    pub palette: Vec<[u8; 4]>,
    pub pattern: Pattern,
    /// images drawn, in order, on one handler: each is the base image with 0..=2 nested crops
    pub views: Vec<Vec<CropSpec>>,
    /// history on the second handler: before each view is drawn properly it is first drawn into
    /// a writer that accepts this many bytes and then fails (a terminal that went away, a full
    /// non-blocking pipe); the failed call's outcome is ignored
    #[serde(default)]
    pub refused_first: Option<u16>,
    /// further pictures drawn on the first handler right after the views: the pixel sequence
    /// of one view in another shape
    #[serde(default)]
    pub reshapes: Vec<Reshape>,
    /// many other distinct pictures are drawn on the first handler before the views are drawn
    /// once more
    #[serde(default)]
    pub long_history: Option<LongHistory>,
    /// history of the thread: a wide many-colour picture drawn on ANOTHER handler before
    /// anything else is drawn
    #[serde(default)]
    pub prelude: Option<PreludeDraw>,
}

/// A picture of `w` (clamped to 8..=400) columns x `h` (clamped to 6..=24) rows whose pixel i is
/// 24 pseudo-random bits of (i, salt), opaque: practically one colour per pixel.  It is drawn on
/// a handler of its own (with the same background) that is dropped right after the draw unless
/// `keep`, before the views of the case are drawn on their handlers on the same thread.
#[derive(Clone, Copy, Debug, PartialEq, Eq, Serialize, Deserialize)]
pub struct PreludeDraw {
    pub w: u16,
    pub h: u8,
    pub salt: u32,
    pub keep: bool,
}

/// A picture with the row-major pixel sequence of view `of` (mod number of views) laid out in
/// another shape `w' x h'` (`w'*h' == w*h`, `h' >= 6`, chosen by `pick` among all such shapes).
#[derive(Clone, Copy, Debug, PartialEq, Eq, Serialize, Deserialize)]
pub struct Reshape {
    pub of: u8,
    pub pick: u16,
    /// None: a fresh buffer of exactly that shape; Some([top, left, bottom, right]) (each mod 4):
    /// a window cropped out of a buffer that is larger by these margins
    pub window: Option<[u8; 4]>,
}

/// `fillers` distinct pictures of 1..=3 columns x 6 rows (two or more colours each; `salt`
/// varies their colours) drawn between the first draw of the views and a late redraw.
#[derive(Clone, Copy, Debug, PartialEq, Eq, Serialize, Deserialize)]
pub struct LongHistory {
    pub fillers: u16,
    pub salt: u8,
}

// ---------------------------------------------------------------------------------------
// source model

#[derive(Clone, Debug)]
struct Pixels {
    h: usize,
    w: usize,
    px: Vec<[u8; 4]>,
}

impl Pixels {
    fn crop(&self, r0: usize, r1: usize, c0: usize, c1: usize) -> Pixels {
        let mut px = Vec::with_capacity((r1 - r0) * (c1 - c0));
        for y in r0..r1 {
            for x in c0..c1 {
                px.push(self.px[y * self.w + x]);
            }
        }
        Pixels {
            h: r1 - r0,
            w: c1 - c0,
            px,
        }
    }
}

fn materialize(c: &Case) -> Pixels {
    let (h, w) = (c.h.max(6), c.w.max(1));
    let n = c.palette.len().max(1);
    let pal = |k: usize| c.palette.get(k % n).copied().unwrap_or([0, 0, 0, 255]);
    let at = |v: &Vec<u16>, i: usize| -> usize {
        if v.is_empty() { 0 } else { v[i % v.len()] as usize }
    };
    let mut px = Vec::with_capacity(h * w);
    for i in 0..h * w {
        let (y, x) = (i / w, i % w);
        px.push(match &c.pattern {
            Pattern::Cycle => pal(i),
            Pattern::Noise { idx } => pal(at(idx, i)),
            Pattern::Sum { rows, cols } => pal(at(rows, y) + at(cols, x)),
            Pattern::Gradient { r0, g0, b0, dx, dy } => [
                ((*r0 as usize + x * *dx as usize) % 256) as u8,
                ((*g0 as usize + y * *dy as usize) % 256) as u8,
                *b0,
                255,
            ],
            Pattern::Raw { px } => {
                if px.is_empty() {
                    [0, 0, 0, 255]
                } else {
                    px[i % px.len()]
                }
            }
        });
    }
    Pixels { h, w, px }
}

/// Resolve a crop on an `h x w` image: at least 6 rows and 1 column survive.  Monotone in
/// every field: all zero = the 6x1 crop at the origin.
fn resolve(spec: CropSpec, h: usize, w: usize) -> (usize, usize, usize, usize) {
    let f = |v: u16| (v as usize).min(1000);
    let rl = 6 + f(spec.height) * (h - 6) / 1000;
    let r0 = f(spec.top) * (h - rl) / 1000;
    let cl = 1 + f(spec.width) * (w - 1) / 1000;
    let c0 = f(spec.left) * (w - cl) / 1000;
    (r0, r0 + rl, c0, c0 + cl)
}

/// All shapes `(h', w')` other than `(h, w)` with `h'*w' == h*w` and `h' >= 6`.
fn other_shapes(h: usize, w: usize) -> Vec<(usize, usize)> {
    let n = h * w;
    (6..=n).filter(|nh| n % nh == 0 && *nh != h).map(|nh| (nh, n / nh)).collect()
}

/// Library image showing exactly `px`: a buffer of that shape, or (`window` = margins
/// top, left, bottom, right, each mod 4) a window cropped out of a larger buffer whose margin
/// pixels are other pixels of the same picture.
fn build_image(px: &Pixels, window: Option<[u8; 4]>) -> Result<Image, Fail> {
    let m = window.unwrap_or([0; 4]).map(|v| (v % 4) as usize);
    let (top, left) = (m[0], m[1]);
    let (bh, bw) = (px.h + m[0] + m[2], px.w + m[1] + m[3]);
    let img = guard_val(|| {
        Image::from(SurfaceOwned::new_with(Size { height: bh, width: bw }, |pos| {
            let inside = pos.row >= top && pos.row < top + px.h && pos.col >= left && pos.col < left + px.w;
            let [r, g, b, a] = if inside {
                px.px[(pos.row - top) * px.w + (pos.col - left)]
            } else {
                px.px[((pos.row * bw + pos.col) * 7 + 3) % px.px.len()]
            };
            RGBA::new(r, g, b, a)
        }))
    })?;
    if window.is_none() {
        return Ok(img);
    }
    guard_val(|| img.crop(top..top + px.h, left..left + px.w))
}

/// The `k`-th filler picture of a long history: 6 rows x 1..=3 columns, opaque, pairwise
/// distinct for different `k` (the first pixel encodes `k`), at least two colours.
fn filler(k: usize, salt: u8) -> Pixels {
    let w = 1 + k % 3;
    let px = (0..6 * w)
        .map(|j| {
            if j == 0 {
                [(k & 0xff) as u8, (k >> 8 & 0xff) as u8, salt, 255]
            } else {
                [salt.wrapping_add((j * 41) as u8), (k * 7 & 0xff) as u8, 255 - (k & 0xff) as u8, 255]
            }
        })
        .collect();
    Pixels { h: 6, w, px }
}

/// round(c / 2.55): sixel channel value of an 8-bit channel (never a tie: c*20/51 has
/// fractional part k/51).
fn reduce(c: u8) -> u8 {
    ((c as u32 * 200 + 255) / 510) as u8
}

fn reduce_f(c: f64) -> i32 {
    (c / 2.55).round() as i32
}

fn srgb_to_linear(x: f64) -> f64 {
    if x <= 0.04045 {
        x / 12.92
    } else {
        ((x + 0.055) / 1.055).powf(2.4)
    }
}

fn linear_to_srgb(x: f64) -> f64 {
    if x <= 0.0031308 {
        x * 12.92
    } else {
        1.055 * x.powf(1.0 / 2.4) - 0.055
    }
}

/// Acceptable 0..=100 values of one channel of a partly translucent pixel over `bg`:
/// the interval spanned by gamma-space and linear-light source-over compositing, widened
/// by 1 (the statement does not fix the compositing space; channel reduction and
/// compositing do not commute).
fn translucent_range(c: u8, a: u8, bg: u8) -> (i32, i32) {
    let af = a as f64 / 255.0;
    let gamma = c as f64 * af + bg as f64 * (1.0 - af);
    let lin = 255.0
        * linear_to_srgb(
            srgb_to_linear(c as f64 / 255.0) * af + srgb_to_linear(bg as f64 / 255.0) * (1.0 - af),
        );
    let (g, l) = (reduce_f(gamma), reduce_f(lin));
    ((g.min(l) - 1).max(0), (g.max(l) + 1).min(100))
}

#[derive(Clone, Copy, Debug, PartialEq, Eq)]
enum Want {
    Exact([u8; 3]),
    Range([(i32, i32); 3]),
    /// the statement does not determine the value (no background configured)
    Any,
}

#[derive(Clone, Copy, Debug, PartialEq, Eq, PartialOrd, Ord)]
enum PixClass {
    Opaque,
    Alpha0,
    Translucent,
}

impl PixClass {
    fn of(a: u8) -> Self {
        match a {
            255 => PixClass::Opaque,
            0 => PixClass::Alpha0,
            _ => PixClass::Translucent,
        }
    }
    fn name(self) -> &'static str {
        match self {
            PixClass::Opaque => "opaque",
            PixClass::Alpha0 => "alpha0",
            PixClass::Translucent => "translucent",
        }
    }
}

/// What the statement demands of the decoded picture of one view.
struct Expect {
    w: usize,
    /// height truncated to a multiple of six
    hq: usize,
    want: Vec<Want>,
    /// upper bound of the number of distinct colours at 0..=100 resolution (exact unless
    /// partly translucent pixels or an unconfigured background are involved)
    colours: usize,
    subsampled: bool,
    classes: BTreeSet<PixClass>,
    /// exactly 256 colours, one of which is both the colour of opaque pixels and the colour
    /// of the background showing through fully transparent pixels (equal at 0..=100
    /// resolution, possibly different 8-bit values)
    bg_shared_edge: bool,
}

impl Expect {
    fn exact_regime(&self) -> bool {
        self.colours <= 256 && !self.subsampled
    }
}

fn expect(view: &Pixels, bg: Option<[u8; 3]>) -> Expect {
    let hq = view.h / 6 * 6;
    let mut want = Vec::with_capacity(hq * view.w);
    // distinct colours: (tag, value); tag 0 = known reduced colour, 1 = the unknown colour of
    // the unconfigured background, 2 = one partly translucent source value (upper bound: a
    // composite is a function of (r,g,b,a))
    let mut colours: BTreeSet<(u8, [u8; 4])> = BTreeSet::new();
    let mut classes = BTreeSet::new();
    let mut opaque_set: BTreeSet<[u8; 3]> = BTreeSet::new();
    for p in &view.px[..hq * view.w] {
        let [r, g, b, a] = *p;
        let class = PixClass::of(a);
        classes.insert(class);
        match (class, bg) {
            (PixClass::Opaque, _) => {
                let c = [reduce(r), reduce(g), reduce(b)];
                colours.insert((0, [c[0], c[1], c[2], 0]));
                opaque_set.insert(c);
                want.push(Want::Exact(c));
            }
            (PixClass::Alpha0, Some(bg)) => {
                let c = [reduce(bg[0]), reduce(bg[1]), reduce(bg[2])];
                colours.insert((0, [c[0], c[1], c[2], 0]));
                want.push(Want::Exact(c));
            }
            (PixClass::Alpha0, None) => {
                colours.insert((1, [0; 4]));
                want.push(Want::Any);
            }
            (PixClass::Translucent, Some(bg)) => {
                colours.insert((2, *p));
                want.push(Want::Range([
                    translucent_range(r, a, bg[0]),
                    translucent_range(g, a, bg[1]),
                    translucent_range(b, a, bg[2]),
                ]));
            }
            (PixClass::Translucent, None) => {
                colours.insert((2, *p));
                want.push(Want::Any);
            }
        }
    }
    let bg_shared_edge = match bg {
        Some(bg) if classes.contains(&PixClass::Alpha0) && colours.len() == 256 => {
            opaque_set.contains(&[reduce(bg[0]), reduce(bg[1]), reduce(bg[2])])
        }
        _ => false,
    };
    Expect {
        w: view.w,
        hq,
        want,
        colours: colours.len(),
        subsampled: hq * view.w >= SUBSAMPLE_PIXELS,
        classes,
        bg_shared_edge,
    }
}

/// round(k * 2.55): an 8-bit value whose sixel value is k
fn grid8(k: u8) -> u8 {
    ((k as u32 * 255 + 50) / 100) as u8
}

// ---------------------------------------------------------------------------------------
// reference sixel interpreter

#[derive(Clone, Copy, Debug, PartialEq, Eq)]
enum Ink {
    /// RGB register, components 0..=100
    Rgb([u8; 3]),
    /// HLS register (not interpreted: pixels painted with it are exempt from exactness)
    Hls,
}

#[derive(Debug, Default)]
struct EncStats {
    bands: usize,
    max_colours_in_band: usize,
    repeat_ge4: bool,
    skip_repeat: bool,
    registers: usize,
}

struct Decoded {
    ph: usize,
    pv: usize,
    raster: Vec<Option<Ink>>,
    stats: EncStats,
}

fn wf(class: &str, msg: String) -> Fail {
    Fail::new(format!("wellformed/{class}"), msg)
}

fn number(bytes: &[u8], i: &mut usize) -> Option<u32> {
    let start = *i;
    let mut v: u32 = 0;
    while let Some(b) = bytes.get(*i) {
        if b.is_ascii_digit() {
            v = v.saturating_mul(10).saturating_add((b - b'0') as u32);
            *i += 1;
        } else {
            break;
        }
    }
    (*i > start).then_some(v)
}

fn params(bytes: &[u8], i: &mut usize) -> Vec<Option<u32>> {
    let mut out = vec![number(bytes, i)];
    while bytes.get(*i) == Some(&b';') {
        *i += 1;
        out.push(number(bytes, i));
    }
    out
}

fn excerpt(bytes: &[u8], at: usize) -> String {
    let lo = at.saturating_sub(24);
    let hi = (at + 24).min(bytes.len());
    format!(
        "…{}… (offset {at} of {})",
        String::from_utf8_lossy(&bytes[lo..hi]).escape_debug(),
        bytes.len()
    )
}

fn decode(bytes: &[u8]) -> Result<Decoded, Fail> {
    if bytes.is_empty() {
        return Err(Fail::new("output/empty", "draw wrote no bytes".to_string()));
    }
    let mut i = if bytes.starts_with(b"\x1bP") {
        2
    } else if bytes[0] == 0x90 {
        1
    } else {
        return Err(wf("no-dcs-introducer", format!("output does not start with DCS: {}", excerpt(bytes, 0))));
    };
    while matches!(bytes.get(i), Some(b'0'..=b'9' | b';')) {
        i += 1;
    }
    if bytes.get(i) != Some(&b'q') {
        return Err(wf("dcs-final-not-q", format!("DCS is not a sixel sequence: {}", excerpt(bytes, i))));
    }
    i += 1;

    let mut registers: BTreeMap<u32, Ink> = BTreeMap::new();
    let mut current: u32 = 0;
    let mut size: Option<(usize, usize)> = None;
    let mut raster: Vec<Option<Ink>> = Vec::new();
    let mut data_seen = false;
    let (mut x, mut band) = (0usize, 0usize);
    let mut band_colours: BTreeSet<u32> = BTreeSet::new();
    let mut stats = EncStats::default();
    let mut terminated = false;

    // paint `count` copies of the sixel `ch` at the cursor
    let paint = |ch: u8,
                     count: usize,
                     at: usize,
                     x: &mut usize,
                     band: usize,
                     current: u32,
                     registers: &BTreeMap<u32, Ink>,
                     size: Option<(usize, usize)>,
                     raster: &mut Vec<Option<Ink>>,
                     band_colours: &mut BTreeSet<u32>|
     -> Result<(), Fail> {
        let bits = ch - 63;
        if bits == 0 {
            *x = x.saturating_add(count);
            return Ok(());
        }
        let Some((ph, pv)) = size else {
            return Err(Fail::new(
                "raster/size-not-declared",
                format!("sixel data before/without raster attributes: {}", excerpt(bytes, at)),
            ));
        };
        let Some(ink) = registers.get(&current).copied() else {
            return Err(Fail::new(
                "registers/paint-with-undefined-register",
                format!("register {current} is used for painting but was never defined: {}", excerpt(bytes, at)),
            ));
        };
        band_colours.insert(current);
        let top = band.saturating_mul(6);
        for k in 0..6 {
            if bits >> k & 1 == 0 {
                continue;
            }
            let y = top + k;
            if y >= pv || x.saturating_add(count) > ph {
                return Err(Fail::new(
                    "paint/outside-raster",
                    format!(
                        "pixel(s) painted outside the declared {ph}x{pv} raster: columns {}..{} row {y}: {}",
                        *x,
                        x.saturating_add(count),
                        excerpt(bytes, at)
                    ),
                ));
            }
            for cx in *x..*x + count {
                raster[y * ph + cx] = Some(ink);
            }
        }
        *x += count;
        Ok(())
    };

    while let Some(&b) = bytes.get(i) {
        match b {
            0x1b => {
                if bytes.get(i + 1) == Some(&b'\\') {
                    i += 2;
                    terminated = true;
                    break;
                }
                return Err(wf("esc-in-body", format!("ESC not followed by \\ inside the sixel body: {}", excerpt(bytes, i))));
            }
            0x9c => {
                i += 1;
                terminated = true;
                break;
            }
            b'"' => {
                let at = i;
                i += 1;
                let p = params(bytes, &mut i);
                if data_seen {
                    return Err(wf("raster-attributes-after-data", excerpt(bytes, at)));
                }
                if p.len() != 4 || p.iter().any(|v| v.is_none()) {
                    return Err(Fail::new(
                        "raster/size-not-declared",
                        format!("raster attributes without Pan;Pad;Ph;Pv: {}", excerpt(bytes, at)),
                    ));
                }
                let (ph, pv) = (p[2].unwrap() as usize, p[3].unwrap() as usize);
                if ph.saturating_mul(pv) > 8_000_000 {
                    return Err(Fail::new(
                        "raster/declared-size",
                        format!("absurd declared raster {ph}x{pv}: {}", excerpt(bytes, at)),
                    ));
                }
                size = Some((ph, pv));
                raster = vec![None; ph * pv];
            }
            b'#' => {
                let at = i;
                i += 1;
                let p = params(bytes, &mut i);
                if p.iter().any(|v| v.is_none()) || !(p.len() == 1 || p.len() == 5) {
                    return Err(wf("colour-introducer-parameters", excerpt(bytes, at)));
                }
                let n = p[0].unwrap();
                if p.len() == 5 {
                    let (pu, c) = (p[1].unwrap(), [p[2].unwrap(), p[3].unwrap(), p[4].unwrap()]);
                    if n >= 256 {
                        return Err(Fail::new(
                            "registers/index-out-of-range",
                            format!("colour register {n} defined (only 0..=255 exist): {}", excerpt(bytes, at)),
                        ));
                    }
                    let ink = match pu {
                        2 => {
                            if c.iter().any(|v| *v > 100) {
                                return Err(Fail::new(
                                    "registers/component-out-of-range",
                                    format!("register {n} defined with RGB {c:?} (components are 0..=100): {}", excerpt(bytes, at)),
                                ));
                            }
                            Ink::Rgb([c[0] as u8, c[1] as u8, c[2] as u8])
                        }
                        1 => {
                            if c[0] > 360 || c[1] > 100 || c[2] > 100 {
                                return Err(Fail::new(
                                    "registers/component-out-of-range",
                                    format!("register {n} defined with HLS {c:?}: {}", excerpt(bytes, at)),
                                ));
                            }
                            Ink::Hls
                        }
                        _ => {
                            return Err(Fail::new(
                                "registers/unknown-coordinate-system",
                                format!("register {n} defined with coordinate system {pu}: {}", excerpt(bytes, at)),
                            ));
                        }
                    };
                    registers.insert(n, ink);
                }
                // a definition also selects the register (VT340, xterm)
                current = n;
            }
            b'!' => {
                let at = i;
                i += 1;
                let count = number(bytes, &mut i).unwrap_or(1).max(1) as usize;
                let Some(&ch) = bytes.get(i).filter(|c| (63..=126).contains(*c)) else {
                    return Err(wf("repeat-without-sixel", excerpt(bytes, at)));
                };
                i += 1;
                data_seen = true;
                if count >= 4 {
                    if ch == b'?' {
                        stats.skip_repeat = true;
                    } else {
                        stats.repeat_ge4 = true;
                    }
                }
                paint(ch, count, at, &mut x, band, current, &registers, size, &mut raster, &mut band_colours)?;
            }
            b'$' => {
                data_seen = true;
                x = 0;
                i += 1;
            }
            b'-' => {
                data_seen = true;
                x = 0;
                if !band_colours.is_empty() {
                    stats.bands = stats.bands.max(band + 1);
                }
                stats.max_colours_in_band = stats.max_colours_in_band.max(band_colours.len());
                band_colours.clear();
                band += 1;
                i += 1;
            }
            63..=126 => {
                data_seen = true;
                paint(b, 1, i, &mut x, band, current, &registers, size, &mut raster, &mut band_colours)?;
                i += 1;
            }
            _ => {
                return Err(wf("unexpected-byte", format!("byte {b:#04x} inside the sixel body: {}", excerpt(bytes, i))));
            }
        }
    }
    if !terminated {
        return Err(wf("unterminated", format!("no ST at the end: {}", excerpt(bytes, bytes.len()))));
    }
    if i != bytes.len() {
        return Err(wf("trailing-bytes", format!("bytes after ST (more than one sequence?): {}", excerpt(bytes, i))));
    }
    if !band_colours.is_empty() {
        stats.bands = stats.bands.max(band + 1);
    }
    stats.max_colours_in_band = stats.max_colours_in_band.max(band_colours.len());
    stats.registers = registers.len();
    let Some((ph, pv)) = size else {
        return Err(Fail::new(
            "raster/size-not-declared",
            "no raster attributes in the sequence".to_string(),
        ));
    };
    Ok(Decoded {
        ph,
        pv,
        raster,
        stats,
    })
}

// ---------------------------------------------------------------------------------------
// oracle for one draw

fn check_draw(bytes: &[u8], view: &Pixels, exp: &Expect, ctx: &str) -> Result<EncStats, Fail> {
    let dec = decode(bytes).map_err(|f| Fail::new(f.sig, format!("{ctx}: {}", f.msg)))?;
    ensure!(
        dec.ph == exp.w && dec.pv == exp.hq,
        "raster/declared-size",
        "{ctx}: raster attributes declare {}x{} (width x height), image is {}x{} so {}x{} is expected",
        dec.ph,
        dec.pv,
        view.w,
        view.h,
        exp.w,
        exp.hq
    );
    if let Some(k) = dec.raster.iter().position(|p| p.is_none()) {
        let holes = dec.raster.iter().filter(|p| p.is_none()).count();
        return Err(Fail::new(
            "paint/unpainted-pixel",
            format!(
                "{ctx}: {holes} of {} pixels are never painted, first at column {} row {}",
                dec.raster.len(),
                k % exp.w,
                k / exp.w
            ),
        ));
    }
    if exp.exact_regime() {
        let mut bad: Vec<(usize, PixClass)> = Vec::new();
        for (k, (got, want)) in dec.raster.iter().zip(&exp.want).enumerate() {
            let Some(Ink::Rgb(got)) = got else { continue };
            let ok = match want {
                Want::Exact(c) => got == c,
                Want::Range(r) => (0..3).all(|i| r[i].0 <= got[i] as i32 && got[i] as i32 <= r[i].1),
                Want::Any => true,
            };
            if !ok {
                bad.push((k, PixClass::of(view.px[k][3])));
            }
        }
        if let Some(&(_, class)) = bad.first() {
            let sig = if exp.bg_shared_edge {
                "exact/256-colours-one-shared-by-opaque-and-background".to_string()
            } else {
                format!("exact/{}", class.name())
            };
            let show: Vec<String> = bad
                .iter()
                .take(4)
                .map(|&(k, _)| {
                    format!(
                        "(col {}, row {}): source rgba {:?} decoded {:?} expected {:?}",
                        k % exp.w,
                        k / exp.w,
                        view.px[k],
                        dec.raster[k],
                        exp.want[k]
                    )
                })
                .collect();
            return Err(Fail::new(
                sig,
                format!(
                    "{ctx}: {} distinct colours at 0-100 resolution (<= 256, {} pixels, not subsampled) but {} of {} decoded pixels differ from the source: {}",
                    exp.colours,
                    exp.hq * exp.w,
                    bad.len(),
                    dec.raster.len(),
                    show.join("; ")
                ),
            ));
        }
    }
    Ok(dec.stats)
}

fn describe(c: &Case, vi: usize, chain: &[(usize, usize, usize, usize)], view: &Pixels) -> String {
    let pattern = match &c.pattern {
        Pattern::Cycle => "Cycle",
        Pattern::Noise { .. } => "Noise",
        Pattern::Sum { .. } => "Sum",
        Pattern::Gradient { .. } => "Gradient",
        Pattern::Raw { .. } => "Raw",
    };
    format!(
        "image {}x{} (w x h) pattern {pattern} palette {} bg {:?}, view #{vi} crops(rows r0..r1, cols c0..c1) {:?} -> {}x{}",
        c.w,
        c.h,
        c.palette.len(),
        c.bg,
        chain,
        view.w,
        view.h
    )
}

fn draw(handler: &mut SixelImageHandler, img: &Image, ctx: &str) -> Result<Vec<u8>, Fail> {
    let mut out: Vec<u8> = Vec::new();
    let res = guard_val(|| handler.draw(&mut out, img, Position::new(0, 0)))
        .map_err(|f| Fail::new(f.sig, format!("{ctx}: {}", f.msg)))?;
    if let Err(e) = res {
        return Err(Fail::new("draw/error", format!("{ctx}: draw returned Err({e:?})")));
    }
    Ok(out)
}

/// Run `f` on a thread of its own (fresh thread-local state of the library).
fn on_fresh_thread<T: Send>(f: impl FnOnce() -> T + Send) -> Result<T, Fail> {
    std::thread::scope(|s| {
        let h = std::thread::Builder::new()
            .stack_size(32 << 20)
            .name("c12-case".into())
            .spawn_scoped(s, f)
            .map_err(|e| Fail::new("inconclusive/cannot-spawn-thread", format!("{e}")))?;
        h.join()
            .map_err(|_| Fail::new("harness/case-thread-panicked", "the oracle itself panicked".to_string()))
    })
}

fn prelude_pixels(p: PreludeDraw) -> Pixels {
    let (w, h) = ((p.w as usize).clamp(8, 400), (p.h as usize).clamp(6, 24));
    let px = (0..h * w)
        .map(|i| {
            let mut z = (i as u64)
                .wrapping_add((p.salt as u64) << 32 | p.salt as u64)
                .wrapping_add(0x9E37_79B9_7F4A_7C15);
            z = (z ^ (z >> 30)).wrapping_mul(0xBF58_476D_1CE4_E5B9);
            z = (z ^ (z >> 27)).wrapping_mul(0x94D0_49BB_1331_11EB);
            z ^= z >> 31;
            [z as u8, (z >> 8) as u8, (z >> 16) as u8, 255]
        })
        .collect();
    Pixels { h, w, px }
}

/// The case's whole history is executed on a thread of its own, so whatever the library keeps
/// per thread starts empty and the case is its complete history.
pub fn check_case(c: &Case) -> Outcome {
    let f = match on_fresh_thread(|| check_case_on_this_thread(c, true))? {
        Ok(pass) => return Ok(pass),
        Err(f) => f,
    };
    if c.prelude.is_none() || f.sig.starts_with("inconclusive/") || f.sig.starts_with("harness/") {
        return Err(f);
    }
    // classification of a failure (never turns a pass into a failure): the same case without
    // the draw on the other handler, on a fresh thread
    match on_fresh_thread(|| check_case_on_this_thread(c, false))? {
        Ok(_) => Err(Fail::new(
            format!("thread-history/{}", f.sig),
            format!(
                "{} — without the earlier draw of another picture on ANOTHER handler of the same thread the whole case satisfies every clause: the output depends on what the thread drew before",
                f.msg
            ),
        )),
        Err(g) if g.sig.starts_with("inconclusive/") => Err(g),
        Err(_) => Err(f),
    }
}

fn check_case_on_this_thread(c: &Case, with_prelude: bool) -> Outcome {
    let base = materialize(c);
    let (h, w) = (base.h, base.w);
    let image = guard_val(|| {
        Image::from(SurfaceOwned::new_with(
            Size {
                height: h,
                width: w,
            },
            |pos| {
                let [r, g, b, a] = base.px[pos.row * w + pos.col];
                RGBA::new(r, g, b, a)
            },
        ))
    })?;
    let bg = c.bg.map(|[r, g, b]| RGBA::new(r, g, b, 255));

    // views: library image + model pixels
    struct View {
        img: Image,
        px: Pixels,
        exp: Expect,
        ctx: String,
        cropped: usize,
    }
    let mut views: Vec<View> = Vec::new();
    for (vi, crops) in c.views.iter().enumerate() {
        let mut img = image.clone();
        let mut px = base.clone();
        let mut chain = Vec::new();
        for spec in crops.iter().take(2) {
            let (r0, r1, c0, c1) = resolve(*spec, px.h, px.w);
            chain.push((r0, r1, c0, c1));
            img = guard_val(|| img.crop(r0..r1, c0..c1))?;
            px = px.crop(r0, r1, c0, c1);
        }
        let ctx = describe(c, vi, &chain, &px);
        let exp = expect(&px, c.bg);
        views.push(View {
            img,
            px,
            exp,
            ctx,
            cropped: chain.len(),
        });
    }
    if views.is_empty() {
        return Ok(Pass::new(false).label("no-views"));
    }

    // history of the thread: a wide many-colour picture on another handler
    let mut prelude_note = String::new();
    let mut kept_handler = None;
    if let (true, Some(p)) = (with_prelude, c.prelude) {
        let px = prelude_pixels(p);
        let img = build_image(&px, None)?;
        let exp = expect(&px, c.bg);
        let ctx = format!(
            "prelude picture {}x{} (w x h, pixel i = hash(i, salt {}), {} colours at 0-100 resolution) drawn first on a handler of its own",
            px.w, px.h, p.salt, exp.colours
        );
        let mut h0 = SixelImageHandler::new(bg);
        let bytes = draw(&mut h0, &img, &ctx)?;
        check_draw(&bytes, &px, &exp, &ctx)?;
        prelude_note = format!(
            " [on this thread a {}x{} (w x h) picture of {} colours (salt {}) was drawn before on another handler, {}]",
            px.w,
            px.h,
            exp.colours,
            p.salt,
            if p.keep { "still alive" } else { "already dropped" }
        );
        if p.keep {
            kept_handler = Some(h0);
        }
    }
    for v in views.iter_mut() {
        v.ctx.push_str(&prelude_note);
    }

    // handler 1: every view once, then every view again
    let mut h1 = SixelImageHandler::new(bg);
    let mut first: Vec<Vec<u8>> = Vec::new();
    let mut stats: Vec<EncStats> = Vec::new();
    for v in &views {
        let bytes = draw(&mut h1, &v.img, &v.ctx)?;
        stats.push(check_draw(&bytes, &v.px, &v.exp, &v.ctx)?);
        first.push(bytes);
    }
    // same pixel sequence, other shape: different pictures (another declared size, another
    // arrangement) although every pixel value, their order and their number agree; drawn on
    // the handler that has already drawn the view they derive from
    struct Shaped {
        img: Image,
        px: Pixels,
        exp: Expect,
        ctx: String,
        of: usize,
        window: bool,
    }
    let mut shaped: Vec<Shaped> = Vec::new();
    let mut no_other_shape = false;
    for r in c.reshapes.iter().take(3) {
        let of = r.of as usize % views.len();
        let src = &views[of];
        let alts = other_shapes(src.px.h, src.px.w);
        if alts.is_empty() {
            no_other_shape = true;
            continue;
        }
        let (nh, nw) = alts[r.pick as usize % alts.len()];
        let px = Pixels {
            h: nh,
            w: nw,
            px: src.px.px.clone(),
        };
        let img = build_image(&px, r.window)?;
        let ctx = format!(
            "{} [its {} pixels, same row-major order, laid out {}x{} (w x h){}]",
            src.ctx,
            px.px.len(),
            nw,
            nh,
            match r.window {
                Some(m) => format!(", a window cropped out of a buffer with margins t/l/b/r {:?}", m.map(|v| v % 4)),
                None => String::new(),
            }
        );
        let exp = expect(&px, c.bg);
        shaped.push(Shaped {
            img,
            px,
            exp,
            ctx,
            of,
            window: r.window.is_some(),
        });
    }
    for s in &shaped {
        let ctx = format!("{} [drawn after that view on the same handler]", s.ctx);
        let bytes = draw(&mut h1, &s.img, &ctx)?;
        stats.push(check_draw(&bytes, &s.px, &s.exp, &ctx)?);
    }
    if !shaped.is_empty() {
        // the other order on a fresh handler: reshaped pictures first, then the views they
        // derive from
        let mut h4 = SixelImageHandler::new(bg);
        for s in shaped.iter().rev() {
            let ctx = format!("{} [fresh handler, drawn before that view]", s.ctx);
            let bytes = draw(&mut h4, &s.img, &ctx)?;
            check_draw(&bytes, &s.px, &s.exp, &ctx)?;
        }
        let sources: BTreeSet<usize> = shaped.iter().map(|s| s.of).collect();
        for of in sources {
            let v = &views[of];
            let ctx = format!("{} [drawn after picture(s) with the same pixel sequence in another shape]", v.ctx);
            let bytes = draw(&mut h4, &v.img, &ctx)?;
            check_draw(&bytes, &v.px, &v.exp, &ctx)?;
        }
    }
    for (v, bytes) in views.iter().zip(&first) {
        let again = draw(&mut h1, &v.img, &v.ctx)?;
        if &again != bytes {
            let at = again.iter().zip(bytes).position(|(a, b)| a != b).unwrap_or(again.len().min(bytes.len()));
            return Err(Fail::new(
                "repeat/bytes-differ",
                format!(
                    "{}: second draw on the same handler differs from the first ({} vs {} bytes), first difference {}",
                    v.ctx,
                    again.len(),
                    bytes.len(),
                    excerpt(&again, at)
                ),
            ));
        }
    }
    // erase between draws (what the renderer does when an image moves): the image drawn again
    // on the same handler still emits the bytes of its first draw
    for (v, bytes) in views.iter().zip(&first) {
        let mut sink: Vec<u8> = Vec::new();
        guard_val(|| h1.erase(&mut sink, &v.img, Some(Position::new(0, 0))))?
            .map_err(|e| Fail::new("erase/error", format!("{}: erase returned Err({e:?})", v.ctx)))?;
        let again = draw(&mut h1, &v.img, &v.ctx)?;
        if &again != bytes {
            let at = again.iter().zip(bytes).position(|(a, b)| a != b).unwrap_or(again.len().min(bytes.len()));
            return Err(Fail::new(
                "repeat/bytes-differ-after-erase",
                format!(
                    "{}: drawn, erased and drawn again on the same handler: the last draw differs from the first ({} vs {} bytes), first difference {}",
                    v.ctx,
                    again.len(),
                    bytes.len(),
                    excerpt(&again, at)
                ),
            ));
        }
    }
    // long history: many other distinct pictures go through the handler, then every view is
    // drawn once more and still emits the bytes of its first draw
    if let Some(lh) = c.long_history {
        let n = (lh.fillers as usize).min(2000);
        for k in 0..n {
            let px = filler(k, lh.salt);
            let img = build_image(&px, None)?;
            let ctx = format!("filler picture #{k} of {n} ({}x6, salt {}) of a long history on the first handler", px.w, lh.salt);
            let exp = expect(&px, c.bg);
            let bytes = draw(&mut h1, &img, &ctx)?;
            check_draw(&bytes, &px, &exp, &ctx)?;
        }
        for (v, bytes) in views.iter().zip(&first) {
            let again = draw(&mut h1, &v.img, &v.ctx)?;
            if &again != bytes {
                let at = again.iter().zip(bytes).position(|(a, b)| a != b).unwrap_or(again.len().min(bytes.len()));
                return Err(Fail::new(
                    "repeat/bytes-differ-after-long-history",
                    format!(
                        "{}: drawn again on the same handler after {n} other distinct pictures (1..3 x 6 pixels each) were drawn on it: the bytes differ from the first draw ({} vs {} bytes), first difference {}",
                        v.ctx,
                        again.len(),
                        bytes.len(),
                        excerpt(&again, at)
                    ),
                ));
            }
        }
    }
    // short-lived image objects on a long-lived handler (an animation: a fresh Image per frame,
    // dropped after its draw): same size, different content, very likely the same allocation
    {
        let v = &views[0];
        if v.px.h >= 6 && v.px.w >= 1 {
            let mut h3 = SixelImageHandler::new(bg);
            for step in 0..3usize {
                // frame `step`: the view's pixels rotated by `step` rows
                let mut px = v.px.clone();
                let w = px.w;
                px.px.rotate_left((step * w) % (px.h * w).max(1));
                let frame = guard_val(|| {
                    Image::from(SurfaceOwned::new_with(Size { height: px.h, width: px.w }, |pos| {
                        let [r, g, b, a] = px.px[pos.row * w + pos.col];
                        RGBA::new(r, g, b, a)
                    }))
                })?;
                let ctx = format!("{} [animation frame {step}: fresh Image object of the same size, dropped after the draw]", v.ctx);
                let exp = expect(&px, c.bg);
                let bytes = draw(&mut h3, &frame, &ctx)?;
                check_draw(&bytes, &px, &exp, &ctx)?;
                drop(frame);
            }
        }
    }
    // handler 2 (fresh): same views in reverse order, same per-draw oracle
    let mut h2 = SixelImageHandler::new(bg);
    for v in views.iter().rev() {
        let ctx = format!("{} [fresh handler, reverse order]", v.ctx);
        if let Some(room) = c.refused_first {
            let mut w = crate::c05::RefusingWriter { room: room as usize };
            let _ = guard_val(|| h2.draw(&mut w, &v.img, Position::new(0, 0)))
                .map_err(|f| Fail::new(f.sig, format!("{ctx} [into a writer that refuses after {room} bytes]: {}", f.msg)))?;
        }
        let ctx = if c.refused_first.is_some() { format!("{ctx} [after a draw of the same view into a refusing writer]") } else { ctx };
        let bytes = draw(&mut h2, &v.img, &ctx)?;
        check_draw(&bytes, &v.px, &v.exp, &ctx)?;
    }

    drop(kept_handler);

    // classification
    let nontrivial = stats
        .iter()
        .any(|s| s.bands >= 2 && s.max_colours_in_band >= 2 && s.repeat_ge4);
    let v0 = &views[0];
    let mut pass = Pass::new(nontrivial);
    pass = pass.label(match v0.exp.colours {
        0..=8 => "colours:<=8",
        9..=200 => "colours:9..200",
        201..=255 => "colours:201..255",
        256 => "colours:=256",
        257..=300 => "colours:257..300",
        _ => "colours:>300",
    });
    let any = |f: &dyn Fn(&View) -> bool| views.iter().any(|v| f(v));
    pass = pass
        .label_if(any(&|v| v.exp.exact_regime()), "regime:exact")
        .label_if(any(&|v| v.exp.colours > 256 && !v.exp.subsampled), "regime:structural(>256-colours)")
        .label_if(any(&|v| v.exp.subsampled), "regime:structural(subsampled)")
        .label_if(any(&|v| v.exp.subsampled && v.exp.colours <= 256), "subsampled-with<=256-colours")
        .label_if(any(&|v| v.exp.exact_regime() && v.exp.classes.contains(&PixClass::Alpha0)), "exact+alpha0")
        .label_if(any(&|v| v.exp.exact_regime() && v.exp.classes.contains(&PixClass::Translucent)), "exact+translucent")
        .label_if(any(&|v| v.exp.bg_shared_edge), "edge:256-colours-one-shared-with-bg")
        .label_if(any(&|v| v.exp.exact_regime() && v.exp.hq * v.exp.w >= 20_000), "exact+large(>=20000px)")
        .label_if(c.bg.is_some(), "bg:some")
        .label_if(c.bg.is_none(), "bg:none")
        .label_if(any(&|v| v.cropped == 1), "view:crop")
        .label_if(any(&|v| v.cropped == 2), "view:nested-crop")
        .label_if(views.len() >= 2, "views>=2")
        .label_if(!shaped.is_empty(), "reshape:same-pixels-other-shape")
        .label_if(shaped.iter().any(|s| s.window), "reshape:as-cropped-window")
        .label_if(shaped.iter().any(|s| s.exp.exact_regime()), "reshape:exact")
        .label_if(no_other_shape, "reshape:no-other-shape")
        .label_if(c.long_history.is_some_and(|lh| lh.fillers > 256), "history:long(>256-other-pictures-then-redraw)")
        .label_if(with_prelude && c.prelude.is_some(), "thread-history:many-colour-picture-on-another-handler-first")
        .label_if(with_prelude && c.prelude.is_some() && views[0].exp.exact_regime(), "thread-history+first-view-exact")
        .label_if(with_prelude && c.prelude.is_some() && views[0].exp.exact_regime() && views[0].exp.colours >= 100, "thread-history+first-view-exact>=100-colours")
        .label_if(any(&|v| v.px.h % 6 != 0), "h%6!=0")
        .label_if(any(&|v| v.px.w < 4), "w<4")
        .label_if(stats.iter().any(|s| s.bands >= 2), "enc:bands>=2")
        .label_if(stats.iter().any(|s| s.max_colours_in_band >= 2), "enc:multi-colour-band")
        .label_if(stats.iter().any(|s| s.max_colours_in_band >= 32), "enc:>=32-colours-in-band")
        .label_if(stats.iter().any(|s| s.repeat_ge4), "enc:repeat>=4")
        .label_if(stats.iter().any(|s| s.skip_repeat), "enc:skip-repeat")
        .label_if(stats.iter().any(|s| s.registers == 256), "enc:256-registers")
        .label(match &c.pattern {
            Pattern::Cycle => "pattern:cycle",
            Pattern::Noise { .. } => "pattern:noise",
            Pattern::Sum { .. } => "pattern:sum",
            Pattern::Gradient { .. } => "pattern:gradient",
            Pattern::Raw { .. } => "pattern:raw",
        });
    Ok(pass)
}

// ---------------------------------------------------------------------------------------
// generator

fn dims(tier: Tier, min: usize) -> BoxedStrategy<(usize, usize)> {
    let lo = min.max(6);
    let h_small = prop_oneof![
        2 => lo..=lo.max(13),
        4 => lo.max(12)..=40usize,
        1 => proptest::sample::select(vec![6usize, 7, 11, 12, 13, 17, 18, 19, 24, 35, 36, 40])
            .prop_map(move |v| v.max(lo)),
    ];
    let w_small = prop_oneof![
        1 => min.max(1)..=min.max(5),
        6 => min.max(6)..=40usize,
    ];
    let small = (h_small, w_small);
    match tier {
        Tier::Quick => small.boxed(),
        Tier::Thorough => prop_oneof![
            40 => small,
            6 => (41usize..=120, 41usize..=120),
            // around the subsampling threshold of 51 200 pixels
            1 => (170usize..=262, 196usize..=300),
        ]
        .boxed(),
    }
}

/// 8-bit representative of a 0..=100 value; `j` picks a neighbour with the same reduction
fn rep8(k: u8, j: u8) -> u8 {
    let v = grid8(k);
    match j % 3 {
        1 if v < 255 && reduce(v + 1) == k => v + 1,
        2 if v > 0 && reduce(v - 1) == k => v - 1,
        _ => v,
    }
}

fn code_rgb(code: u32, j: u8) -> [u8; 3] {
    let code = code % 1_030_301;
    [
        rep8((code % 101) as u8, j),
        rep8((code / 101 % 101) as u8, j / 3),
        rep8((code / 10_201 % 101) as u8, j / 9),
    ]
}

/// palette colours (rgb)
fn palette_rgb() -> BoxedStrategy<Vec<[u8; 3]>> {
    let arbitrary = |n: std::ops::RangeInclusive<usize>| vec(any::<[u8; 3]>(), n);
    // n colours that are pairwise distinct at 0..=100 resolution (codes start + k*stride in
    // base 101; the strides are not multiples of 101)
    let grid_seq = |n: std::ops::RangeInclusive<usize>| {
        (
            n,
            0u32..1_030_301,
            proptest::sample::select(vec![1u32, 2, 7, 102, 5_003, 10_202, 333_667]),
        )
            .prop_flat_map(|(n, start, stride)| {
                // variable length vectors are indexed cyclically: they shrink by removal
                vec(0u8..27, 1..=n).prop_map(move |jit| {
                    (0..n)
                        .map(|k| code_rgb(start.wrapping_add(k as u32 * stride), jit[k % jit.len()]))
                        .collect::<Vec<_>>()
                })
            })
    };
    // few sixel colours, each in several 8-bit variants (more 8-bit colours than sixel colours)
    let collide = (vec(0u32..1_030_301, 1..=100usize), vec(0u8..27, 1..=300usize)).prop_map(|(codes, jit)| {
        let mut out = Vec::new();
        for (k, code) in codes.iter().enumerate() {
            for v in 0..3 {
                out.push(code_rgb(*code, jit[(k * 3 + v) % jit.len()]));
            }
        }
        out
    });
    prop_oneof![
        4 => arbitrary(1..=8),
        3 => arbitrary(9..=64),
        2 => arbitrary(65..=256),
        1 => arbitrary(257..=400),
        2 => grid_seq(200..=255),
        2 => grid_seq(256..=256),
        1 => grid_seq(257..=257),
        1 => grid_seq(258..=320),
        2 => collide,
    ]
    .boxed()
}

fn palette_general() -> BoxedStrategy<Vec<[u8; 4]>> {
    (palette_rgb(), 0u8..10).prop_flat_map(|(rgb, mode)| {
        let n = rgb.len();
        vec(any::<u8>(), 1..=n).prop_map(move |ts| {
            rgb.iter()
                .enumerate()
                .map(|(k, c)| {
                    let t = &ts[k % ts.len()];
                    let a = match mode {
                        // opaque
                        0..=5 => 255,
                        // fully transparent or opaque
                        6 | 7 => {
                            if *t < 64 { 0 } else { 255 }
                        }
                        // also partly translucent
                        _ => match t % 4 {
                            0 => 0,
                            1 => (*t).clamp(1, 254),
                            _ => 255,
                        },
                    };
                    [c[0], c[1], c[2], a]
                })
                .collect::<Vec<_>>()
        })
    })
    .boxed()
}

fn pattern(h: usize, w: usize, palette_patterns_only: bool) -> BoxedStrategy<Pattern> {
    let len = (h * w).min(2048);
    // all vectors are indexed cyclically by `materialize`, so any length >= 1 is valid and
    // proptest can shrink them by removing elements
    let noise = vec(any::<u16>(), 1..=len).prop_map(|idx| Pattern::Noise { idx });
    let sum = (vec(any::<u16>(), 1..=h), vec((any::<u16>(), 1usize..=12), 1..=w)).prop_map(move |(rows, runs)| {
        let mut cols = Vec::with_capacity(w);
        'outer: for (v, n) in runs {
            for _ in 0..n {
                if cols.len() == w {
                    break 'outer;
                }
                cols.push(v);
            }
        }
        Pattern::Sum { rows, cols }
    });
    if palette_patterns_only {
        return prop_oneof![2 => Just(Pattern::Cycle), 2 => noise, 1 => sum].boxed();
    }
    let gradient = (any::<u8>(), any::<u8>(), any::<u8>(), 0u8..=8, 0u8..=8)
        .prop_map(|(r0, g0, b0, dx, dy)| Pattern::Gradient { r0, g0, b0, dx, dy });
    let rgba = (
        any::<[u8; 3]>(),
        prop_oneof![8 => Just(255u8), 1 => Just(0u8), 1 => any::<u8>()],
    )
        .prop_map(|(c, a)| [c[0], c[1], c[2], a]);
    let raw = vec(rgba, 1..=len).prop_map(|px| Pattern::Raw { px });
    prop_oneof![
        2 => Just(Pattern::Cycle),
        2 => noise,
        5 => sum,
        1 => gradient,
        2 => raw,
    ]
    .boxed()
}

fn views() -> BoxedStrategy<Vec<Vec<CropSpec>>> {
    let len = || prop_oneof![1 => 0u16..=1000, 2 => 500u16..=1000];
    let crop = (0u16..=1000, len(), 0u16..=1000, len()).prop_map(|(top, height, left, width)| CropSpec {
        top,
        height,
        left,
        width,
    });
    let view = prop_oneof![
        5 => Just(Vec::new()),
        4 => vec(crop.clone(), 1..=1),
        2 => vec(crop, 2..=2),
    ];
    prop_oneof![
        3 => vec(view.clone(), 1..=1),
        2 => vec(view.clone(), 2..=2),
        1 => vec(view, 3..=3),
    ]
    .boxed()
}

fn bg() -> BoxedStrategy<Option<[u8; 3]>> {
    prop_oneof![
        2 => Just(None),
        3 => any::<[u8; 3]>().prop_map(Some),
        1 => proptest::sample::select(vec![[0u8, 0, 0], [255, 255, 255], [3, 3, 3], [128, 128, 128]])
            .prop_map(Some),
    ]
    .boxed()
}

/// Histories of the long-lived handler beyond redraw / erase+redraw: pictures with a view's
/// pixel sequence in another shape (4 cases of 10), rarely a long run of other pictures
/// before a redraw (3 cases of 100).
fn prelude_draw() -> BoxedStrategy<Option<PreludeDraw>> {
    proptest::option::weighted(
        0.15,
        (prop_oneof![4 => 44u16..=160, 1 => 8u16..=44], 6u8..=12, any::<u32>(), any::<bool>())
            .prop_map(|(w, h, salt, keep)| PreludeDraw { w, h, salt, keep }),
    )
    .boxed()
}

fn extras() -> BoxedStrategy<(Vec<Reshape>, Option<LongHistory>)> {
    let reshape = (
        0u8..3,
        any::<u16>(),
        proptest::option::weighted(0.4, proptest::array::uniform4(0u8..4)),
    )
        .prop_map(|(of, pick, window)| Reshape { of, pick, window });
    let reshapes = prop_oneof![
        6 => Just(Vec::new()),
        3 => vec(reshape.clone(), 1..=1),
        1 => vec(reshape, 2..=2),
    ];
    let long = proptest::option::weighted(
        0.03,
        (260u16..=400, any::<u8>()).prop_map(|(fillers, salt)| LongHistory { fillers, salt }),
    );
    (reshapes, long).boxed()
}

fn case_strategy(tier: Tier) -> BoxedStrategy<Case> {
    let general = (bg(), palette_general())
        .prop_flat_map(move |(bg, palette)| {
            // an image of at least 18x18 can show every colour of a palette of up to 324
            let min = if palette.len() > 36 { 18 } else { 1 };
            (dims(tier, min), Just(bg), Just(palette))
        })
        .prop_flat_map(|((h, w), bg, palette)| {
            (pattern(h, w, false), views(), proptest::option::weighted(0.25, prop_oneof![Just(0u16), 1u16..40, 40u16..3000]), extras(), prelude_draw()).prop_map(move |(pattern, views, refused_first, (reshapes, long_history), prelude)| Case {
                h,
                w,
                bg,
                palette: palette.clone(),
                pattern,
                views,
                refused_first,
                reshapes,
                long_history,
                prelude,
            })
        });
    // 256 opaque colours (distinct at 0-100 resolution) one of which is the reduced
    // background colour + fully transparent pixels showing the background: still 256
    // colours at sixel resolution, although the 8-bit values may be 257
    let edge = (
        dims(tier, 18),
        any::<[u8; 3]>(),
        proptest::sample::select(vec![1u32, 2, 7, 102, 5_003, 10_202, 333_667]),
        any::<[u8; 3]>(),
    )
        .prop_flat_map(|((h, w), bg, stride, hidden)| {
            let start = reduce(bg[0]) as u32 + 101 * reduce(bg[1]) as u32 + 10_201 * reduce(bg[2]) as u32;
            let mut palette: Vec<[u8; 4]> = (0..256u32)
                .map(|k| {
                    let c = code_rgb(start + k * stride, 0);
                    [c[0], c[1], c[2], 255]
                })
                .collect();
            palette.push([hidden[0], hidden[1], hidden[2], 0]);
            (pattern(h, w, true), views(), extras(), prelude_draw()).prop_map(move |(pattern, views, (reshapes, long_history), prelude)| Case {
                h,
                w,
                bg: Some(bg),
                palette: palette.clone(),
                pattern,
                views,
                refused_first: None,
                reshapes,
                long_history,
                prelude,
            })
        });
    prop_oneof![12 => general, 1 => edge].boxed()
}

impl Property for C12 {
    type Case = Case;

    fn fuzz(&self) -> Option<FuzzSpec> {
        // entropy-driven target: libFuzzer's bytes replace the generator's random numbers
        Some(FuzzSpec { target: "gen", jobs: 8, runs: 10_000, max_len: 8192, seeds: 64 })
    }

    fn entropy_tail(&self) -> usize {
        1 << 17
    }

    fn id(&self) -> &'static str {
        "C12"
    }

    fn strategy(&self, tier: Tier) -> BoxedStrategy<Case> {
        case_strategy(tier)
    }

    fn check(&self, case: &Case) -> Outcome {
        check_case(case)
    }

    fn cases(&self, tier: Tier) -> u32 {
        tier.pick(4_000, 20_000)
    }

    fn max_shrink_iters(&self) -> u32 {
        12_000
    }

    fn rule(&self) -> String {
        "generated: base image height 6..=40 x width 1..=40 (thorough: also up to 120x120 and 170..262 x 196..300 around the 51 200-pixel subsampling threshold); \
         pixels = palette (1..400 colours: arbitrary / exactly n colours distinct at 0-100 resolution for n in 200..320 incl. 255,256,257 / few sixel colours in several 8-bit variants; \
         alpha all-opaque, {0,255}, or partly translucent) laid out as cycle, periodic noise, row+column sum with column runs (repeat and skip compression), or palette-free gradient / periodic raw RGBA \
         (index vectors have any length >= 1 and are read cyclically, so they shrink by removal); \
         special class: 256 colours one of which is both an opaque colour and the background showing through fully transparent pixels; bg in {None, colour}; \
         1..=3 views (full image, crop, crop of a crop; >= 6 rows, >= 1 column) drawn in order on one handler, all drawn a second time (bytes must be identical), \
         in 4 cases of 10 one or two further pictures are drawn on that handler between the first and the second draws of the views: the row-major pixel sequence of one of the views laid out in another shape (w' x h' with w'*h' = w*h, h' >= 6, any such shape; a fresh buffer, or in 4 of 10 a window cropped out of a buffer larger by 0-3 pixels per side), each decoded and compared with its own source, and on a further fresh handler the same pictures are drawn before the views they derive from; \
         all views erased and drawn once more (bytes must equal the first draw), in 3 cases of 100 then 260-400 pairwise distinct filler pictures (1..3 columns x 6 rows, >= 2 colours, each held to the per-draw oracle) are drawn on that handler and every view is drawn yet again (bytes must still equal the first draw), three short-lived images of the first view's size (its pixels rotated by 0-2 rows, each a fresh allocation dropped after its draw) drawn on a third handler, and all views drawn in reverse order on a fresh handler (in one case of four each of those draws is preceded by a draw of the same view into a writer that fails after 0-2999 bytes). Every case is executed on a thread of its own; in 15 cases of 100 the first thing drawn on that thread is a prelude picture of 44-160 (rarely 8-44) columns x 6-12 rows with a pseudo-random colour per pixel (more than 256 colours, hence dithered; held to the structural per-draw oracle) on ANOTHER handler (dropped after the draw or kept alive until the end), and only then the views are drawn as described. Every draw is decoded by an independent sixel interpreter and checked for well-formedness, declared size, \
         registers, full coverage, nothing outside, and pixel-exactness when colours fit. \
         non-trivial = some draw has >= 2 bands and >= 2 colours painted in one band and a repeat introducer with count >= 4 on a non-empty sixel"
            .into()
    }

    fn assumptions(&self) -> Vec<String> {
        vec![
            "sixel semantics (VT340/xterm): `#n;2;r;g;b` defines and selects register n, `#n` selects, `!n c` repeats c n times (0 or missing = 1), `$` returns to column 0, `-` moves to the next band, c in 63..=126 paints rows where bit (c-63)>>k is set; a pixel keeps the colour its register had when it was painted; raster attributes must precede data; any other byte inside the DCS body counts as malformed".into(),
            "expected channel value of an opaque pixel is round(c/2.55) (no ties exist); a fully transparent pixel over a configured background is the background's round(c/2.55)".into(),
            "partly translucent pixels (0 < alpha < 255): the statement does not fix the compositing space, so each channel is accepted if it lies in the interval spanned by gamma-space and linear-light source-over compositing of the 8-bit source over the background, reduced with round(c/2.55) and widened by +-1 (reduction and compositing do not commute)".into(),
            "without a configured background (bg = None) the value of non-opaque pixels is not checked; such pixels count as one extra colour (alpha 0) or one colour per distinct RGBA value (partly translucent) when deciding whether the colours fit".into(),
            "the number of distinct colours of an image with partly translucent pixels is bounded from above by counting each distinct translucent RGBA source value as one colour; exactness is only demanded when this bound is <= 256".into(),
            "the subsampling threshold is taken from ColorPalette::from_image: height*width/(256*100) >= 2 on the height-truncated image, i.e. >= 51 200 pixels; at or above it only the structural checks apply".into(),
            "with more than 256 colours only structure (well-formedness, size, registers, coverage) is checked; closeness of the dithered picture is not part of the statement".into(),
            "the configured background is opaque in all generated cases".into(),
            "two pictures with the same row-major pixel sequence but different width/height are different images: each draw is held to the oracle of its own source (declared size = its own width x truncated height, decoded picture = its own arrangement), whatever was drawn on the handler before".into(),
            "the statement quantifies over images and draws on one handler, not over what the calling thread did before: a draw must satisfy every clause whatever other handlers of the same thread have drawn earlier. Every case runs on a fresh thread, so the optional prelude draw is the complete earlier history; when a case with a prelude fails and the same case without the prelude passes on a fresh thread, the signature is prefixed with thread-history/ (classification only, evaluated after a clause has failed)".into(),
            "'drawing the same image again emits identical bytes' is taken over any history of the handler ('repeated draws on one handler'), in particular after an arbitrary number of other pictures were drawn in between; no bound on that number is stated, 260-400 is what is explored".into(),
        ]
    }
}
