//! C19 — serialised forms round-trip, and no JSON document can crash deserialisation.
//!
//! Part (a): faces, sizes, key chords and images survive `to_value`/`from_value` (and
//! Display/FromStr where the type has one); hand-written image JSON in the 1/3/4-channel
//! layouts deserialises to exactly the pixels the layout denotes.
//! Part (b): grammar-based, arbitrary and byte-mutated JSON documents are fed to the
//! image / glyph / text / view deserialisers inside a worker process (address space capped):
//! the result is Ok or Err, never a panic or a dead worker; every value that deserialises
//! is laid out under three constraints with both glyph settings and rendered into a
//! window of a sentinel canvas.

use crate::engine::*;
use crate::mockterm::RecTerm;
use proptest::collection::vec as pvec;
use proptest::prelude::*;
use proptest::sample::{Index, select};
use serde::de::DeserializeSeed;
use serde::{Deserialize, Serialize};
use serde_json::Value;
use std::sync::Arc;
use surf_n_term::view::{
    BoxConstraint, Text, Tree, View, ViewContext, ViewDeserializer, ViewLayout, ViewLayoutStore,
};
use surf_n_term::{
    Cell, Face, FaceAttrs, Glyph, Image, KeyChord, Position, RGBA, Shape, Size, Surface,
    SurfaceMut, SurfaceOwned, TerminalSize,
};

pub struct C19;

// ---------------------------------------------------------------------------------------
// own JSON document type: ordered, repeated keys allowed, raw number literals

#[derive(Clone, Debug, PartialEq, Serialize, Deserialize)]
#[serde(into = "String", try_from = "String")]
pub enum J {
    Null,
    Bool(bool),
    /// raw literal made of `-+0-9.eE` (may be an invalid JSON number on purpose)
    Num(String),
    Str(String),
    Arr(Vec<J>),
    Obj(Vec<(String, J)>),
}

impl From<J> for String {
    fn from(j: J) -> String {
        j.render()
    }
}

impl TryFrom<String> for J {
    type Error = String;
    fn try_from(s: String) -> Result<J, String> {
        J::parse(&s)
    }
}

fn write_json_str(s: &str, out: &mut String) {
    out.push('"');
    for c in s.chars() {
        match c {
            '"' => out.push_str("\\\""),
            '\\' => out.push_str("\\\\"),
            c if (c as u32) < 0x20 => out.push_str(&format!("\\u{:04x}", c as u32)),
            c => out.push(c),
        }
    }
    out.push('"');
}

impl J {
    pub fn num(n: u64) -> J {
        J::Num(n.to_string())
    }
    pub fn s(s: &str) -> J {
        J::Str(s.to_string())
    }
    pub fn raw(s: &str) -> J {
        J::Num(s.to_string())
    }
    pub fn obj(entries: &[(&str, J)]) -> J {
        J::Obj(entries.iter().map(|(k, v)| (k.to_string(), v.clone())).collect())
    }

    pub fn render(&self) -> String {
        let mut out = String::new();
        self.write(&mut out);
        out
    }

    fn write(&self, out: &mut String) {
        match self {
            J::Null => out.push_str("null"),
            J::Bool(b) => out.push_str(if *b { "true" } else { "false" }),
            J::Num(s) => out.push_str(s),
            J::Str(s) => write_json_str(s, out),
            J::Arr(items) => {
                out.push('[');
                for (i, item) in items.iter().enumerate() {
                    if i > 0 {
                        out.push(',');
                    }
                    item.write(out);
                }
                out.push(']');
            }
            J::Obj(entries) => {
                out.push('{');
                for (i, (k, v)) in entries.iter().enumerate() {
                    if i > 0 {
                        out.push(',');
                    }
                    write_json_str(k, out);
                    out.push(':');
                    v.write(out);
                }
                out.push('}');
            }
        }
    }

    /// nesting depth of arrays/objects
    pub fn depth(&self) -> usize {
        match self {
            J::Arr(items) => 1 + items.iter().map(J::depth).max().unwrap_or(0),
            J::Obj(entries) => 1 + entries.iter().map(|(_, v)| v.depth()).max().unwrap_or(0),
            _ => 0,
        }
    }

    /// the `serde_json::Value` this document denotes (repeated key: last wins, as in
    /// serde_json); None when a number literal is not a JSON number
    pub fn to_value(&self) -> Option<Value> {
        Some(match self {
            J::Null => Value::Null,
            J::Bool(b) => Value::Bool(*b),
            J::Num(raw) => match serde_json::from_str::<Value>(raw) {
                Ok(v) if v.is_number() => v,
                _ => return None,
            },
            J::Str(s) => Value::String(s.clone()),
            J::Arr(items) => {
                let mut out = Vec::with_capacity(items.len());
                for item in items {
                    out.push(item.to_value()?);
                }
                Value::Array(out)
            }
            J::Obj(entries) => {
                let mut map = serde_json::Map::new();
                for (k, v) in entries {
                    map.insert(k.clone(), v.to_value()?);
                }
                Value::Object(map)
            }
        })
    }

    pub fn parse(text: &str) -> Result<J, String> {
        let mut p = Parser { b: text.as_bytes(), i: 0, text };
        p.ws();
        let j = p.value()?;
        p.ws();
        if p.i != p.b.len() {
            return Err(format!("trailing characters at {}", p.i));
        }
        Ok(j)
    }
}

struct Parser<'a> {
    b: &'a [u8],
    i: usize,
    text: &'a str,
}

impl Parser<'_> {
    fn ws(&mut self) {
        while self.i < self.b.len() && matches!(self.b[self.i], b' ' | b'\n' | b'\r' | b'\t') {
            self.i += 1;
        }
    }
    fn eat(&mut self, lit: &str) -> bool {
        if self.b[self.i..].starts_with(lit.as_bytes()) {
            self.i += lit.len();
            true
        } else {
            false
        }
    }
    fn value(&mut self) -> Result<J, String> {
        self.ws();
        let Some(&c) = self.b.get(self.i) else {
            return Err("unexpected end".into());
        };
        match c {
            b'n' if self.eat("null") => Ok(J::Null),
            b't' if self.eat("true") => Ok(J::Bool(true)),
            b'f' if self.eat("false") => Ok(J::Bool(false)),
            b'"' => Ok(J::Str(self.string()?)),
            b'[' => {
                self.i += 1;
                let mut items = Vec::new();
                self.ws();
                if self.b.get(self.i) == Some(&b']') {
                    self.i += 1;
                    return Ok(J::Arr(items));
                }
                loop {
                    items.push(self.value()?);
                    self.ws();
                    match self.b.get(self.i) {
                        Some(b',') => self.i += 1,
                        Some(b']') => {
                            self.i += 1;
                            return Ok(J::Arr(items));
                        }
                        _ => return Err(format!("expected , or ] at {}", self.i)),
                    }
                }
            }
            b'{' => {
                self.i += 1;
                let mut entries = Vec::new();
                self.ws();
                if self.b.get(self.i) == Some(&b'}') {
                    self.i += 1;
                    return Ok(J::Obj(entries));
                }
                loop {
                    self.ws();
                    if self.b.get(self.i) != Some(&b'"') {
                        return Err(format!("expected key at {}", self.i));
                    }
                    let k = self.string()?;
                    self.ws();
                    if self.b.get(self.i) != Some(&b':') {
                        return Err(format!("expected : at {}", self.i));
                    }
                    self.i += 1;
                    let v = self.value()?;
                    entries.push((k, v));
                    self.ws();
                    match self.b.get(self.i) {
                        Some(b',') => self.i += 1,
                        Some(b'}') => {
                            self.i += 1;
                            return Ok(J::Obj(entries));
                        }
                        _ => return Err(format!("expected , or }} at {}", self.i)),
                    }
                }
            }
            b'-' | b'+' | b'.' | b'0'..=b'9' => {
                let start = self.i;
                while self.i < self.b.len()
                    && matches!(self.b[self.i], b'-' | b'+' | b'.' | b'e' | b'E' | b'0'..=b'9')
                {
                    self.i += 1;
                }
                Ok(J::Num(self.text[start..self.i].to_string()))
            }
            _ => Err(format!("unexpected byte {c:#x} at {}", self.i)),
        }
    }
    fn string(&mut self) -> Result<String, String> {
        // at the opening quote
        self.i += 1;
        let mut out = String::new();
        loop {
            let start = self.i;
            while self.i < self.b.len() && self.b[self.i] != b'"' && self.b[self.i] != b'\\' {
                self.i += 1;
            }
            out.push_str(&self.text[start..self.i]);
            match self.b.get(self.i) {
                None => return Err("unterminated string".into()),
                Some(b'"') => {
                    self.i += 1;
                    return Ok(out);
                }
                Some(_) => {
                    // escape
                    let Some(&e) = self.b.get(self.i + 1) else {
                        return Err("unterminated escape".into());
                    };
                    self.i += 2;
                    match e {
                        b'"' => out.push('"'),
                        b'\\' => out.push('\\'),
                        b'/' => out.push('/'),
                        b'b' => out.push('\u{8}'),
                        b'f' => out.push('\u{c}'),
                        b'n' => out.push('\n'),
                        b'r' => out.push('\r'),
                        b't' => out.push('\t'),
                        b'u' => {
                            let hex = self
                                .text
                                .get(self.i..self.i + 4)
                                .ok_or_else(|| "short \\u escape".to_string())?;
                            let cp = u32::from_str_radix(hex, 16).map_err(|e| e.to_string())?;
                            let ch = char::from_u32(cp).ok_or_else(|| "surrogate escape".to_string())?;
                            out.push(ch);
                            self.i += 4;
                        }
                        _ => return Err("bad escape".into()),
                    }
                }
            }
        }
    }
}

// ---------------------------------------------------------------------------------------
// own base64 encoder (standard alphabet, '=' padding)

const B64: &[u8; 64] = b"ABCDEFGHIJKLMNOPQRSTUVWXYZabcdefghijklmnopqrstuvwxyz0123456789+/";

pub fn b64(data: &[u8]) -> String {
    let mut out = String::with_capacity(data.len().div_ceil(3) * 4);
    for chunk in data.chunks(3) {
        let b0 = chunk[0] as u32;
        let b1 = *chunk.get(1).unwrap_or(&0) as u32;
        let b2 = *chunk.get(2).unwrap_or(&0) as u32;
        let n = (b0 << 16) | (b1 << 8) | b2;
        out.push(B64[(n >> 18) as usize & 63] as char);
        out.push(B64[(n >> 12) as usize & 63] as char);
        out.push(if chunk.len() > 1 { B64[(n >> 6) as usize & 63] as char } else { '=' });
        out.push(if chunk.len() > 2 { B64[n as usize & 63] as char } else { '=' });
    }
    out
}

// ---------------------------------------------------------------------------------------
// cases

#[derive(Clone, Copy, Debug, PartialEq, Eq, Serialize, Deserialize)]
pub enum Target {
    Image,
    Glyph,
    Text,
    View,
}

impl Target {
    fn name(self) -> &'static str {
        match self {
            Target::Image => "image",
            Target::Glyph => "glyph",
            Target::Text => "text",
            Target::View => "view",
        }
    }
}

#[derive(Clone, Copy, Debug, PartialEq, Eq, Serialize, Deserialize)]
pub enum Origin {
    Grammar,
    Arbitrary,
}

/// One nesting layer put around the body of a document.
/// mode 0: `{fields.., key: X}`; 1: `{fields.., key: [X]}`;
/// 2: `{fields.., key: [{extra.., "view": X}]}`; 3: `[X]`
#[derive(Clone, Debug, Serialize, Deserialize)]
pub struct Wrap {
    pub fields: Vec<(String, J)>,
    pub key: String,
    pub mode: u8,
    pub extra: Vec<(String, J)>,
}

impl Wrap {
    fn apply(&self, inner: J) -> J {
        let mut entries = self.fields.clone();
        match self.mode {
            0 => entries.push((self.key.clone(), inner)),
            1 => entries.push((self.key.clone(), J::Arr(vec![inner]))),
            2 => {
                let mut child = self.extra.clone();
                child.push(("view".to_string(), inner));
                entries.push((self.key.clone(), J::Arr(vec![J::Obj(child)])));
            }
            _ => return J::Arr(vec![inner]),
        }
        J::Obj(entries)
    }
}

#[derive(Clone, Debug, Serialize, Deserialize)]
pub enum ImgView {
    Full,
    /// rows r0..r1, cols c0..c1 (0 <= r0 <= r1 <= height, same for columns)
    Crop { r0: usize, r1: usize, c0: usize, c1: usize },
    /// `Image::from_parts` over the data buffer with this shape
    Strided { start: usize, row_stride: usize, col_stride: usize },
}

/// A terminal (what `Terminal::size` reports) whose `ViewContext::new` context a deserialised
/// view is laid out and rendered under, in addition to the standing 24x80-cell / 20x10-pixel
/// one.  `pixels == (0, 0)`: the terminal does not know its size in pixels.
#[derive(Clone, Copy, Debug, PartialEq, Eq, Serialize, Deserialize)]
pub struct TermCfg {
    /// (height, width) in cells
    pub cells: (usize, usize),
    /// (height, width) in pixels; need not be a multiple of `cells`
    pub pixels: (usize, usize),
}

impl TermCfg {
    fn size(&self) -> TerminalSize {
        TerminalSize {
            cells: Size::new(self.cells.0, self.cells.1),
            pixels: Size::new(self.pixels.0, self.pixels.1),
        }
    }
}

#[derive(Clone, Debug, Serialize, Deserialize)]
pub enum Case {
    /// `underline_first` (0 = none): an underline style combined into the set BEFORE `underline`
    /// with the non-assigning `|`, which replaces the style (the set is built in steps)
    Face { fg: Option<[u8; 4]>, bg: Option<[u8; 4]>, flags: u8, underline: u8, #[serde(default)] underline_first: u8 },
    Size { height: u64, width: u64 },
    Chord { text: String },
    /// pixels as 0xRRGGBBAA; for Full/Crop `data.len() == height*width`
    Image { height: usize, width: usize, data: Vec<u32>, view: ImgView },
    ImageJson {
        height: usize,
        width: usize,
        channels: Option<u8>,
        bytes: Vec<u8>,
        order: u8,
        size_as_map: bool,
        junk: bool,
    },
    /// `term`: a further terminal configuration for the layout + render part (None = only the
    /// standing one); `listen`: deserialisation, layout and render run while a `tracing`
    /// subscriber that formats every field of every event and span is installed
    Doc {
        target: Target,
        origin: Origin,
        chain: Vec<Wrap>,
        body: J,
        ext: u32,
        odd: u32,
        #[serde(default)]
        term: Option<TermCfg>,
        #[serde(default)]
        listen: bool,
    },
    Bytes {
        target: Target,
        bytes: Vec<u8>,
        mutated: bool,
        #[serde(default)]
        term: Option<TermCfg>,
        #[serde(default)]
        listen: bool,
    },
}

fn rgba_of(px: u32) -> RGBA {
    let [r, g, b, a] = px.to_be_bytes();
    RGBA::new(r, g, b, a)
}

fn short(s: &str) -> String {
    if s.len() <= 700 {
        s.to_string()
    } else {
        let mut end = 700;
        while !s.is_char_boundary(end) {
            end -= 1;
        }
        format!("{}…(+{} bytes)", &s[..end], s.len() - end)
    }
}

/// run library code; a panic becomes a Fail whose signature is prefixed with the stage, and
/// with `dep-rasterize/` when the panic location is inside the rasterize crate
fn stage<T>(stage: &str, ctx: &dyn Fn() -> String, f: impl FnOnce() -> T) -> Result<T, Fail> {
    guard_val(f).map_err(|e| {
        let class = if e.msg.contains("/rasterize-") {
            format!("dep-rasterize/{stage}")
        } else {
            stage.to_string()
        };
        // engine signature: `panic:<function>@<file>|<message>`.  The function is dropped
        // (it changes with inlining between the text and the Value path; it can be missing)
        // in favour of the file of the panic location, and blanks are replaced (signatures
        // are blank-separated tokens in known_findings.txt)
        let (_, msg) = e.sig.split_once('|').unwrap_or((&e.sig, ""));
        // `e.msg` = "panic at <path>:<line>: <message>": keep the file name of the location
        let file = e
            .msg
            .strip_prefix("panic at ")
            .and_then(|rest| rest.split(": ").next())
            .and_then(|loc| loc.rsplit_once(':').map(|(path, _)| path))
            .and_then(|path| path.rsplit('/').next())
            .filter(|f| !f.is_empty())
            .unwrap_or("unknown-location");
        let msg: String = msg.chars().map(|c| if c.is_whitespace() { '_' } else { c }).collect();
        Fail::new(format!("{class}/panic@{file}:{msg}"), format!("{}: {}", ctx(), e.msg))
    })
}

// ---------------------------------------------------------------------------------------
// part (a): round trips

fn build_face(fg: Option<[u8; 4]>, bg: Option<[u8; 4]>, flags: u8, underline: u8, underline_first: u8) -> Face {
    // non-assigning operators only: `|=` on FaceAttrs is a raw bit OR
    let mut attrs = FaceAttrs::EMPTY;
    for (bit, attr) in [
        (1u8, FaceAttrs::BOLD),
        (2, FaceAttrs::ITALIC),
        (4, FaceAttrs::BLINK),
        (8, FaceAttrs::REVERSE),
        (16, FaceAttrs::STRIKE),
    ] {
        if flags & bit != 0 {
            attrs = attrs | attr;
        }
    }
    let style = |u: u8| match u {
        1 => FaceAttrs::UNDERLINE,
        2 => FaceAttrs::UNDERLINE_DOUBLE,
        3 => FaceAttrs::UNDERLINE_CURLY,
        4 => FaceAttrs::UNDERLINE_DOTTED,
        5 => FaceAttrs::UNDERLINE_DASHED,
        _ => FaceAttrs::EMPTY,
    };
    attrs = attrs | style(underline_first);
    attrs = attrs | style(underline);
    let c = |c: [u8; 4]| RGBA::new(c[0], c[1], c[2], c[3]);
    Face::new(fg.map(c), bg.map(c), attrs)
}

fn check_face(fg: Option<[u8; 4]>, bg: Option<[u8; 4]>, flags: u8, underline: u8, underline_first: u8) -> Outcome {
    let face = build_face(fg, bg, flags, underline, underline_first);
    let ctx = || format!("face fg={fg:?} bg={bg:?} flags={flags:#07b} underline={underline} (combined over an earlier underline style {underline_first})");
    // serde
    let v = stage("face-serde", &ctx, || serde_json::to_value(face))?
        .map_err(|e| Fail::new("face-serde/serialize-error", format!("{}: {e}", ctx())))?;
    let back = stage("face-serde", &ctx, || serde_json::from_value::<Face>(v.clone()))?;
    match back {
        Ok(f2) => ensure!(
            f2 == face,
            "face-serde/changed",
            "{}: serialised as {v}, deserialised as the face that prints as {:?} (attribute names come from the same table)",
            ctx(),
            f2.to_string()
        ),
        Err(e) => {
            return Err(Fail::new(
                "face-serde/deserialize-error",
                format!("{}: serialised as {v}, does not deserialise: {e}", ctx()),
            ));
        }
    }
    // text
    let text = stage("face-text", &ctx, || face.to_string())?;
    match stage("face-text", &ctx, || text.parse::<Face>())? {
        Ok(f2) => ensure!(
            f2 == face,
            "face-text/changed",
            "{}: printed as {text:?}, parsed back as the face that prints as {:?}",
            ctx(),
            f2.to_string()
        ),
        Err(e) => {
            return Err(Fail::new(
                "face-text/parse-error",
                format!("{}: printed as {text:?}, does not parse: {e}", ctx()),
            ));
        }
    }
    let alpha = fg.map(|c| c[3] != 255).unwrap_or(false) || bg.map(|c| c[3] != 255).unwrap_or(false);
    let nattrs = flags.count_ones() + (underline != 0) as u32;
    Ok(Pass::new(alpha || nattrs >= 2 || underline >= 2)
        .label("rt/face")
        .label_if(alpha, "rt/face/alpha")
        .label_if(underline >= 2, "rt/face/underline-style")
        .label_if(nattrs >= 3, "rt/face/3+attrs"))
}

fn check_size(height: u64, width: u64) -> Outcome {
    let size = Size::new(height as usize, width as usize);
    let ctx = || format!("size {height}x{width}");
    let v = stage("size-serde", &ctx, || serde_json::to_value(size))?
        .map_err(|e| Fail::new("size-serde/serialize-error", format!("{}: {e}", ctx())))?;
    match stage("size-serde", &ctx, || serde_json::from_value::<Size>(v.clone()))? {
        Ok(s2) => ensure!(s2 == size, "size-serde/changed", "{}: {v} came back as {s2:?}", ctx()),
        Err(e) => {
            return Err(Fail::new(
                "size-serde/deserialize-error",
                format!("{}: {v} does not deserialise: {e}", ctx()),
            ));
        }
    }
    // through JSON text as well (numbers above 2^53 must stay exact)
    let text = v.to_string();
    match stage("size-serde", &ctx, || serde_json::from_str::<Size>(&text))? {
        Ok(s2) => ensure!(s2 == size, "size-serde/changed", "{}: {text} came back as {s2:?}", ctx()),
        Err(e) => {
            return Err(Fail::new(
                "size-serde/deserialize-error",
                format!("{}: {text} does not deserialise: {e}", ctx()),
            ));
        }
    }
    let text = stage("size-text", &ctx, || size.to_string())?;
    match stage("size-text", &ctx, || text.parse::<Size>())? {
        Ok(s2) => ensure!(
            s2 == size,
            "size-text/changed",
            "{}: printed as {text:?}, parsed back as {s2:?}",
            ctx()
        ),
        Err(e) => {
            return Err(Fail::new(
                "size-text/parse-error",
                format!("{}: printed as {text:?}, does not parse: {e}", ctx()),
            ));
        }
    }
    let big = height > (1 << 53) || width > (1 << 53);
    Ok(Pass::new(height != width).label("rt/size").label_if(big, "rt/size/above-2^53"))
}

fn check_chord(text: &str) -> Outcome {
    let ctx = || format!("chord text {text:?}");
    let chord = match stage("chord-parse", &ctx, || text.parse::<KeyChord>())? {
        Ok(c) => c,
        Err(e) => {
            // the generator only writes chords in the documented syntax
            return Err(Fail::new(
                "chord-parse/wellformed-rejected",
                format!("{}: well-formed chord text rejected: {e}", ctx()),
            ));
        }
    };
    let v = stage("chord-serde", &ctx, || serde_json::to_value(&chord))?
        .map_err(|e| Fail::new("chord-serde/serialize-error", format!("{}: {e}", ctx())))?;
    match stage("chord-serde", &ctx, || serde_json::from_value::<KeyChord>(v.clone()))? {
        Ok(c2) => ensure!(
            c2 == chord,
            "chord-serde/changed",
            "{}: chord {chord:?} serialised as {v}, deserialised as {c2:?}",
            ctx()
        ),
        Err(e) => {
            return Err(Fail::new(
                "chord-serde/deserialize-error",
                format!("{}: chord {chord:?} serialised as {v}, does not deserialise: {e}", ctx()),
            ));
        }
    }
    let printed = stage("chord-text", &ctx, || chord.to_string())?;
    match stage("chord-text", &ctx, || printed.parse::<KeyChord>())? {
        Ok(c2) => ensure!(
            c2 == chord,
            "chord-text/changed",
            "{}: printed as {printed:?}, parsed back as {c2:?}",
            ctx()
        ),
        Err(e) => {
            return Err(Fail::new(
                "chord-text/parse-error",
                format!("{}: printed as {printed:?}, does not parse: {e}", ctx()),
            ));
        }
    }
    let keys = chord.keys().len();
    let mods = chord.keys().iter().filter(|k| !k.mode.is_empty()).count();
    Ok(Pass::new(keys >= 2 || mods >= 1)
        .label("rt/chord")
        .label_if(keys >= 2, "rt/chord/multi-key")
        .label_if(mods >= 1, "rt/chord/modifiers"))
}

/// compare a deserialised image with the expected size and pixel function
fn compare_image(
    sig: &str,
    ctx: &dyn Fn() -> String,
    got: &Image,
    size: Size,
    expect: &dyn Fn(usize, usize) -> RGBA,
) -> Result<(), Fail> {
    ensure!(
        got.size() == size,
        format!("{sig}/size-changed"),
        "{}: deserialised size {:?}, expected {:?}",
        ctx(),
        got.size(),
        size
    );
    for row in 0..size.height {
        for col in 0..size.width {
            let want = expect(row, col);
            let have = got.get(Position::new(row, col)).copied();
            ensure!(
                have == Some(want),
                format!("{sig}/pixel-changed"),
                "{}: pixel ({row},{col}) is {:?}, expected {:?}",
                ctx(),
                have.map(|c| c.to_string()),
                want.to_string()
            );
        }
    }
    let n = got.iter().count();
    ensure!(
        n == size.height * size.width,
        format!("{sig}/pixel-count"),
        "{}: iterator yields {n} pixels for size {:?}",
        ctx(),
        size
    );
    Ok(())
}

fn check_image(height: usize, width: usize, data: &[u32], view: &ImgView) -> Outcome {
    let ctx = || format!("image {height}x{width} view={view:?} data={:08x?}", &data[..data.len().min(40)]);
    // build the image and the independent expectation
    let (image, size, expect): (Image, Size, Box<dyn Fn(usize, usize) -> RGBA>) = match *view {
        ImgView::Full | ImgView::Crop { .. } => {
            if data.len() != height * width || height > 64 || width > 64 {
                return Ok(Pass::new(false).label("invalid-case"));
            }
            let surf = SurfaceOwned::new_with(Size::new(height, width), |pos| {
                rgba_of(data[pos.row * width + pos.col])
            });
            let full = Image::from(surf);
            match *view {
                ImgView::Crop { r0, r1, c0, c1 } => {
                    if !(r0 <= r1 && r1 <= height && c0 <= c1 && c1 <= width) {
                        return Ok(Pass::new(false).label("invalid-case"));
                    }
                    let cropped = stage("image-crop", &ctx, || full.crop(r0..r1, c0..c1))?;
                    let data = data.to_vec();
                    // an empty selection on either axis gives the empty image; the size the
                    // cropped view reports is what has to survive
                    let size = cropped.size();
                    if r0 < r1 && c0 < c1 {
                        ensure!(
                            size == Size::new(r1 - r0, c1 - c0),
                            "image-crop/size",
                            "{}: crop has size {:?}",
                            ctx(),
                            size
                        );
                    }
                    (
                        cropped,
                        size,
                        Box::new(move |r, c| rgba_of(data[(r0 + r) * width + (c0 + c)])),
                    )
                }
                _ => {
                    let data = data.to_vec();
                    (full, Size::new(height, width), Box::new(move |r, c| rgba_of(data[r * width + c])))
                }
            }
        }
        ImgView::Strided { start, row_stride, col_stride } => {
            if height > 64 || width > 64 || row_stride > 4096 || col_stride > 4096 || start > 4096 {
                return Ok(Pass::new(false).label("invalid-case"));
            }
            let need = if height > 0 && width > 0 {
                start + (height - 1) * row_stride + (width - 1) * col_stride + 1
            } else {
                start
            };
            if data.len() < need {
                return Ok(Pass::new(false).label("invalid-case"));
            }
            let pixels: Arc<[RGBA]> = data.iter().map(|p| rgba_of(*p)).collect::<Vec<_>>().into();
            let shape = Shape { start, end: need, width, height, row_stride, col_stride };
            let image = Image::from_parts(pixels, shape);
            let data = data.to_vec();
            (
                image,
                Size::new(height, width),
                Box::new(move |r, c| rgba_of(data[start + r * row_stride + c * col_stride])),
            )
        }
    };
    let v = stage("image-serde", &ctx, || serde_json::to_value(&image))?
        .map_err(|e| Fail::new("image-serde/serialize-error", format!("{}: {e}", ctx())))?;
    let ctx2 = || format!("{} serialised as {}", ctx(), short(&v.to_string()));
    let back = match stage("image-serde", &ctx2, || serde_json::from_value::<Image>(v.clone()))? {
        Ok(i) => i,
        Err(e) => {
            return Err(Fail::new(
                "image-serde/deserialize-error",
                format!("{}: does not deserialise: {e}", ctx2()),
            ));
        }
    };
    compare_image("image-serde", &ctx2, &back, size, &*expect)?;
    // and through text
    let text = v.to_string();
    let back = match stage("image-serde", &ctx2, || serde_json::from_str::<Image>(&text))? {
        Ok(i) => i,
        Err(e) => {
            return Err(Fail::new(
                "image-serde/deserialize-error",
                format!("{}: text form does not deserialise: {e}", ctx2()),
            ));
        }
    };
    compare_image("image-serde", &ctx2, &back, size, &*expect)?;
    let kind = match view {
        ImgView::Full => "full",
        ImgView::Crop { .. } => "crop",
        ImgView::Strided { .. } => "strided",
    };
    let empty = size.height * size.width == 0;
    Ok(Pass::new(!empty && size.height * size.width >= 2)
        .label(format!("rt/image/{kind}"))
        .label_if(empty, "rt/image/empty"))
}

#[allow(clippy::too_many_arguments)]
fn check_image_json(
    height: usize,
    width: usize,
    channels: Option<u8>,
    bytes: &[u8],
    order: u8,
    size_as_map: bool,
    junk: bool,
) -> Outcome {
    let c = channels.unwrap_or(3) as usize;
    if !matches!(c, 1 | 3 | 4) || bytes.len() != c * height * width || height > 64 || width > 64 {
        return Ok(Pass::new(false).label("invalid-case"));
    }
    let size_j = if size_as_map {
        J::obj(&[("height", J::num(height as u64)), ("width", J::num(width as u64))])
    } else {
        J::Arr(vec![J::num(height as u64), J::num(width as u64)])
    };
    let mut entries = vec![("size".to_string(), size_j), ("data".to_string(), J::Str(b64(bytes)))];
    if let Some(ch) = channels {
        entries.push(("channels".to_string(), J::num(ch as u64)));
    }
    if junk {
        entries.push((
            "comment".to_string(),
            J::obj(&[("size", J::Arr(vec![J::num(1)])), ("x", J::Null)]),
        ));
    }
    let n = entries.len();
    entries.rotate_left(order as usize % n);
    if order as usize / n % 2 == 1 {
        entries.reverse();
    }
    let doc = J::Obj(entries);
    let text = doc.render();
    let ctx = || format!("hand-written image JSON {}", short(&text));
    let bytes_owned = bytes.to_vec();
    let expect = move |r: usize, col: usize| -> RGBA {
        let i = r * width + col;
        match c {
            1 => RGBA::new(bytes_owned[i], bytes_owned[i], bytes_owned[i], 255),
            3 => RGBA::new(bytes_owned[3 * i], bytes_owned[3 * i + 1], bytes_owned[3 * i + 2], 255),
            _ => RGBA::new(
                bytes_owned[4 * i],
                bytes_owned[4 * i + 1],
                bytes_owned[4 * i + 2],
                bytes_owned[4 * i + 3],
            ),
        }
    };
    let sig = "image-json";
    let img = match stage(sig, &ctx, || serde_json::from_str::<Image>(&text))? {
        Ok(i) => i,
        Err(e) => {
            return Err(Fail::new(
                format!("{sig}/valid-rejected"),
                format!("{}: rejected: {e}", ctx()),
            ));
        }
    };
    compare_image(sig, &ctx, &img, Size::new(height, width), &expect)?;
    let value = doc.to_value().expect("valid numbers");
    let img = match stage(sig, &ctx, || serde_json::from_value::<Image>(value))? {
        Ok(i) => i,
        Err(e) => {
            return Err(Fail::new(
                format!("{sig}/valid-rejected"),
                format!("{}: rejected (as Value): {e}", ctx()),
            ));
        }
    };
    compare_image(sig, &ctx, &img, Size::new(height, width), &expect)?;
    let label = match channels {
        None => "rt/image-json/channels-absent".to_string(),
        Some(ch) => format!("rt/image-json/c{ch}"),
    };
    Ok(Pass::new(height * width >= 2).label(label))
}

// ---------------------------------------------------------------------------------------
// process configuration: a `tracing` subscriber that listens to everything

/// The library reports through `tracing` (events, spans, `#[instrument]`).  The field
/// expressions and the Debug/Display impls of the recorded values are library code that runs
/// only when a subscriber is interested: "a logging subscriber is installed" is an ordinary
/// configuration of the process the library runs in.  This subscriber is interested in every
/// level and formats every field of every event / span / later record into a discarding sink
/// (what a `fmt` subscriber does, minus the output).
pub mod listener {
    use std::fmt::{self, Write};
    use std::sync::Arc;
    use std::sync::atomic::{AtomicU64, Ordering};
    use tracing::field::{Field, Visit};
    use tracing::level_filters::LevelFilter;
    use tracing::subscriber::Interest;
    use tracing::{Event, Metadata, Subscriber, span};

    #[derive(Default)]
    pub struct Stats {
        pub events: AtomicU64,
        pub spans: AtomicU64,
        pub bytes: AtomicU64,
    }

    /// what was delivered while the subscriber was installed
    #[derive(Clone, Copy, Debug, Default)]
    pub struct Seen {
        pub events: u64,
        pub spans: u64,
        pub bytes: u64,
    }

    struct Sink(u64);

    impl Write for Sink {
        fn write_str(&mut self, s: &str) -> fmt::Result {
            self.0 = self.0.wrapping_add(s.len() as u64);
            Ok(())
        }
    }

    impl Visit for Sink {
        fn record_debug(&mut self, field: &Field, value: &dyn fmt::Debug) {
            // every other record_* method of Visit defaults to this one
            let _ = write!(self, "{}={:?} ", field.name(), value);
        }
    }

    pub struct Listener {
        next_id: AtomicU64,
        stats: Arc<Stats>,
    }

    impl Listener {
        fn took(&self, sink: Sink) {
            self.stats.bytes.fetch_add(sink.0, Ordering::Relaxed);
        }
    }

    impl Subscriber for Listener {
        fn register_callsite(&self, _meta: &'static Metadata<'static>) -> Interest {
            // never cached as `always`: a thread (or a later case) without this subscriber
            // asks its own dispatcher, i.e. behaves as a process without a subscriber
            Interest::sometimes()
        }

        fn enabled(&self, _meta: &Metadata<'_>) -> bool {
            true
        }

        fn max_level_hint(&self) -> Option<LevelFilter> {
            Some(LevelFilter::TRACE)
        }

        fn new_span(&self, attrs: &span::Attributes<'_>) -> span::Id {
            let mut sink = Sink(0);
            attrs.record(&mut sink);
            self.took(sink);
            self.stats.spans.fetch_add(1, Ordering::Relaxed);
            span::Id::from_u64(self.next_id.fetch_add(1, Ordering::Relaxed) + 1)
        }

        fn record(&self, _span: &span::Id, values: &span::Record<'_>) {
            let mut sink = Sink(0);
            values.record(&mut sink);
            self.took(sink);
        }

        fn record_follows_from(&self, _span: &span::Id, _follows: &span::Id) {}

        fn event(&self, event: &Event<'_>) {
            let mut sink = Sink(0);
            let _ = write!(sink, "{} {} ", event.metadata().level(), event.metadata().target());
            event.record(&mut sink);
            self.took(sink);
            self.stats.events.fetch_add(1, Ordering::Relaxed);
        }

        fn enter(&self, _span: &span::Id) {}

        fn exit(&self, _span: &span::Id) {}
    }

    /// run `f` with the subscriber installed as this thread's default (restored afterwards,
    /// also on unwind).  A fresh dispatcher per call: registering it rebuilds the per-callsite
    /// interest cache of `tracing`, so callsites first hit without a subscriber (cached
    /// `never`) become `sometimes` and are delivered.
    pub fn with<T>(f: impl FnOnce() -> T) -> (T, Seen) {
        let stats = Arc::new(Stats::default());
        let sub = Listener { next_id: AtomicU64::new(0), stats: stats.clone() };
        let out = tracing::subscriber::with_default(sub, f);
        let seen = Seen {
            events: stats.events.load(Ordering::Relaxed),
            spans: stats.spans.load(Ordering::Relaxed),
            bytes: stats.bytes.load(Ordering::Relaxed),
        };
        (out, seen)
    }

    /// Run a check with the subscriber installed.  A failure is run once more without it: if
    /// it fails there too the plain failure is returned (the subscriber has nothing to do with
    /// it), otherwise the signature is prefixed with `tracing-subscriber/`.
    pub fn check_under(listen: bool, run: &dyn Fn() -> crate::engine::Outcome) -> crate::engine::Outcome {
        if !listen {
            return run();
        }
        let (r, seen) = with(run);
        match r {
            Ok(pass) => {
                let rendered = pass.labels.iter().any(|l| l.ends_with("ok+rendered") || l == "src/built");
                Ok(pass
                    .label("tracing-subscriber/installed")
                    .label_if(rendered, "tracing-subscriber/installed/view-laid-out+rendered")
                    .label_if(seen.events > 0, "tracing-subscriber/installed/events-delivered")
                    .label_if(seen.spans > 0, "tracing-subscriber/installed/spans-delivered"))
            }
            Err(f) => match run() {
                Err(plain) => Err(plain),
                Ok(_) => Err(crate::engine::Fail::new(
                    format!("tracing-subscriber/{}", f.sig),
                    format!(
                        "only while a tracing subscriber interested in every level is this thread's default \
                         (tracing::subscriber::with_default; {} events, {} spans, {} formatted bytes delivered before the failure); \
                         the same case passes without a subscriber: {}",
                        seen.events, seen.spans, seen.bytes, f.msg
                    ),
                )),
            },
        }
    }
}

// ---------------------------------------------------------------------------------------
// part (b): crash freedom of the deserialisers, layout + render of what they accept

fn worker_limits() {
    static ONCE: std::sync::Once = std::sync::Once::new();
    ONCE.call_once(|| {
        if std::env::args().any(|a| a == "--worker") {
            // an allocation proportional to an attacker-controlled size must show up as a
            // dead worker, not as an exhausted machine
            let lim = libc::rlimit { rlim_cur: 1 << 30, rlim_max: 1 << 30 };
            unsafe {
                libc::setrlimit(libc::RLIMIT_AS, &lim);
            }
        }
    });
}

enum Loaded {
    Image(Image),
    Glyph(Glyph),
    Text(Text),
    View(Arc<dyn View>),
}

impl Loaded {
    fn view(&self) -> &dyn View {
        match self {
            Loaded::Image(v) => v,
            Loaded::Glyph(v) => v,
            Loaded::Text(v) => v,
            Loaded::View(v) => v,
        }
    }
}

fn deser_bytes(target: Target, bytes: &[u8], ctx: &dyn Fn() -> String) -> Result<Result<Loaded, String>, Fail> {
    // one stage name for every target: the same visitor is reached through several of them
    let st = "deser".to_string();
    let _ = target.name();
    let r = stage(&st, ctx, || match target {
        Target::Image => serde_json::from_slice::<Image>(bytes).map(Loaded::Image).map_err(|e| e.to_string()),
        Target::Glyph => serde_json::from_slice::<Glyph>(bytes).map(Loaded::Glyph).map_err(|e| e.to_string()),
        Target::Text => serde_json::from_slice::<Text>(bytes).map(Loaded::Text).map_err(|e| e.to_string()),
        Target::View => {
            let seed = ViewDeserializer::new(None, Some(std::sync::Arc::new(crate::mockterm::FlipCache::with_chains())));
            let mut de = serde_json::Deserializer::from_slice(bytes);
            (&seed).deserialize(&mut de).map(Loaded::View).map_err(|e| e.to_string())
        }
    })?;
    Ok(r)
}

fn deser_value(target: Target, value: Value, ctx: &dyn Fn() -> String) -> Result<Result<Loaded, String>, Fail> {
    // one stage name for every target: the same visitor is reached through several of them
    let st = "deser".to_string();
    let _ = target.name();
    let r = stage(&st, ctx, || match target {
        Target::Image => serde_json::from_value::<Image>(value).map(Loaded::Image).map_err(|e| e.to_string()),
        Target::Glyph => serde_json::from_value::<Glyph>(value).map(Loaded::Glyph).map_err(|e| e.to_string()),
        Target::Text => serde_json::from_value::<Text>(value).map(Loaded::Text).map_err(|e| e.to_string()),
        Target::View => {
            let seed = ViewDeserializer::new(None, Some(std::sync::Arc::new(crate::mockterm::FlipCache::with_chains())));
            (&seed).deserialize(value).map(Loaded::View).map_err(|e| e.to_string())
        }
    })?;
    Ok(r)
}

const CANVAS: Size = Size { height: 14, width: 26 };
const WIN_ROW: usize = 2;
const WIN_COL: usize = 3;

fn sentinel() -> Cell {
    Cell::new_char(
        Face::new(Some(RGBA::new(1, 2, 3, 255)), Some(RGBA::new(250, 251, 252, 255)), FaceAttrs::STRIKE),
        '\u{e000}',
    )
}

/// the terminal every deserialised view is laid out under: 24x80 cells of 20x10 pixels
const STANDING_TERM: TermCfg = TermCfg { cells: (24, 80), pixels: (24 * 20, 80 * 10) };

/// class of a terminal configuration by the cell size `ViewContext::new` derives from it
fn term_class(term: &TermCfg) -> &'static str {
    let ppc = term.size().pixels_per_cell();
    if term.pixels == (0, 0) {
        "no-pixel-size"
    } else if ppc.height == 0 || ppc.width == 0 {
        "zero-cell-extent"
    } else {
        "other-cell-size"
    }
}

/// lay the view out under 3 constraints x 2 glyph settings, in the context of the standing
/// terminal and of `extra` (when given), and render it into a window of a sentinel canvas;
/// returns Ok(()) or the first violation
fn exercise_view(view: &dyn View, extra: Option<TermCfg>, ctx: &dyn Fn() -> String) -> Result<(), Fail> {
    let constraints = [
        ("loose-0x0", BoxConstraint::loose(Size::new(0, 0))),
        ("loose-10x20", BoxConstraint::loose(Size::new(10, 20))),
        ("tight-3x7", BoxConstraint::tight(Size::new(3, 7))),
    ];
    // (terminal, stage names): failures under a further terminal get their own signatures
    let mut terms: Vec<(TermCfg, String, String)> =
        vec![(STANDING_TERM, "view-layout".to_string(), "view-render".to_string())];
    if let Some(t) = extra {
        let class = term_class(&t);
        terms.push((t, format!("view-layout/{class}"), format!("view-render/{class}")));
    }
    for (tcfg, st_layout, st_render) in &terms {
      for glyphs in [false, true] {
        let term = RecTerm::with_size(tcfg.size(), glyphs);
        let vctx: ViewContext = term.ctx();
        for (ct_name, ct) in constraints {
            let ctx2 = || {
                format!(
                    "{} [constraint {ct_name}, glyphs={glyphs}, ViewContext::new of a terminal reporting {}x{} cells and {}x{} pixels => {:?} per cell]",
                    ctx(),
                    tcfg.cells.0,
                    tcfg.cells.1,
                    tcfg.pixels.0,
                    tcfg.pixels.1,
                    vctx.pixels_per_cell()
                )
            };
            let mut store = ViewLayoutStore::new();
            let laid = stage(st_layout, &ctx2, || {
                view.layout_new(&vctx, ct, &mut store).map(|l| l.id())
            })?;
            let id = match laid {
                Ok(id) => id,
                Err(e) => {
                    return Err(Fail::new(
                        format!("{st_layout}/error"),
                        format!("{}: deserialised view cannot be laid out: {e}", ctx2()),
                    ));
                }
            };
            let sent = sentinel();
            let mut canvas = SurfaceOwned::new_with(CANVAS, |_| sent.clone());
            let win = ct.max();
            let rendered = stage(st_render, &ctx2, || {
                let surf = canvas.view_mut(WIN_ROW..WIN_ROW + win.height, WIN_COL..WIN_COL + win.width);
                view.render(&vctx, surf, ViewLayout::from_id(&store, id))
            })?;
            if let Err(e) = rendered {
                return Err(Fail::new(
                    format!("{st_render}/error"),
                    format!("{}: deserialised view cannot be rendered: {e}", ctx2()),
                ));
            }
            for row in 0..CANVAS.height {
                for col in 0..CANVAS.width {
                    let inside = row >= WIN_ROW
                        && row < WIN_ROW + win.height
                        && col >= WIN_COL
                        && col < WIN_COL + win.width;
                    if !inside {
                        let cell = canvas.get(Position::new(row, col));
                        ensure!(
                            cell == Some(&sent),
                            &format!("{st_render}/outside-window"),
                            "{}: cell ({row},{col}) outside the {}x{} window at ({WIN_ROW},{WIN_COL}) was changed to {:?}",
                            ctx2(),
                            win.height,
                            win.width,
                            cell
                        );
                    }
                }
            }
        }
      }
    }
    Ok(())
}

/// labels of a case whose document deserialised and was exercised under a further terminal
fn term_labels(mut pass: Pass, term: Option<TermCfg>, ok: bool, target: Target, mentions_image: bool, mentions_glyph: bool) -> Pass {
    if let (Some(t), true) = (term, ok) {
        let class = term_class(&t);
        pass = pass
            .label(format!("term/{class}/ok+rendered"))
            .label_if(target == Target::Image || mentions_image, &format!("term/{class}/ok+rendered/with-image"))
            .label_if(target == Target::Glyph || mentions_glyph, &format!("term/{class}/ok+rendered/with-glyph"));
    }
    pass
}

fn num_f64(j: &J) -> Option<f64> {
    match j {
        J::Num(raw) => raw.parse::<f64>().ok(),
        _ => None,
    }
}

/// Image deserialisation of `size: [h, 0]` with a huge `h` passes the length check (0 bytes)
/// and then runs an `h`-iteration loop: such documents never finish, which a test cannot
/// decide; they are screened out (see the report) instead of hanging the harness.
fn screens_as_endless_j(j: &J) -> bool {
    match j {
        J::Arr(items) => items.iter().any(screens_as_endless_j),
        J::Obj(entries) => entries.iter().any(|(k, v)| {
            if k == "size" {
                let (h, w) = match v {
                    J::Arr(items) if items.len() >= 2 => (num_f64(&items[0]), num_f64(&items[1])),
                    J::Obj(fields) => {
                        let get = |name: &str| {
                            fields.iter().rev().find(|(k, _)| k == name).and_then(|(_, v)| num_f64(v))
                        };
                        (get("height"), get("width"))
                    }
                    _ => (None, None),
                };
                if let (Some(h), Some(w)) = (h, w) {
                    if h > 16_777_216.0 && w == 0.0 {
                        return true;
                    }
                }
            }
            screens_as_endless_j(v)
        }),
        _ => false,
    }
}

fn screens_as_endless_value(v: &Value) -> bool {
    match v {
        Value::Array(items) => items.iter().any(screens_as_endless_value),
        Value::Object(map) => map.iter().any(|(k, v)| {
            if k == "size" {
                let (h, w) = match v {
                    Value::Array(items) if items.len() >= 2 => (items[0].as_f64(), items[1].as_f64()),
                    Value::Object(f) => (
                        f.get("height").and_then(Value::as_f64),
                        f.get("width").and_then(Value::as_f64),
                    ),
                    _ => (None, None),
                };
                if let (Some(h), Some(w)) = (h, w) {
                    if h > 16_777_216.0 && w == 0.0 {
                        return true;
                    }
                }
            }
            screens_as_endless_value(v)
        }),
        _ => false,
    }
}

/// how a forked probe ended
enum ChildEnd {
    Exited,
    Signal(i32),
    ForkFailed,
}

/// Run `f` in a forked copy of this (single-threaded worker) process.  Used to attribute
/// aborts that cannot be caught in-process (allocation failure, stack overflow) to a narrow
/// piece of code before the real check is run.
fn in_child(f: impl FnOnce()) -> ChildEnd {
    unsafe {
        let pid = libc::fork();
        if pid < 0 {
            return ChildEnd::ForkFailed;
        }
        if pid == 0 {
            // child: never touch the parent's stdout protocol, never unwind out
            let devnull = libc::open(c"/dev/null".as_ptr(), libc::O_WRONLY);
            if devnull >= 0 {
                libc::dup2(devnull, 1);
                libc::dup2(devnull, 2);
            }
            // the probed code needs little memory: fail fast
            let lim = libc::rlimit { rlim_cur: 256 << 20, rlim_max: 256 << 20 };
            libc::setrlimit(libc::RLIMIT_AS, &lim);
            let _ = guard_val(f);
            libc::_exit(0);
        }
        let mut status = 0;
        loop {
            let r = libc::waitpid(pid, &mut status, 0);
            if r == pid {
                break;
            }
            if r < 0 && std::io::Error::last_os_error().kind() != std::io::ErrorKind::Interrupted {
                return ChildEnd::ForkFailed;
            }
        }
        if libc::WIFSIGNALED(status) {
            ChildEnd::Signal(libc::WTERMSIG(status))
        } else {
            ChildEnd::Exited
        }
    }
}

fn is_worker() -> bool {
    std::env::args().any(|a| a == "--worker")
}

fn collect_paths_j(j: &J, out: &mut Vec<String>) {
    match j {
        J::Arr(items) => items.iter().for_each(|i| collect_paths_j(i, out)),
        J::Obj(entries) => {
            for (k, v) in entries {
                match v {
                    J::Str(s) if k == "path" || k == "clip" => out.push(s.clone()),
                    _ => collect_paths_j(v, out),
                }
            }
        }
        _ => {}
    }
}

fn collect_paths_bytes(bytes: &[u8]) -> Vec<String> {
    let mut out = Vec::new();
    for key in [&b"\"path\""[..], &b"\"clip\""[..]] {
        let mut from = 0;
        while let Some(pos) = bytes[from..].windows(key.len()).position(|w| w == key) {
            let mut i = from + pos + key.len();
            from = i;
            while bytes.get(i).is_some_and(|b| b.is_ascii_whitespace()) {
                i += 1;
            }
            if bytes.get(i) != Some(&b':') {
                continue;
            }
            i += 1;
            if let Some(Ok(s)) = serde_json::Deserializer::from_slice(&bytes[i..]).into_iter::<String>().next() {
                out.push(s);
            }
        }
    }
    out
}

#[allow(dead_code)]
fn collect_paths_value(v: &Value, out: &mut Vec<String>) {
    match v {
        Value::Array(items) => items.iter().for_each(|i| collect_paths_value(i, out)),
        Value::Object(map) => {
            for (k, v) in map {
                match v {
                    Value::String(s) if k == "path" || k == "clip" => out.push(s.clone()),
                    _ => collect_paths_value(v, out),
                }
            }
        }
        _ => {}
    }
}

/// Parse every SVG path string of the document with the rasterize crate alone, in a forked
/// process: if that dies, the abort belongs to the dependency's path parser, and it is
/// reported with its own signature instead of the engine's generic `abort/worker-died`.
fn probe_paths(paths: &[String]) -> Result<(), Fail> {
    if paths.is_empty() || !is_worker() {
        return Ok(());
    }
    let all = if paths.len() == 1 {
        ChildEnd::Signal(0)
    } else {
        in_child(|| {
            for p in paths {
                let _ = p.parse::<surf_n_term::Path>();
            }
        })
    };
    if let ChildEnd::Signal(_) = all {
        for p in paths {
            if let ChildEnd::Signal(sig) = in_child(|| {
                let _ = p.parse::<surf_n_term::Path>();
            }) {
                return Err(Fail::new(
                    format!("dep-rasterize/path-parse/killed-by-signal-{sig}"),
                    format!(
                        "`{p:?}.parse::<rasterize::Path>()` (the glyph `path` / scene `clip` deserialiser) never returns: the process is killed by signal {sig} under an address-space limit (unbounded allocation)"
                    ),
                ));
            }
        }
    }
    Ok(())
}

fn no_screen() -> bool {
    std::env::var_os("VERIF_C19_NOSCREEN").is_some()
}

fn build_doc(chain: &[Wrap], body: &J) -> J {
    let mut doc = body.clone();
    for wrap in chain.iter().rev() {
        doc = wrap.apply(doc);
    }
    doc
}

/// Deep view documents are first deserialised with only their innermost 12, 16, 20, …
/// nesting layers.  The library wraps the error of every flex / container / tag layer by
/// formatting it with `{:?}` (`Error`'s Display is its Debug), which escapes the quotes and
/// backslashes of the inner message again: the error text doubles per layer.
///
/// Once the message of the innermost `k` layers exceeds 256 KiB (and is far larger than the
/// document) it consists almost only of backslashes (measured growth per layer: 1.97), so each of the `d` escaping layers
/// still outside multiplies it by 2; with the conservative factor 1.8 the size of the full
/// document's error is bounded from below.  If that bound is >= 4 GiB the worker (1 GiB
/// address space) cannot survive the rejection: reported as a violation without running it.
/// If the full message may exceed 64 MiB but is not certain to reach 4 GiB the document is
/// not run at all (it would take seconds and gigabytes, and nothing can be concluded):
/// `Ok(Some(label))`.
fn probe_error_growth(chain: &[Wrap], body: &J) -> Result<Option<&'static str>, Fail> {
    let n = chain.len();
    if n <= 12 {
        return Ok(None);
    }
    let escaping = |w: &Wrap| {
        w.fields.iter().any(|(k, v)| {
            k == "type" && matches!(v, J::Str(t) if t == "flex" || t == "container" || t == "tag")
        })
    };
    let mut sizes: Vec<(usize, usize)> = Vec::new();
    let mut k = 12;
    loop {
        let k_now = k.min(n);
        let doc = build_doc(&chain[n - k_now..], body);
        let text = doc.render();
        let ctx = || format!("view document (innermost {k_now} of {n} nesting layers) {}", short(&text));
        let r = match doc.to_value() {
            Some(v) => deser_value(Target::View, v, &ctx)?,
            None => deser_bytes(Target::View, text.as_bytes(), &ctx)?,
        };
        if let Err(e) = r {
            sizes.push((k_now, e.len()));
            if e.len() > (256 << 10) && e.len() > 64 * text.len() {
                let d = chain[..n - k_now].iter().filter(|w| escaping(w)).count();
                let log2_bound = (e.len() as f64).log2() + d as f64 * 1.8f64.log2();
                // at most doubled (plus a constant) by each remaining layer
                let log2_upper = (e.len() as f64).log2() + d as f64 * 1.05;
                if log2_upper <= 26.0 {
                    // the whole document stays below 64 MiB: cheap enough to run for real
                    if k_now == n {
                        return Ok(None);
                    }
                    k += 4;
                    continue;
                }
                if log2_bound >= 32.0 {
                    return Err(Fail::new(
                        "deser-view/error-size-exponential-in-nesting",
                        format!(
                            "view document of {n} nesting layers: its innermost {k_now} layers alone ({} bytes of JSON) are rejected with an \
                             error message of {} bytes (message length by number of layers: {:?}); every enclosing flex/container/tag layer \
                             re-escapes the inner message with {{:?}}, doubling it; {d} such layers remain, so rejecting the full document needs \
                             more than 2^{:.0} bytes and the process dies on allocation failure instead of returning the error: {}",
                            text.len(),
                            e.len(),
                            sizes,
                            log2_bound.floor(),
                            short(&text)
                        ),
                    ));
                }
                return Ok(Some("screened/error-message-between-64MiB-and-4GiB"));
            }
        }
        if k_now == n {
            return Ok(None);
        }
        k += 4;
    }
}

fn check_doc(target: Target, origin: Origin, chain: &[Wrap], body: &J, ext: u32, odd: u32, term: Option<TermCfg>) -> Outcome {
    worker_limits();
    let doc = build_doc(chain, body);
    let text = doc.render();
    let depth = doc.depth();
    let t = target.name();
    let o = match origin {
        Origin::Grammar => "doc",
        Origin::Arbitrary => "value",
    };
    // (documents with size [h > 2^24, 0] used to be screened out because building such an
    // image never returned; since the fix in SurfaceOwned::new_with they are ordinary cases, and
    // a case that does not finish is reported through the engine's per-case time limit)
    let _ = screens_as_endless_j(&doc);
    let mut paths = Vec::new();
    collect_paths_j(&doc, &mut paths);
    probe_paths(&paths)?;
    if target == Target::View {
        if let Some(label) = probe_error_growth(chain, body)? {
            return Ok(Pass::new(false).label(label));
        }
    }
    let mut pass = Pass::new(false);
    let ctx_text = || format!("{t} document (as text) {}", short(&text));
    let via_text = deser_bytes(target, text.as_bytes(), &ctx_text)?;
    let value = doc.to_value();
    let via_value = match value {
        Some(v) => {
            let ctx_value = || format!("{t} document (as serde_json::Value) {}", short(&text));
            Some(deser_value(target, v, &ctx_value)?)
        }
        None => None,
    };
    let loaded = match (&via_value, &via_text) {
        (Some(Ok(l)), _) => Some(l),
        (_, Ok(l)) => Some(l),
        _ => None,
    };
    let ok = loaded.is_some();
    if let Some(l) = loaded {
        let ctx = || format!("{t} document {}", short(&text));
        exercise_view(l.view(), term, &ctx)?;
    }
    pass = term_labels(pass, term, ok, target, text.contains("\"image\""), text.contains("\"glyph\""));
    pass = pass
        .label(format!("{o}/{t}/{}", if ok { "ok+rendered" } else { "err" }))
        .label_if(via_value.is_none(), "doc/not-a-json-value(text path only)")
        .label_if(depth > 127, "doc/deeper-than-serde_json-limit")
        .label_if(depth >= 32, "doc/depth>=32")
        .label_if(ext > 0 && ok, "doc/ok-with-extreme-field")
        .label_if(ext > 0 && ok && origin == Origin::Grammar, &format!("doc/{t}/ok-with-extreme-field"))
        .label_if(depth >= 32 && ok, &format!("doc/{t}/ok+rendered/depth>=32"))
        .label_if(depth > 127 && ok, &format!("doc/{t}/ok+rendered/depth>127"))
        .label_if(ext > 0, "doc/extreme-field")
        .label_if(odd > 0, "doc/missing|repeated|wrong-type-field");
    if let Err(e) = &via_text {
        pass = pass.label_if(e.contains("recursion limit"), "doc/text-path-recursion-limit");
    }
    pass.nontrivial = match origin {
        Origin::Grammar => ext > 0 || odd > 0 || depth >= 32,
        Origin::Arbitrary => ok || matches!(doc, J::Obj(_)),
    };
    Ok(pass)
}

fn check_bytes(target: Target, bytes: &[u8], mutated: bool, term: Option<TermCfg>) -> Outcome {
    worker_limits();
    let t = target.name();
    if !no_screen() {
        let first = serde_json::Deserializer::from_slice(bytes).into_iter::<Value>().next();
        if let Some(Ok(v)) = first {
            let _ = screens_as_endless_value(&v);
        }
        // the streaming visitors see a `path` value even when the document is broken
        // further on, so the strings are taken from the raw bytes
        probe_paths(&collect_paths_bytes(bytes))?;
    }
    let ctx = || format!("{t} from bytes {:?}", short(&String::from_utf8_lossy(bytes)));
    let r = deser_bytes(target, bytes, &ctx)?;
    let ok = r.is_ok();
    if let Ok(l) = &r {
        exercise_view(l.view(), term, &ctx)?;
    }
    let kind = if mutated { "mutated-doc" } else { "arbitrary" };
    let has = |needle: &[u8]| bytes.windows(needle.len()).any(|w| w == needle);
    let pass = Pass::new(mutated || ok)
        .label(format!("bytes/{t}/{kind}/{}", if ok { "ok+rendered" } else { "err" }));
    Ok(term_labels(pass, term, ok, target, has(b"\"image\""), has(b"\"glyph\"")))
}

pub fn check_case(case: &Case) -> Outcome {
    match case {
        Case::Face { fg, bg, flags, underline, underline_first } => check_face(*fg, *bg, *flags, *underline, *underline_first),
        Case::Size { height, width } => check_size(*height, *width),
        Case::Chord { text } => check_chord(text),
        Case::Image { height, width, data, view } => check_image(*height, *width, data, view),
        Case::ImageJson { height, width, channels, bytes, order, size_as_map, junk } => {
            check_image_json(*height, *width, *channels, bytes, *order, *size_as_map, *junk)
        }
        Case::Doc { target, origin, chain, body, ext, odd, term, listen } => {
            listener::check_under(*listen, &|| check_doc(*target, *origin, chain, body, *ext, *odd, *term))
        }
        Case::Bytes { target, bytes, mutated, term, listen } => {
            listener::check_under(*listen, &|| check_bytes(*target, bytes, *mutated, *term))
        }
    }
}

// ---------------------------------------------------------------------------------------
// generators, part (a)

fn color_strategy() -> BoxedStrategy<Option<[u8; 4]>> {
    let alpha = prop_oneof![2 => Just(255u8), 1 => Just(0u8), 1 => Just(254u8), 3 => any::<u8>()];
    let chan = || prop_oneof![1 => Just(0u8), 1 => Just(255u8), 1 => Just(15u8), 1 => Just(16u8), 4 => any::<u8>()];
    prop_oneof![
        1 => Just(None),
        4 => (chan(), chan(), chan(), alpha).prop_map(|(r, g, b, a)| Some([r, g, b, a])),
    ]
    .boxed()
}

fn face_case() -> BoxedStrategy<Case> {
    (color_strategy(), color_strategy(), 0u8..32, 0u8..6, prop_oneof![2 => Just(0u8), 1 => 1u8..6])
        .prop_map(|(fg, bg, flags, underline, underline_first)| Case::Face { fg, bg, flags, underline, underline_first })
        .boxed()
}

fn u64_interesting() -> BoxedStrategy<u64> {
    prop_oneof![
        3 => 0u64..=300,
        2 => select(vec![
            0u64, 1, 255, 256, 65535, 65536, (1 << 31) - 1, 1 << 31, (1 << 32) - 1, 1 << 32,
            (1 << 53) - 1, 1 << 53, (1 << 53) + 1, (1 << 63) - 1, 1 << 63, (1 << 63) + 1,
            u64::MAX - 1, u64::MAX,
        ]),
        2 => any::<u64>(),
    ]
    .boxed()
}

fn size_case() -> BoxedStrategy<Case> {
    (u64_interesting(), u64_interesting())
        .prop_map(|(height, width)| Case::Size { height, width })
        .boxed()
}

const KEY_NAMES: &[&str] = &[
    "left", "up", "right", "down", "pageup", "pagedown", "end", "home", "tab", "enter", "escape",
    "esc", "space", "backspace", "delete", "insert",
];
const KEY_MODS: &[&str] = &["alt", "ctrl", "shift", "press", "super", "hyper", "meta", "capslock"];
const KEY_CHARS: &str = "abcdefghijklmnopqrstuvwxyz0123456789`-=[]\\;,./";

fn recase(s: &str, style: u8) -> String {
    match style {
        1 => s.to_ascii_uppercase(),
        2 => {
            let mut out = s.to_string();
            if let Some(first) = out.get_mut(0..1) {
                first.make_ascii_uppercase();
            }
            out
        }
        _ => s.to_string(),
    }
}

fn key_text() -> BoxedStrategy<String> {
    let name = prop_oneof![
        4 => select(KEY_NAMES.to_vec()).prop_map(|s| s.to_string()),
        2 => (0u64..=40, 0usize..3).prop_map(|(n, zeros)| format!("f{}{}", "0".repeat(zeros), n)),
        1 => select(vec![255u64, 65536, u32::MAX as u64, u64::MAX]).prop_map(|n| format!("f{n}")),
        5 => select(KEY_CHARS.chars().collect::<Vec<_>>()).prop_map(|c| c.to_string()),
    ];
    let style = prop_oneof![4 => Just(0u8), 1 => Just(1u8), 1 => Just(2u8)];
    (name, style.clone(), 0u16..256, any::<Index>(), any::<Index>(), style, any::<bool>())
        .prop_map(|(name, name_style, mods, rot, at, mod_style, dup)| {
            let mut tokens: Vec<String> = KEY_MODS
                .iter()
                .enumerate()
                .filter(|(i, _)| mods & (1 << i) != 0)
                .map(|(_, m)| recase(m, mod_style))
                .collect();
            if !tokens.is_empty() {
                let k = rot.index(tokens.len());
                tokens.rotate_left(k);
                if dup {
                    tokens.push(tokens[0].clone());
                }
            }
            let pos = at.index(tokens.len() + 1);
            // most chords are written modifier-first
            let pos = if pos % 3 == 0 { pos } else { tokens.len() };
            tokens.insert(pos, recase(&name, name_style));
            tokens.join("+")
        })
        .boxed()
}

fn chord_case() -> BoxedStrategy<Case> {
    (pvec(key_text(), 1..=4), 0u8..4)
        .prop_map(|(keys, spacing)| {
            let sep = if spacing == 1 { "  " } else { " " };
            let mut text = keys.join(sep);
            if spacing == 2 {
                text = format!(" {text} ");
            }
            Case::Chord { text }
        })
        .boxed()
}

fn pixel() -> BoxedStrategy<u32> {
    prop_oneof![
        4 => any::<u32>(),
        1 => any::<u32>().prop_map(|p| p | 0xff),
        1 => any::<u32>().prop_map(|p| p & !0xff),
    ]
    .boxed()
}

fn image_case() -> BoxedStrategy<Case> {
    let dim = || prop_oneof![1 => Just(0usize), 6 => 1usize..=8, 2 => 9usize..=20];
    let plain = (dim(), dim()).prop_flat_map(|(h, w)| {
        let crop = prop_oneof![
            2 => Just(None),
            3 => (0..=h, 0..=h, 0..=w, 0..=w).prop_map(|(a, b, c, d)| Some((a.min(b), a.max(b), c.min(d), c.max(d)))),
        ];
        (pvec(pixel(), h * w), crop).prop_map(move |(data, crop)| Case::Image {
            height: h,
            width: w,
            data,
            view: match crop {
                None => ImgView::Full,
                Some((r0, r1, c0, c1)) => ImgView::Crop { r0, r1, c0, c1 },
            },
        })
    });
    let strided = (0usize..=6, 0usize..=6, 0usize..=9, 0usize..=3, 0usize..=5, 0usize..=5).prop_flat_map(
        |(h, w, rs, cs, start, extra)| {
            let need = if h > 0 && w > 0 { start + (h - 1) * rs + (w - 1) * cs + 1 } else { start };
            pvec(pixel(), need + extra).prop_map(move |data| Case::Image {
                height: h,
                width: w,
                data,
                view: ImgView::Strided { start, row_stride: rs, col_stride: cs },
            })
        },
    );
    // pictures whose pixels share a property a serialiser might exploit (all grey, all
    // opaque, all transparent, one colour): "any size and content"
    let classed = (dim(), dim(), 0u8..6).prop_flat_map(|(h, w, class)| {
        let px = move || -> BoxedStrategy<[u8; 4]> {
            match class {
                0 => (any::<u8>(), any::<u8>()).prop_map(|(v, a)| [v, v, v, a]).boxed(),
                1 => any::<u8>().prop_map(|v| [v, v, v, 255]).boxed(),
                2 => (any::<u8>(), prop_oneof![Just(0u8), Just(1u8), Just(254u8), any::<u8>()]).prop_map(|(v, a)| [v, v, v, a]).boxed(),
                3 => any::<[u8; 3]>().prop_map(|c| [c[0], c[1], c[2], 0]).boxed(),
                4 => any::<[u8; 3]>().prop_map(|c| [c[0], c[1], c[2], 255]).boxed(),
                _ => Just([0u8, 0, 0, 0]).boxed(),
            }
        };
        let crop = prop_oneof![
            2 => Just(None),
            1 => (0..=h, 0..=h, 0..=w, 0..=w).prop_map(|(a, b, c, d)| Some((a.min(b), a.max(b), c.min(d), c.max(d)))),
        ];
        (pvec(px(), h * w), crop, any::<[u8; 4]>(), any::<prop::sample::Index>()).prop_map(move |(data, crop, odd, at)| {
            let mut data: Vec<u32> = data.into_iter().map(u32::from_be_bytes).collect();
            // half of the time one pixel breaks the pattern (outside a crop it must not matter)
            if odd[0] & 1 == 1 && !data.is_empty() {
                let i = at.index(data.len());
                data[i] = u32::from_be_bytes(odd);
            }
            Case::Image {
                height: h,
                width: w,
                data,
                view: match crop {
                    None => ImgView::Full,
                    Some((r0, r1, c0, c1)) => ImgView::Crop { r0, r1, c0, c1 },
                },
            }
        })
    });
    prop_oneof![3 => plain, 2 => strided, 2 => classed].boxed()
}

fn image_json_case() -> BoxedStrategy<Case> {
    let dim = || prop_oneof![1 => Just(0usize), 6 => 1usize..=6, 1 => 7usize..=12];
    (
        dim(),
        dim(),
        select(vec![None, Some(1u8), Some(3), Some(4)]),
        0u8..16,
        any::<bool>(),
        proptest::bool::weighted(0.3),
    )
        .prop_flat_map(|(h, w, channels, order, size_as_map, junk)| {
            let c = channels.unwrap_or(3) as usize;
            pvec(any::<u8>(), c * h * w).prop_map(move |bytes| Case::ImageJson {
                height: h,
                width: w,
                channels,
                bytes,
                order,
                size_as_map,
                junk,
            })
        })
        .boxed()
}

// ---------------------------------------------------------------------------------------
// generators, part (b): grammar based documents

/// generated JSON plus bookkeeping: `ext` = fields in the extreme mode, `odd` = fields
/// missing / repeated / of the wrong type
#[derive(Clone, Debug)]
struct G {
    j: J,
    ext: u32,
    odd: u32,
}
type GS = BoxedStrategy<G>;

/// entries contributed by one field of an object
#[derive(Clone, Debug)]
struct F {
    entries: Vec<(String, J)>,
    ext: u32,
    odd: u32,
}
type FS = BoxedStrategy<F>;

fn g(j: J) -> G {
    G { j, ext: 0, odd: 0 }
}
fn lit(j: J) -> GS {
    Just(g(j)).boxed()
}
fn sel(items: Vec<J>) -> GS {
    select(items).prop_map(g).boxed()
}
fn raws(items: &[&str]) -> Vec<J> {
    items.iter().map(|s| J::raw(s)).collect()
}
fn strs(items: &[&str]) -> Vec<J> {
    items.iter().map(|s| J::s(s)).collect()
}

/// weights of the field modes
#[derive(Clone, Copy, Debug)]
struct Prof {
    valid: u32,
    missing: u32,
    repeated: u32,
    wrong: u32,
    extreme: u32,
    /// extreme values are restricted to those the deserialiser accepts (so that the tree
    /// reaches layout and render)
    legal_only: bool,
}
const HOSTILE: Prof = Prof { valid: 45, missing: 12, repeated: 8, wrong: 12, extreme: 23, legal_only: false };
const MILD: Prof = Prof { valid: 78, missing: 4, repeated: 3, wrong: 3, extreme: 12, legal_only: false };
const DEEP: Prof = Prof { valid: 96, missing: 0, repeated: 1, wrong: 0, extreme: 3, legal_only: false };
const PURE: Prof = Prof { valid: 100, missing: 0, repeated: 0, wrong: 0, extreme: 0, legal_only: true };
/// well-typed trees with many extreme but acceptable numbers: the layout / render stress profile
const STRESS: Prof = Prof { valid: 62, missing: 0, repeated: 0, wrong: 0, extreme: 38, legal_only: true };

fn wrong_type() -> BoxedStrategy<J> {
    select(vec![
        J::Null,
        J::Bool(true),
        J::Bool(false),
        J::raw("0"),
        J::raw("-7"),
        J::raw("2.5"),
        J::s(""),
        J::s("x"),
        J::Arr(vec![]),
        J::Obj(vec![]),
        J::Arr(vec![J::raw("1"), J::raw("2")]),
        J::Arr(vec![J::Null]),
        J::obj(&[("a", J::raw("1"))]),
        J::Arr(vec![J::Arr(vec![J::Arr(vec![])])]),
    ])
    .boxed()
}

fn field(key: &'static str, p: Prof, valid: GS, extreme: GS) -> FS {
    let k = key.to_string();
    let k1 = k.clone();
    let k2 = k.clone();
    let k3 = k.clone();
    let second = prop_oneof![valid.clone(), extreme.clone(), wrong_type().prop_map(g)];
    let mut arms: Vec<(u32, FS)> = vec![(
        p.valid.max(1),
        valid
            .clone()
            .prop_map(move |v| F { entries: vec![(k.clone(), v.j)], ext: v.ext, odd: v.odd })
            .boxed(),
    )];
    if p.missing > 0 {
        arms.push((p.missing, Just(F { entries: vec![], ext: 0, odd: 1 }).boxed()));
    }
    if p.repeated > 0 {
        arms.push((
            p.repeated,
            (valid, second, any::<bool>())
                .prop_map(move |(a, b, swap)| {
                    let (x, y) = if swap { (b.j, a.j) } else { (a.j, b.j) };
                    F {
                        entries: vec![(k1.clone(), x), (k1.clone(), y)],
                        ext: a.ext + b.ext,
                        odd: a.odd + b.odd + 1,
                    }
                })
                .boxed(),
        ));
    }
    if p.wrong > 0 {
        arms.push((
            p.wrong,
            wrong_type()
                .prop_map(move |j| F { entries: vec![(k2.clone(), j)], ext: 0, odd: 1 })
                .boxed(),
        ));
    }
    if p.extreme > 0 {
        arms.push((
            p.extreme,
            extreme
                .prop_map(move |v| F { entries: vec![(k3.clone(), v.j)], ext: v.ext + 1, odd: v.odd })
                .boxed(),
        ));
    }
    proptest::strategy::Union::new_weighted(arms).boxed()
}

/// a field that is simply there
fn fixed(key: &'static str, value: GS) -> FS {
    value
        .prop_map(move |v| F { entries: vec![(key.to_string(), v.j)], ext: v.ext, odd: v.odd })
        .boxed()
}

/// optional field: absent half of the time (absence is valid)
fn optional(f: FS) -> FS {
    prop_oneof![Just(F { entries: vec![], ext: 0, odd: 0 }), f].boxed()
}

fn object(fields: Vec<FS>) -> GS {
    (fields, any::<Index>(), any::<bool>())
        .prop_map(|(fields, rot, rev)| {
            let mut entries = Vec::new();
            let (mut ext, mut odd) = (0, 0);
            for f in fields {
                entries.extend(f.entries);
                ext += f.ext;
                odd += f.odd;
            }
            if !entries.is_empty() {
                let k = rot.index(entries.len());
                entries.rotate_left(k);
            }
            if rev {
                entries.reverse();
            }
            G { j: J::Obj(entries), ext, odd }
        })
        .boxed()
}

fn array(items: BoxedStrategy<Vec<G>>) -> GS {
    items
        .prop_map(|items| {
            let ext = items.iter().map(|i| i.ext).sum();
            let odd = items.iter().map(|i| i.odd).sum();
            G { j: J::Arr(items.into_iter().map(|i| i.j).collect()), ext, odd }
        })
        .boxed()
}

/// unsigned values that still deserialise as usize
const BIG_LEGAL: &[&str] = &[
    "0", "1", "2", "255", "65535", "65536", "2147483647", "2147483648", "4294967295", "4294967296",
    "4611686018427387904", "9223372036854775807", "9223372036854775808", "18446744073709551614",
    "18446744073709551615",
];
/// numbers no usize field accepts
const BIG_ILLEGAL: &[&str] = &["18446744073709551616", "-1", "1.5", "1e10", "1e400", "-0.0", "1E2"];

fn big_usize(p: Prof) -> GS {
    if p.legal_only {
        return sel(raws(BIG_LEGAL));
    }
    prop_oneof![
        5 => sel(raws(BIG_LEGAL)),
        1 => sel(raws(BIG_ILLEGAL)),
    ]
    .boxed()
}

fn size_pair_extreme(p: Prof) -> GS {
    let pair = (big_usize(p), big_usize(p));
    if p.legal_only {
        return prop_oneof![
            5 => pair.clone().prop_map(|(a, b)| g(J::Arr(vec![a.j, b.j]))),
            2 => pair.prop_map(|(a, b)| g(J::obj(&[("height", a.j), ("width", b.j)]))),
        ]
        .boxed();
    }
    prop_oneof![
        5 => pair.clone().prop_map(|(a, b)| g(J::Arr(vec![a.j, b.j]))),
        2 => pair.prop_map(|(a, b)| g(J::obj(&[("height", a.j), ("width", b.j)]))),
        1 => big_usize(p).prop_map(|a| g(J::Arr(vec![a.j]))),
        1 => big_usize(p).prop_map(|a| g(J::Arr(vec![a.j.clone(), a.j.clone(), a.j]))),
    ]
    .boxed()
}

const FACES_VALID: &[&str] = &[
    "", "fg=#ff0000", "bg=#00ff00/.5,bold", "underline_curly,italic", "fg=red,bg=#00000080",
    "fg=#fff0f0,bg=black,reverse,strike", " bold , underline ", "blink",
];
const FACES_EXTREME: &[&str] = &[
    "fg=", "fg=#12", "bold=1", "fg=#gggggg", "foo", "fg=red/abc", "fg=#ff0000/1e40", "fg=#ff0000/-1",
    "fg=#ff0000/nan", "fg=#ff0000/inf", "fg=#\u{e9}\u{e9}\u{e9}", "fg=#1234567", ",,,,", "fg=red=blue",
    "underline,underline_double", "bg=#00ff00/",
];

fn face_value(p: Prof) -> (GS, GS) {
    if p.legal_only {
        return (sel(strs(FACES_VALID)), sel(strs(FACES_VALID)));
    }
    (sel(strs(FACES_VALID)), sel(strs(FACES_EXTREME)))
}

const ALIGN_VALID: &[&str] = &["start", "center", "end", "expand", "shrink"];

fn align_field(key: &'static str, p: Prof) -> FS {
    let valid = prop_oneof![
        5 => sel(strs(ALIGN_VALID)),
        2 => (-30i32..30).prop_map(|n| g(J::obj(&[("offset", J::raw(&n.to_string()))]))),
    ]
    .boxed();
    let extreme = if p.legal_only {
        select(vec!["2147483647", "-2147483648", "-2147483647", "65536", "-65536", "21", "-21"])
            .prop_map(|n| g(J::obj(&[("offset", J::raw(n))])))
            .boxed()
    } else {
        prop_oneof![
            4 => select(vec!["2147483647", "-2147483648", "-2147483647", "65536", "-65536", "2147483648", "1.5"])
                .prop_map(|n| g(J::obj(&[("offset", J::raw(n))]))),
            1 => sel(strs(&["offset", "middle", "Start", ""])),
            1 => lit(J::obj(&[("start", J::Null)])),
        ]
        .boxed()
    };
    field(key, p, valid, extreme)
}

const TEXTS: &[&str] = &[
    "", "a", "Space Invaders ", "two\nlines", "tab\there", "wide \u{4e16}\u{754c} chars", "e\u{301} combining",
    "\r\n", "\u{0}\u{1b}[31m", "\u{200b}\u{feff}", "\n\n\n\n\n\n\n\n\n\n\n\n\n",
    "a long line that certainly does not fit into twenty columns of the window",
    "\t\t\t\t\t\t\t\t", "\u{1f600}\u{1f600}\u{1f600}\u{1f600}\u{1f600}\u{1f600}\u{1f600}\u{1f600}\u{1f600}\u{1f600}\u{1f600}",
    "x\u{4e16}", "0123456789012345678\u{4e16}", "ab\rcd",
];

fn text_string() -> GS {
    prop_oneof![
        6 => sel(strs(TEXTS)),
        1 => pvec(select(TEXTS.to_vec()), 2..12).prop_map(|parts| g(J::Str(parts.concat()))),
        1 => pvec(any::<char>(), 0..12).prop_map(|cs| g(J::Str(cs.into_iter().collect()))),
    ]
    .boxed()
}

// ---- image documents

fn image_obj(type_tag: Option<&'static str>, p: Prof) -> GS {
    // an image with an extreme field never deserialises: the acceptable-only profile keeps it valid
    let p = if p.legal_only { PURE } else { p };
    let dim = || prop_oneof![2 => Just(0usize), 6 => 1usize..=5, 1 => 6usize..=32];
    (dim(), dim(), select(vec![1usize, 3, 3, 4])).prop_flat_map(move |(h, w, c)| {
        pvec(any::<u8>(), c * h * w).prop_flat_map(move |bytes| {
            let hw = (J::num(h as u64), J::num(w as u64));
            let size_valid = sel(vec![
                J::Arr(vec![hw.0.clone(), hw.1.clone()]),
                J::Arr(vec![hw.0.clone(), hw.1.clone()]),
                J::obj(&[("height", hw.0.clone()), ("width", hw.1.clone())]),
            ]);
            let size_extreme = prop_oneof![
                6 => size_pair_extreme(p),
                1 => lit(J::Arr(vec![hw.0.clone(), J::num(w as u64 + 1)])),
                1 => lit(J::Arr(vec![hw.1.clone(), hw.0.clone(), J::num(1)])),
                1 => big_usize(p).prop_map({
                    let h = hw.0.clone();
                    move |b| g(J::Arr(vec![h.clone(), b.j]))
                }),
            ]
            .boxed();
            let ch_valid = lit(J::num(c as u64));
            let ch_extreme = prop_oneof![
                5 => sel(raws(&["0", "2", "5", "255", "256", "-1", "1e10", "3.0", "18446744073709551615",
                                "4611686018427387904", "9223372036854775808", "18446744073709551616"])),
                1 => sel(vec![J::s("3"), J::Null]),
                2 => sel(raws(&["1", "3", "4"])),
            ]
            .boxed();
            let good = b64(&bytes);
            let data_valid = lit(J::Str(good.clone()));
            let mut variants = vec![J::s(""), J::s("AAAA"), J::s("A"), J::s("AAAAA"), J::s("===="), J::s("!!!!")];
            if !bytes.is_empty() {
                variants.push(J::Str(b64(&bytes[..bytes.len() - 1])));
                variants.push(J::Str(good.trim_end_matches('=').to_string() + "A"));
                variants.push(J::Str(good.replacen(|c: char| c.is_ascii_alphanumeric(), "\u{e9}", 1)));
                variants.push(J::Str(good.replacen(|c: char| c.is_ascii_alphanumeric(), "*", 2)));
                variants.push(J::Str(format!("{good}\n")));
            }
            let mut longer = bytes.clone();
            longer.push(7);
            variants.push(J::Str(b64(&longer)));
            variants.push(J::Str(b64(&vec![0xa5u8; 3000])));
            let data_extreme = sel(variants);
            let mut fields = vec![
                field("size", p, size_valid, size_extreme),
                field("data", p, data_valid, data_extreme),
            ];
            // absent `channels` means 3
            let ch = field("channels", p, ch_valid, ch_extreme);
            fields.push(if c == 3 { optional(ch) } else { ch });
            if let Some(t) = type_tag {
                fields.push(fixed("type", lit(J::s(t))));
            }
            fields.push(optional(fixed("comment", wrong_type().prop_map(g).boxed())));
            object(fields)
        })
    })
    .boxed()
}

// ---- glyph documents

const PATHS_VALID: &[&str] = &[
    "M1,1 h18 v18 h-18 Z", "M0 0L10 10", "", "M10,10 A5,5 0 1 0 20,20", "M0,0 C1,1 2,2 3,3 S4,4 5,5 Q6,6 7,7 T8,8Z",
    "M20.33 68.63L107.67 68.63Q107.26 73.17 106.02 77.49Z", "M0,0 h1 v1 h-1 z", "m1 1 l2 2 3 3",
];
const PATHS_EXTREME: &[&str] = &[
    "M", "MMMM", "M1e309,0 L1,1", "M 1 2 3", "Z", "A0,0 0 0 0 0,0", "M0,0 A1e308,1e308 0 1 1 5,5",
    "M0,0 A0,0 0 1 1 0,0", "M0,0 L1e308,1e308 L-1e308,-1e308 Z", "M0,0 Ljunk", "L1,1", "M0,0 A1,1 0 2 2 1,1",
    "M-0,-0-0-0", "M.5.5.5.5", "M1-1e-400", "M0,0 C1,1", "M0 0 Q1e300 1e300 1e300 1e300 T1e300 1e300",
    "M0,0 h1e308 h1e308 v1e308 v1e308 z", "\u{4e16}", "M0,0 A5,5 1e308 1 0 20,20", "M0,0 a-5,-5 0 0 0 1,1",
    "M nan nan L inf inf", "M0,0 L1,1 M", "z z z", "M1,1,1,1,1,1,1,1,1,1,1,1,1,1,1",
];
const FLOATS_EXTREME: &[&str] = &[
    "0", "-1", "1e308", "-1e308", "1e-320", "1e400", "18446744073709551615", "-0.0", "1e19", "0.000001",
    "100", "101", "1e30",
];

fn floats_extreme(p: Prof) -> Vec<&'static str> {
    FLOATS_EXTREME.iter().copied().filter(|f| !p.legal_only || *f != "1e400").collect()
}

fn float4(valid: &'static [&'static str], p: Prof) -> (GS, GS) {
    let v = pvec(select(valid.to_vec()), 4)
        .prop_map(|xs| g(J::Arr(xs.into_iter().map(J::raw).collect())))
        .boxed();
    if p.legal_only {
        let e = pvec(select(floats_extreme(p)), 4)
            .prop_map(|xs| g(J::Arr(xs.into_iter().map(J::raw).collect())))
            .boxed();
        return (v, e);
    }
    let e = prop_oneof![
        4 => pvec(select(FLOATS_EXTREME.to_vec()), 4).prop_map(|xs| g(J::Arr(xs.into_iter().map(J::raw).collect()))),
        1 => pvec(select(FLOATS_EXTREME.to_vec()), 3).prop_map(|xs| g(J::Arr(xs.into_iter().map(J::raw).collect()))),
        1 => pvec(select(FLOATS_EXTREME.to_vec()), 5).prop_map(|xs| g(J::Arr(xs.into_iter().map(J::raw).collect()))),
    ]
    .boxed();
    (v, e)
}

fn frame_obj(p: Prof) -> GS {
    let pct: &'static [&'static str] = &["0", "5", "10", "25.5", "50"];
    let colors_v = sel(strs(&["#ff0000", "red", "#00000080", "blue/.5"]));
    let colors_e = if p.legal_only {
        colors_v.clone()
    } else {
        sel(strs(&["", "#12", "notacolor", "#ff0000/x", "#ff0000/1e40"]))
    };
    let mut fields = Vec::new();
    for key in ["margin", "border_width", "border_radius", "padding"] {
        let (v, e) = float4(pct, p);
        fields.push(optional(field(key, p, v, e)));
    }
    fields.push(optional(field("border_color", p, colors_v.clone(), colors_e.clone())));
    fields.push(optional(field("fill_color", p, colors_v, colors_e)));
    object(fields)
}

fn paint() -> (GS, GS) {
    let grad = |kind: &'static str| {
        let stops = J::Arr(vec![
            J::Arr(vec![J::raw("0"), J::s("#ff0000")]),
            J::Arr(vec![J::raw("1"), J::s("#0000ff")]),
        ]);
        if kind == "linear-gradient" {
            J::obj(&[
                ("type", J::s(kind)),
                ("start", J::Arr(vec![J::raw("0"), J::raw("0")])),
                ("end", J::Arr(vec![J::raw("10"), J::raw("10")])),
                ("stops", stops),
            ])
        } else {
            J::obj(&[
                ("type", J::s(kind)),
                ("center", J::Arr(vec![J::raw("5"), J::raw("5")])),
                ("radius", J::raw("5")),
                ("fradius", J::raw("0")),
                ("stops", stops),
            ])
        }
    };
    let valid = sel(vec![J::s("#ff8040"), J::s("red"), J::s("#00000080"), grad("linear-gradient"), grad("radial-gradient")]);
    let extreme = sel(vec![
        J::s(""),
        J::s("#12"),
        J::obj(&[("type", J::s("conic"))]),
        J::obj(&[("type", J::s("linear-gradient")), ("start", J::Arr(vec![J::raw("0"), J::raw("0")])),
                 ("end", J::Arr(vec![J::raw("0"), J::raw("0")])), ("stops", J::Arr(vec![]))]),
        J::obj(&[("type", J::s("linear-gradient")), ("start", J::Arr(vec![J::raw("1e308"), J::raw("-1e308")])),
                 ("end", J::Arr(vec![J::raw("-1e308"), J::raw("1e308")])),
                 ("stops", J::Arr(vec![J::Arr(vec![J::raw("1e308"), J::s("red")]), J::Arr(vec![J::raw("-1"), J::s("#000")])]))]),
        J::obj(&[("type", J::s("radial-gradient")), ("center", J::Arr(vec![J::raw("0"), J::raw("0")])),
                 ("radius", J::raw("0")), ("fradius", J::raw("-1e308")), ("stops", J::Arr(vec![]))]),
        J::obj(&[("type", J::Null)]),
    ]);
    (valid, extreme)
}

fn path_value() -> (GS, GS) {
    let garbage = pvec(
        select("MmLlHhVvCcSsQqTtAaZz0123456789 ,.-+eE".chars().collect::<Vec<_>>()),
        0..24,
    )
    .prop_map(|cs| g(J::Str(cs.into_iter().collect())));
    (
        sel(strs(PATHS_VALID)),
        prop_oneof![3 => sel(strs(PATHS_EXTREME)), 2 => garbage].boxed(),
    )
}

fn scene_obj(depth: u32, p: Prof) -> GS {
    let p = if p.legal_only { PURE } else { p };
    let (pv, pe) = path_value();
    let (paint_v, paint_e) = paint();
    let fill_rule = || {
        optional(field("fill_rule", p, sel(strs(&["nonzero", "evenodd"])), sel(strs(&["foo", "", "NonZero"]))))
    };
    let fill = object(vec![
        fixed("type", lit(J::s("fill"))),
        field("paint", p, paint_v.clone(), paint_e.clone()),
        field("path", p, pv.clone(), pe.clone()),
        fill_rule(),
    ]);
    let stroke = object(vec![
        fixed("type", lit(J::s("stroke"))),
        field("paint", p, paint_v, paint_e),
        field("path", p, pv.clone(), pe.clone()),
        field("width", p, sel(raws(&["1", "0.5", "3"])), sel(floats_extreme(p).into_iter().map(J::raw).collect())),
        optional(field(
            "line_join",
            p,
            sel(vec![J::s("bevel"), J::s("round"), J::obj(&[("miter", J::raw("4"))])]),
            sel(vec![J::obj(&[("miter", J::raw("-1e308"))]), J::obj(&[("miter", J::raw("0"))]), J::s("miter")]),
        )),
        optional(field("line_cap", p, sel(strs(&["butt", "square", "round"])), sel(strs(&["flat", ""])))),
    ]);
    if depth == 0 {
        return prop_oneof![fill, stroke].boxed();
    }
    let child_once = scene_obj(depth - 1, p);
    let child = || child_once.clone();
    let group = object(vec![
        fixed("type", lit(J::s("group"))),
        fixed("children", array(pvec(child(), 0..3).boxed())),
    ]);
    let transform = object(vec![
        fixed("type", lit(J::s("transform"))),
        field(
            "tr",
            p,
            sel(strs(&["translate(7, 7) rotate(45, 7, 7) scale(10)", "scale(2)", "matrix(1 0 0 1 0 0)", ""])),
            sel(strs(&["scale(0)", "scale(1e308) scale(1e308)", "rotate(nan)", "translate(", "matrix(0 0 0 0 0 0)",
                       "skewX(90)", "scale(-1e308, 1e-320)", "bogus(1)"])),
        ),
        fixed("child", child()),
    ]);
    let opacity = object(vec![
        fixed("type", lit(J::s("opacity"))),
        field("opacity", p, sel(raws(&["0.5", "1", "0"])), sel(floats_extreme(p).into_iter().map(J::raw).collect())),
        fixed("child", child()),
    ]);
    let clip = object(vec![
        fixed("type", lit(J::s("clip"))),
        field("clip", p, pv, pe),
        optional(field("units", p, sel(strs(&["userSpaceOnUse", "objectBoundingBox"])), sel(strs(&["px", ""])))),
        fill_rule(),
        fixed("child", child()),
    ]);
    prop_oneof![3 => fill, 2 => stroke, 1 => group, 1 => transform, 1 => opacity, 1 => clip].boxed()
}

fn glyph_obj(type_tag: Option<&'static str>, p: Prof) -> GS {
    let (pv, pe) = path_value();
    let pe = if p.legal_only { pv.clone() } else { pe };
    let vb_valid = sel(vec![
        J::Arr(raws(&["0", "0", "128", "128"])),
        J::Arr(raws(&["1", "0", "24", "21"])),
        J::Arr(raws(&["-10", "-10", "20", "20"])),
    ]);
    let (_, vb_extreme) = float4(&["0"], p);
    let size_valid = sel(vec![
        J::Arr(raws(&["1", "3"])),
        J::Arr(raws(&["1", "2"])),
        J::Arr(raws(&["2", "5"])),
        J::obj(&[("height", J::raw("1")), ("width", J::raw("1"))]),
    ]);
    let fallback_valid = sel(strs(&["", "ab", "\u{4e16}", "[x]"]));
    let fallback_extreme = sel(strs(&[
        "\n\t\r", "a very long fallback text that is wider than the whole window of twenty", "\u{0}",
        "\u{1f600}\u{1f600}\u{1f600}\u{1f600}\u{1f600}\u{1f600}\u{1f600}\u{1f600}\u{1f600}\u{1f600}\u{1f600}\u{1f600}",
        "e\u{301}\u{301}\u{301}", "\n\n\n\n\n\n\n\n\n\n\n\n\n\n",
    ]));
    let common = move |mut fields: Vec<FS>| {
        fields.push(optional(field("view_box", p, vb_valid.clone(), vb_extreme.clone())));
        fields.push(optional(field("size", p, size_valid.clone(), size_pair_extreme(p))));
        fields.push(optional(field("fallback", p, fallback_valid.clone(), fallback_extreme.clone())));
        fields.push(optional(field(
            "fill_rule",
            p,
            sel(strs(&["nonzero", "evenodd"])),
            if p.legal_only { sel(strs(&["nonzero", "evenodd"])) } else { sel(strs(&["foo", "", "EvenOdd"])) },
        )));
        fields.push(optional(field("frame", p, frame_obj(p), frame_obj(if p.legal_only { p } else { HOSTILE }))));
        if let Some(t) = type_tag {
            fields.push(fixed("type", lit(J::s(t))));
        }
        object(fields)
    };
    let with_path = common(vec![field("path", p, pv.clone(), pe.clone())]);
    let hostile = if p.legal_only { PURE } else { HOSTILE };
    let with_scene = common(vec![field("scene", p, scene_obj(2, p), scene_obj(1, hostile))]);
    if p.legal_only {
        return prop_oneof![6 => with_path, 3 => with_scene].boxed();
    }
    let with_both = common(vec![field("path", p, pv, pe), field("scene", p, scene_obj(1, p), scene_obj(0, HOSTILE))]);
    prop_oneof![6 => with_path, 3 => with_scene, 1 => with_both].boxed()
}

// ---- text documents: Text = String | [Text] | {face, text, glyph, wraps}

fn text_doc(depth: u32, p: Prof) -> GS {
    text_doc_with(depth, p, glyph_obj(None, p))
}

fn text_doc_with(depth: u32, p: Prof, glyph: GS) -> GS {
    let (fv, fe) = face_value(p);
    let glyph_entry = object(vec![
        fixed("glyph", glyph.clone()),
        optional(field("face", p, fv.clone(), fe.clone())),
    ]);
    let bad_leaf = sel(vec![J::Null, J::raw("5"), J::Bool(true)]).prop_map(|mut v| {
        v.odd += 1;
        v
    });
    let bad_leaf = if p.legal_only { text_string() } else { bad_leaf.boxed() };
    if depth == 0 {
        return prop_oneof![8 => text_string(), 2 => glyph_entry, 1 => bad_leaf].boxed();
    }
    let inner_once = text_doc_with(depth - 1, p, glyph);
    let inner = || inner_once.clone();
    let arr = array(pvec(inner(), 0..4).boxed());
    let obj = object(vec![
        optional(field("face", p, fv, fe)),
        fixed("text", inner()),
        optional(field("wraps", p, sel(vec![J::Bool(true), J::Bool(false)]), sel(vec![J::s("true"), J::raw("1"), J::Bool(false)]))),
    ]);
    prop_oneof![4 => text_string(), 3 => arr, 3 => obj, 2 => glyph_entry, 1 => bad_leaf].boxed()
}


/// text whose cursor is away from the origin (earlier newline, wrapped or partly filled line,
/// tab) when a glyph arrives whose size is extreme in ONE or both dimensions; everything else
/// about the document is valid, so it reaches layout and render
fn text_positioned_glyph() -> GS {
    let small = || sel(raws(&["0", "1", "2", "3", "19", "20", "21"]));
    let big = || sel(raws(&[
        "65535", "4294967295", "4294967296", "4611686018427387904", "9223372036854775807",
        "9223372036854775808", "18446744073709551613", "18446744073709551614", "18446744073709551615",
    ]));
    let dims = prop_oneof![
        3 => (big(), small()),
        3 => (small(), big()),
        1 => (big(), big()),
    ];
    let glyph = (dims, any::<bool>(), sel(strs(&["M0,0 L10,0 L10,10Z", "M0,0", ""])), sel(strs(&["", "ab", "\u{4e16}"])), any::<bool>())
        .prop_map(|((h, w), as_obj, path, fallback, with_fallback)| {
            let size = if as_obj { J::obj(&[("height", h.j), ("width", w.j)]) } else { J::Arr(vec![h.j, w.j]) };
            let mut fields = vec![("path", path.j), ("size", size)];
            if with_fallback {
                fields.push(("fallback", fallback.j));
            }
            G { j: J::obj(&[("glyph", J::obj(&fields))]), ext: 1, odd: 0 }
        })
        .boxed();
    let lead = sel(strs(&["a\n", "\n", "\n\n\n", "abcd", "x\t", "0123456789012345678", "0123456789012345678901", "\u{4e16}\n\u{4e16}", "a\nbc", ""]));
    let tail = sel(strs(&["", "z", "\n", "tail\n"]));
    (lead, pvec(glyph, 1..3), tail, any::<bool>())
        .prop_map(|(lead, glyphs, tail, wraps)| {
            let ext = glyphs.iter().map(|x| x.ext).sum();
            let mut items = vec![lead.j];
            items.extend(glyphs.into_iter().map(|x| x.j));
            items.push(tail.j);
            let body = J::Arr(items);
            let j = if wraps { body } else { J::obj(&[("text", body), ("wraps", J::Bool(false))]) };
            G { j, ext, odd: 0 }
        })
        .boxed()
}

// ---- view documents

const VIEW_TYPES: &[&str] = &[
    "text", "trace-layout", "flex", "container", "glyph", "image", "image_ascii", "color", "tag", "ref",
];

const FLEX_VALID: &[&str] = &["1", "2", "0.5", "3", "1.0"];
const FLEX_EXTREME: &[&str] = &[
    "-2", "-1", "0", "-0.0", "1e308", "1e-320", "18446744073709551615", "1e19", "-1e308", "-0.5", "1e400",
    "0.0000001", "-3",
];

fn margins_field(p: Prof) -> FS {
    let side = |key: &'static str| {
        optional(field(key, p, sel(raws(&["0", "1", "2", "3"])), big_usize(p)))
    };
    let valid = object(vec![side("left"), side("right"), side("top"), side("bottom")]);
    let inner = if p.legal_only { STRESS } else { HOSTILE };
    let extreme = prop_oneof![
        3 => object(vec![
            field("left", inner, sel(raws(&["1"])), big_usize(p)),
            field("right", inner, sel(raws(&["1"])), big_usize(p)),
            field("top", inner, sel(raws(&["1"])), big_usize(p)),
            field("bottom", inner, sel(raws(&["1"])), big_usize(p)),
        ]),
        1 => lit(if p.legal_only { J::Obj(vec![]) } else { J::Arr(raws(&["1", "1", "1", "1"])) }),
    ]
    .boxed();
    field("margins", p, valid, extreme)
}

fn leaf_view(p: Prof) -> GS {
    let (fv, fe) = face_value(p);
    let text_view = object(vec![
        fixed("type", lit(J::s("text"))),
        fixed("text", text_doc(2, p)),
        optional(field("face", p, fv, fe)),
        optional(field("wraps", p, sel(vec![J::Bool(true), J::Bool(false)]), sel(vec![J::s("no"), J::Null, J::Bool(false)]))),
    ]);
    let reference = object(vec![
        fixed("type", lit(J::s("ref"))),
        field("ref", p, sel(raws(&["0", "7", "-3"])), sel(raws(if p.legal_only {
            &["9223372036854775807", "-9223372036854775808"]
        } else {
            &["9223372036854775807", "9223372036854775808", "1.5", "-9223372036854775808"]
        }))),
    ]);
    let color = object(vec![fixed("type", lit(J::s("color"))), fixed("color", lit(J::s("#ff0000")))]);
    let unknown = object(vec![fixed(
        "type",
        sel(vec![J::s("foo"), J::s(""), J::s("Flex"), J::Null, J::raw("1"), J::Arr(vec![])]).prop_map(|mut v| {
            v.odd += 1;
            v
        }).boxed(),
    )]);
    if p.legal_only {
        return prop_oneof![
            5 => text_view,
            3 => image_obj(Some("image"), p),
            2 => image_obj(Some("image_ascii"), p),
            3 => glyph_obj(Some("glyph"), p),
            1 => reference,
        ]
        .boxed();
    }
    prop_oneof![
        5 => text_view,
        3 => image_obj(Some("image"), p),
        2 => image_obj(Some("image_ascii"), p),
        3 => glyph_obj(Some("glyph"), p),
        1 => reference,
        1 => color,
        1 => unknown,
    ]
    .boxed()
}

fn flex_fields(p: Prof) -> Vec<FS> {
    vec![
        fixed("type", lit(J::s("flex"))),
        optional(field(
            "direction",
            p,
            sel(strs(&["horizontal", "vertical"])),
            if p.legal_only { sel(strs(&["horizontal", "vertical"])) } else { sel(strs(&["diagonal", "", "Vertical"])) },
        )),
        optional(field(
            "justify",
            p,
            sel(strs(&["start", "center", "end", "space-between", "space-around", "space-evenly"])),
            if p.legal_only {
                sel(strs(&["space-between", "space-around", "space-evenly"]))
            } else {
                sel(strs(&["justify", "", "space_between"]))
            },
        )),
    ]
}

fn flex_child_fields(p: Prof) -> Vec<FS> {
    let (fv, fe) = face_value(p);
    let flex_extreme = if p.legal_only {
        sel(FLEX_EXTREME.iter().filter(|f| **f != "1e400").map(|f| J::raw(f)).collect())
    } else {
        prop_oneof![
            6 => sel(raws(FLEX_EXTREME)),
            1 => sel(strs(&["NaN", "inf", "-inf", "1"])),
        ]
        .boxed()
    };
    vec![
        optional(field("flex", p, sel(raws(FLEX_VALID)), flex_extreme)),
        optional(align_field("align", p)),
        optional(field("face", p, fv, fe)),
    ]
}

fn container_fields(p: Prof) -> Vec<FS> {
    let (fv, fe) = face_value(p);
    let size_valid = (0u64..=12, 0u64..=24)
        .prop_map(|(h, w)| g(J::Arr(vec![J::num(h), J::num(w)])))
        .boxed();
    vec![
        fixed("type", lit(J::s("container"))),
        optional(field("face", p, fv, fe)),
        optional(align_field("vertical", p)),
        optional(align_field("horizontal", p)),
        optional(margins_field(p)),
        optional(field("size", p, size_valid, size_pair_extreme(p))),
    ]
}

fn view_doc(depth: u32, p: Prof) -> GS {
    view_doc_with(depth, p, leaf_view(p))
}

fn view_doc_with(depth: u32, p: Prof, leaf: GS) -> GS {
    if depth == 0 {
        return leaf;
    }
    let child_once = view_doc_with(depth - 1, p, leaf.clone());
    let child = || child_once.clone();
    let flex_child = {
        let mut fields = flex_child_fields(p);
        fields.push(fixed("view", child()));
        object(fields)
    };
    let children = array(pvec(prop_oneof![2 => child(), 3 => flex_child], 0..=4).boxed());
    let flex = {
        let mut fields = flex_fields(p);
        fields.push(field("children", Prof { extreme: 0, ..p }, children, lit(J::Null)));
        object(fields)
    };
    let container = {
        let mut fields = container_fields(p);
        fields.push(field("child", Prof { extreme: 0, ..p }, child(), lit(J::Null)));
        object(fields)
    };
    let tag = object(vec![
        fixed("type", lit(J::s("tag"))),
        field("tag", Prof { extreme: 0, ..p }, wrong_type().prop_map(g).boxed(), lit(J::Null)),
        field("view", Prof { extreme: 0, ..p }, child(), lit(J::Null)),
    ]);
    let trace = object(vec![
        fixed("type", lit(J::s("trace-layout"))),
        optional(fixed("msg", sel(vec![J::s("here"), J::raw("5")]))),
        field("view", Prof { extreme: 0, ..p }, child(), lit(J::Null)),
    ]);
    prop_oneof![3 => leaf, 4 => flex, 4 => container, 1 => tag, 1 => trace].boxed()
}

// ---- nesting layers (kept as a flat list so that depth 120 needs no deep strategy and
//      shrinks by dropping layers)

type WS = BoxedStrategy<(Wrap, u32, u32)>;

fn entries_of(v: &G) -> Vec<(String, J)> {
    match &v.j {
        J::Obj(entries) => entries.clone(),
        _ => Vec::new(),
    }
}

fn mk_wrap(fields: GS, key: &'static str, mode: u8, extra: GS) -> WS {
    (fields, extra)
        .prop_map(move |(f, e)| {
            (
                Wrap { fields: entries_of(&f), key: key.to_string(), mode, extra: entries_of(&e) },
                f.ext + e.ext,
                f.odd + e.odd,
            )
        })
        .boxed()
}

fn view_wrap(p: Prof) -> WS {
    let none = || lit(J::Obj(vec![]));
    prop_oneof![
        3 => mk_wrap(object(flex_fields(p)), "children", 1, none()),
        3 => mk_wrap(object(flex_fields(p)), "children", 2, object(flex_child_fields(p))),
        4 => mk_wrap(object(container_fields(p)), "child", 0, none()),
        2 => mk_wrap(
            object(vec![fixed("type", lit(J::s("tag"))), fixed("tag", wrong_type().prop_map(g).boxed())]),
            "view", 0, none()),
        1 => mk_wrap(object(vec![fixed("type", lit(J::s("trace-layout")))]), "view", 0, none()),
    ]
    .boxed()
}

fn text_wrap(p: Prof) -> WS {
    let (fv, fe) = face_value(p);
    prop_oneof![
        3 => Just((Wrap { fields: vec![], key: String::new(), mode: 3, extra: vec![] }, 0, 0)),
        2 => mk_wrap(object(vec![optional(field("face", p, fv, fe))]), "text", 0, lit(J::Obj(vec![]))),
    ]
    .boxed()
}

fn chain_of(wrap: fn(Prof) -> WS) -> BoxedStrategy<(Vec<Wrap>, u32, u32)> {
    let (mild, pure, deep, stress) = (wrap(MILD), wrap(PURE), wrap(DEEP), wrap(STRESS));
    prop_oneof![
        15 => pvec(mild, 0..=3),
        10 => pvec(stress.clone(), 0..=3),
        4 => pvec(pure.clone(), 4..=20),
        2 => pvec(deep.clone(), 4..=20),
        4 => pvec(stress.clone(), 4..=20),
        4 => pvec(pure.clone(), 21..=60),
        2 => pvec(deep.clone(), 21..=60),
        4 => pvec(stress.clone(), 21..=60),
        5 => pvec(pure, 61..=120),
        2 => pvec(deep, 61..=120),
        3 => pvec(stress, 61..=120),
    ]
    .prop_map(|ws| {
        let ext = ws.iter().map(|w| w.1).sum();
        let odd = ws.iter().map(|w| w.2).sum();
        (ws.into_iter().map(|w| w.0).collect(), ext, odd)
    })
    .boxed()
}

fn doc_case() -> BoxedStrategy<Case> {
    let image = prop_oneof![1 => image_obj(None, HOSTILE), 2 => image_obj(None, MILD)].prop_map(|v| Case::Doc {
        target: Target::Image,
        origin: Origin::Grammar,
        chain: vec![],
        body: v.j,
        ext: v.ext,
        odd: v.odd,
        term: None,
        listen: false,
    });
    let glyph = prop_oneof![1 => glyph_obj(None, HOSTILE), 2 => glyph_obj(None, MILD), 1 => glyph_obj(None, STRESS)].prop_map(|v| Case::Doc {
        target: Target::Glyph,
        origin: Origin::Grammar,
        chain: vec![],
        body: v.j,
        ext: v.ext,
        odd: v.odd,
        term: None,
        listen: false,
    });
    let text = (
        chain_of(text_wrap),
        prop_oneof![2 => text_doc(2, HOSTILE), 4 => text_doc(2, MILD), 4 => text_doc(2, STRESS), 1 => text_positioned_glyph()],
    )
        .prop_map(|((chain, e, o), v)| {
        Case::Doc {
            target: Target::Text,
            origin: Origin::Grammar,
            chain,
            body: v.j,
            ext: v.ext + e,
            odd: v.odd + o,
            term: None,
            listen: false,
        }
    });
    // view tree: view layers, optionally ending in a text view with text layers
    let text_tail = (chain_of(text_wrap), prop_oneof![4 => text_doc(1, MILD), 1 => text_positioned_glyph()]).prop_map(|((mut chain, e, o), v)| {
        chain.insert(
            0,
            Wrap {
                fields: vec![("type".to_string(), J::s("text"))],
                key: "text".to_string(),
                mode: 0,
                extra: vec![],
            },
        );
        (chain, v.j, v.ext + e, v.odd + o)
    });
    let leaf_h = leaf_view(HOSTILE);
    let leaf_m = leaf_view(MILD);
    let leaf_s = leaf_view(STRESS);
    let view_tail = prop_oneof![
        1 => leaf_h.clone(),
        2 => leaf_m.clone(),
        2 => leaf_s.clone(),
        1 => view_doc_with(1, HOSTILE, leaf_h.clone()),
        2 => view_doc_with(1, MILD, leaf_m.clone()),
        3 => view_doc_with(1, STRESS, leaf_s.clone()),
        1 => view_doc_with(2, HOSTILE, leaf_h),
        2 => view_doc_with(2, MILD, leaf_m),
        4 => view_doc_with(2, STRESS, leaf_s),
    ]
    .prop_map(|v| (Vec::new(), v.j, v.ext, v.odd));
    let view = (chain_of(view_wrap), prop_oneof![4 => view_tail, 1 => text_tail]).prop_map(
        |((mut chain, e, o), (tail, body, e2, o2))| {
            chain.extend(tail);
            Case::Doc { target: Target::View, origin: Origin::Grammar, chain, body, ext: e + e2, odd: o + o2, term: None, listen: false }
        },
    );
    prop_oneof![3 => image, 3 => glyph, 3 => text, 6 => view].boxed()
}

// ---- arbitrary values and bytes

const ARB_KEYS: &[&str] = &[
    "type", "size", "data", "channels", "text", "glyph", "face", "view", "children", "child", "path", "scene",
    "view_box", "fallback", "fill_rule", "frame", "flex", "align", "margins", "left", "right", "top", "bottom",
    "height", "width", "vertical", "horizontal", "direction", "justify", "tag", "ref", "wraps", "msg", "offset",
    "margin", "border_width", "border_radius", "border_color", "padding", "fill_color", "paint", "tr", "opacity",
    "clip", "units", "stops", "start", "end",
];
const ARB_STRINGS: &[&str] = &[
    "text", "flex", "container", "glyph", "image", "image_ascii", "color", "tag", "ref", "trace-layout", "fill",
    "stroke", "group", "transform", "horizontal", "vertical", "center", "expand", "shrink", "AAAA", "AAAAAAAA",
    "M0,0 h1 v1 z", "fg=red", "#ff0000", "", "nonzero", "linear-gradient",
];
const ARB_NUMS: &[&str] = &[
    "0", "1", "2", "3", "4", "-1", "0.5", "1e308", "-1e308", "255", "4294967296", "9223372036854775807",
    "9223372036854775808", "18446744073709551615", "18446744073709551616", "1e-320", "-0.0",
];

fn arb_j() -> BoxedStrategy<J> {
    let key = prop_oneof![
        8 => select(ARB_KEYS.to_vec()).prop_map(|s| s.to_string()),
        1 => pvec(any::<char>(), 0..4).prop_map(|cs| cs.into_iter().collect::<String>()),
    ];
    let leaf = prop_oneof![
        1 => Just(J::Null),
        1 => any::<bool>().prop_map(J::Bool),
        3 => select(ARB_NUMS.to_vec()).prop_map(J::raw),
        1 => any::<i64>().prop_map(|n| J::Num(n.to_string())),
        1 => any::<f64>().prop_filter("finite", |f| f.is_finite()).prop_map(|f| J::Num(format!("{f:e}"))),
        4 => select(ARB_STRINGS.to_vec()).prop_map(J::s),
        1 => pvec(any::<char>(), 0..6).prop_map(|cs| J::Str(cs.into_iter().collect())),
    ];
    leaf.prop_recursive(5, 40, 5, move |inner| {
        prop_oneof![
            1 => pvec(inner.clone(), 0..5).prop_map(J::Arr),
            2 => pvec((key.clone(), inner), 0..6).prop_map(J::Obj),
        ]
    })
    .boxed()
}

fn arbitrary_case() -> BoxedStrategy<Case> {
    let target = select(vec![Target::Image, Target::Glyph, Target::Text, Target::View, Target::View]);
    (target, arb_j(), proptest::option::weighted(0.6, select(VIEW_TYPES.to_vec())))
        .prop_map(|(target, mut body, ty)| {
            if target == Target::View {
                if let (Some(t), J::Obj(entries)) = (ty, &mut body) {
                    entries.insert(0, ("type".to_string(), J::s(t)));
                }
            }
            Case::Doc { target, origin: Origin::Arbitrary, chain: vec![], body, ext: 0, odd: 0, term: None, listen: false }
        })
        .boxed()
}

fn bytes_case() -> BoxedStrategy<Case> {
    let target = || select(vec![Target::Image, Target::Glyph, Target::Text, Target::View]);
    let raw = (target(), pvec(any::<u8>(), 0..64))
        .prop_map(|(target, bytes)| Case::Bytes { target, bytes, mutated: false, term: None, listen: false });
    let soup_tokens: Vec<&'static str> = vec![
        "{", "}", "[", "]", ":", ",", "\"", "\\", "\\u", "d800", "0", "1", "-", "e", "E", ".", "9", "true", "false",
        "null", " ", "\"type\"", "\"size\"", "\"data\"", "\"channels\"", "\"text\"", "\"flex\"", "\"image\"",
        "\"glyph\"", "\"path\"", "\"view\"", "\"children\"", "\"child\"", "\"container\"", "\"AAAA\"", "\u{e9}",
    ];
    let soup = (target(), pvec(select(soup_tokens), 0..40)).prop_map(|(target, toks)| Case::Bytes {
        target,
        bytes: toks.concat().into_bytes(),
        mutated: false,
        term: None,
        listen: false,
    });
    let mutated = (doc_case(), 0u8..6, any::<Index>(), any::<u8>(), 1usize..6).prop_map(|(case, kind, at, byte, len)| {
        let Case::Doc { target, chain, body, .. } = case else { unreachable!() };
        // keep the text short enough to stay a useful witness
        let chain: Vec<Wrap> = chain.into_iter().take(12).collect();
        let mut bytes = build_doc(&chain, &body).render().into_bytes();
        if !bytes.is_empty() {
            let i = at.index(bytes.len());
            match kind {
                0 => bytes.truncate(i),
                1 => bytes[i] = byte,
                2 => bytes.insert(i, byte),
                3 => {
                    let end = (i + len).min(bytes.len());
                    bytes.drain(i..end);
                }
                4 => {
                    let end = (i + len * 4).min(bytes.len());
                    let slice = bytes[i..end].to_vec();
                    for (k, b) in slice.into_iter().enumerate() {
                        bytes.insert(i + k, b);
                    }
                }
                _ => bytes.extend_from_slice(b" x"),
            }
        }
        Case::Bytes { target, bytes, mutated: true, term: None, listen: false }
    });
    prop_oneof![2 => raw, 2 => soup, 5 => mutated].boxed()
}

// ---- terminal configurations for the layout + render part

/// What `Terminal::size` may report (both fields of `TerminalSize` are public, `ViewContext::new`
/// takes any of them): most often a terminal that does not know its size in pixels (pixels 0x0
/// => 0x0 pixels per cell), else fewer pixels than cells in one or both directions (integer
/// division => a zero extent), or a cell size other than the standing one (1x1, odd remainders,
/// cells larger than every generated picture), on terminals of 24x80, 1x1, 50x200 and 0x0 cells.
fn term_cfg() -> BoxedStrategy<TermCfg> {
    let cells = prop_oneof![
        6 => Just((24usize, 80usize)),
        1 => Just((1usize, 1usize)),
        1 => Just((50usize, 200usize)),
        1 => Just((0usize, 0usize)),
    ];
    let ppc = select(vec![(1usize, 1usize), (2, 1), (7, 3), (16, 8), (37, 15), (64, 64)]);
    (cells, 0u8..10, ppc, 0usize..4, 0usize..4)
        .prop_map(|(cells, kind, ppc, rem_h, rem_w)| {
            let pixels = match kind {
                // no pixel size known
                0..=4 => (0, 0),
                // fewer pixels than cells in one direction / in both
                5 => (cells.0 * ppc.0 + rem_h, cells.1 / 2),
                6 => (cells.0 / 2, cells.1 * ppc.1 + rem_w),
                7 => (cells.0 / 2, cells.1 / 2),
                // whole cells, possibly with a remainder
                _ => (cells.0 * ppc.0 + rem_h.min(cells.0.saturating_sub(1)), cells.1 * ppc.1 + rem_w.min(cells.1.saturating_sub(1))),
            };
            TermCfg { cells, pixels }
        })
        .boxed()
}

/// half of the document cases are exercised under a further terminal as well
fn under_term(cases: BoxedStrategy<Case>) -> BoxedStrategy<Case> {
    (cases, proptest::option::weighted(0.5, term_cfg()))
        .prop_map(|(mut case, t)| {
            match &mut case {
                Case::Doc { term, .. } | Case::Bytes { term, .. } => *term = t,
                _ => {}
            }
            case
        })
        .boxed()
}

/// half of the document cases run with a `tracing` subscriber installed
fn under_listener(cases: BoxedStrategy<Case>) -> BoxedStrategy<Case> {
    (cases, any::<bool>())
        .prop_map(|(mut case, on)| {
            match &mut case {
                Case::Doc { listen, .. } | Case::Bytes { listen, .. } => *listen = on,
                _ => {}
            }
            case
        })
        .boxed()
}

// ---------------------------------------------------------------------------------------

impl Property for C19 {
    type Case = Case;

    fn id(&self) -> &'static str {
        "C19"
    }

    fn claims_termination(&self) -> bool {
        true
    }

    fn case_timeout_s(&self) -> u64 {
        60
    }

    fn isolate(&self) -> bool {
        true
    }

    fn strategy(&self, _tier: Tier) -> BoxedStrategy<Case> {
        prop_oneof![
            2 => face_case(),
            1 => size_case(),
            2 => chord_case(),
            2 => image_case(),
            2 => image_json_case(),
            12 => under_listener(under_term(doc_case())),
            3 => under_listener(under_term(arbitrary_case())),
            3 => under_listener(under_term(bytes_case())),
        ]
        .boxed()
    }

    fn check(&self, case: &Case) -> Outcome {
        check_case(case)
    }

    fn cases(&self, tier: Tier) -> u32 {
        tier.pick(4_000, 60_000)
    }

    fn rule(&self) -> String {
        "(a) faces: fg/bg None or any RGBA (alpha biased to 255/0/254/any), any subset of bold/italic/blink/reverse/strike x 6 underline styles; \
         sizes: u64 pairs incl. 2^53+-1, 2^63, 2^64-1; chords: 1..4 keys from generated well-formed text (modifier subsets of the 8 parseable modifiers in any order/case, \
         duplicated modifiers, names of the parser's table, f<n> with leading zeros up to f<2^64-1>, the 46 single characters); images 0x0..20x20 with random RGBA pixels, \
         full / cropped (in-bounds row and column ranges, possibly empty) / strided `from_parts` views (start, row stride 0..9, col stride 0..3); hand-written image JSON \
         (own base64 encoder) in 1/3/4-channel layouts and with `channels` absent, key order permuted, size as array or map, unknown extra key. \
         (b) grammar documents for image / glyph (path or scene grammar, frame, view_box) / text / view trees (flex, container, tag, trace-layout, text, image, image_ascii, glyph, ref, color, unknown) \
         where each field is independently valid / missing / repeated / wrong type / extreme (sizes 0,1,2^31,2^32,2^62,2^63,2^64-1 and non-usize numbers; data of wrong length, invalid alphabet, \
         length not a multiple of 4; channels 0/2/5/255/-1/1e10; huge margins, container sizes, offsets; flex factors negative/zero/huge/denormal/strings), wrapped in 0..120 nesting layers \
         (flex/container/tag/trace-layout, text arrays/objects); arbitrary JSON values biased to the deserialisers' key names; raw bytes, JSON token soup and byte-mutated grammar documents. \
         Each document goes through from_slice and (when it is a JSON value) through serde_json::Value; everything that deserialises is laid out under loose 0x0, loose 10x20, tight 3x7 with and \
         without glyph support and rendered into a window of a sentinel canvas, in the ViewContext::new context of a 24x80-cell terminal with 20x10 pixels per cell and, for half of the \
         documents, of one further generated terminal as well: no pixel size known (pixels 0x0 => 0x0 pixels per cell; half of the further terminals), fewer pixels than cells in one or both \
         directions (a zero cell extent), or another cell size (1x1, 2x1, 7x3, 16x8, 37x15, 64x64, with pixel remainders), on 24x80 / 1x1 / 50x200 / 0x0 cells. \
         Half of the document / value / bytes cases (a generated bool) run deserialisation, layout and render while a hand-written tracing::Subscriber is this thread's default \
         (tracing::subscriber::with_default): interested in every level (callsite interest `sometimes`), it formats every field of every event, new span and span record \
         with {:?} into a discarding sink, so the library's field expressions and the Debug/Display impls of the recorded values run (labels tracing-subscriber/...). \
         non-trivial = (a) alpha != 255 or >= 2 attributes or non-straight underline; height != width; >= 2 keys or a modifier; >= 2 pixels; \
         (b) grammar document with >= 1 extreme/missing/repeated/wrong-typed field or nesting >= 32; arbitrary value that is an object or deserialises; mutated grammar document or bytes that deserialise"
            .into()
    }

    fn assumptions(&self) -> Vec<String> {
        vec![
            "every case runs in a worker process with RLIMIT_AS = 1 GiB and the default 8 MiB main-thread stack; a dead worker (abort, stack overflow, failed allocation) is a violation".into(),
            "the harness is built with overflow checks: an arithmetic overflow that would wrap silently in a plain release build is observed as a panic".into(),
            "'laid out and rendered' = View::layout then View::render into a TerminalSurface (a window of a 14x26 sentinel canvas); rasterising glyph cells (TerminalRenderer) is not part of it".into(),
            "an Err returned by layout/render of a deserialised view counts as 'cannot be laid out/rendered'".into(),
            "'can be laid out and rendered' names no context, so it is read over every context the public constructor ViewContext::new yields for a value of TerminalSize (both fields are public): in particular the terminal that reports no pixel size (pixels 0x0; src/unix.rs handles `pixels.is_empty()`, TerminalSize::pixels_per_cell then returns 0x0). Only panics, errors and writes outside the window are judged there, not what is drawn; failures under a further terminal carry the terminal class in the signature (view-layout/no-pixel-size/..., .../zero-cell-extent/..., .../other-cell-size/...)".into(),
            "a case that does not finish within the per-case time limit twice in a row (second try with twice the time in a fresh worker) is reported as a violation (`terminate/case-did-not-finish`): the statement says deserialisation returns a value or an error".into(),
            "'never panics' and 'can be laid out and rendered' name no process configuration, so they are read over processes with and without a `tracing` subscriber installed (the library reports through tracing; installing a subscriber is what its own examples do). The subscriber used is the most demanding ordinary one: every level enabled, every field formatted (as tracing_subscriber::fmt at TRACE does), output discarded. Nothing about the content of events is judged; only the existing oracles (no panic, no error from layout/render, no write outside the window, termination). A failure under the subscriber is run once more without it: if it fails there too the plain signature is reported, else the signature is prefixed `tracing-subscriber/`".into(),
            "key chords with mouse keys, NUMLOCK or characters outside the printable key syntax cannot be written in the textual syntax and are outside the property".into(),
            "repeated keys exist only on the text path (serde_json::Value keeps the last one)".into(),
        ]
    }

    fn max_shrink_iters(&self) -> u32 {
        400
    }
}
