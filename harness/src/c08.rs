//! C08 — row/column range arguments resolve with Python-style slice semantics.
//!
//! Oracle: an arbitrary-precision (i128) reference resolver written from the NumPy/Python
//! slicing rules, compared with `ViewBounds::view_bounds` for every selector form and
//! every integer type.  The 8-bit sub-space is enumerated exhaustively.

use crate::engine::*;
use proptest::prelude::*;
use serde::{Deserialize, Serialize};
use surf_n_term::surface::ViewBounds;

pub struct C08;

#[derive(Clone, Copy, Debug, PartialEq, Eq, Serialize, Deserialize)]
pub enum Form {
    Index,
    Range,
    From,
    To,
    Incl,
    ToIncl,
    Full,
}

#[derive(Clone, Copy, Debug, PartialEq, Eq, Serialize, Deserialize)]
pub enum Ty {
    U8,
    I8,
    U16,
    I16,
    U32,
    I32,
    U64,
    I64,
    Usize,
    Isize,
}

pub const ALL_TYS: [Ty; 10] = [
    Ty::U8,
    Ty::I8,
    Ty::U16,
    Ty::I16,
    Ty::U32,
    Ty::I32,
    Ty::U64,
    Ty::I64,
    Ty::Usize,
    Ty::Isize,
];

impl Ty {
    pub fn range(self) -> (i128, i128) {
        match self {
            Ty::U8 => (0, u8::MAX as i128),
            Ty::I8 => (i8::MIN as i128, i8::MAX as i128),
            Ty::U16 => (0, u16::MAX as i128),
            Ty::I16 => (i16::MIN as i128, i16::MAX as i128),
            Ty::U32 => (0, u32::MAX as i128),
            Ty::I32 => (i32::MIN as i128, i32::MAX as i128),
            Ty::U64 | Ty::Usize => (0, u64::MAX as i128),
            Ty::I64 | Ty::Isize => (i64::MIN as i128, i64::MAX as i128),
        }
    }
    pub fn fits(self, v: i128) -> bool {
        let (lo, hi) = self.range();
        lo <= v && v <= hi
    }
}

#[derive(Clone, Debug, Serialize, Deserialize)]
pub struct Case {
    pub n: u64,
    pub form: Form,
    pub ty: Ty,
    pub a: i128,
    pub b: i128,
}

/// Python/NumPy slice resolution in arbitrary precision.
pub fn reference(n: u64, form: Form, a: i128, b: i128) -> Option<(usize, usize)> {
    let n = n as i128;
    if n == 0 {
        return None;
    }
    // exclusive bound, like slice.indices(): negative counts from the end, then clamp
    let norm = |x: i128| -> i128 { if x < 0 { (x + n).max(0) } else { x.min(n) } };
    // inclusive end: "one past that element"; an element before the axis start selects nothing
    let incl_end = |e: i128| -> i128 {
        let elem = if e < 0 { e + n } else { e };
        if elem < 0 { 0 } else { (elem + 1).min(n) }
    };
    let (start, end) = match form {
        Form::Index => {
            if a < -n || a >= n {
                return None;
            }
            let i = if a < 0 { a + n } else { a };
            (i, i + 1)
        }
        Form::Range => (norm(a), norm(b)),
        Form::From => (norm(a), n),
        Form::To => (0, norm(b)),
        Form::Incl => (norm(a), incl_end(b)),
        Form::ToIncl => (0, incl_end(b)),
        Form::Full => (0, n),
    };
    if start < end {
        Some((start as usize, end as usize))
    } else {
        None
    }
}

macro_rules! call_ty {
    ($t:ty, $form:expr, $a:expr, $b:expr, $n:expr) => {{
        let a = $a as $t;
        let b = $b as $t;
        match $form {
            Form::Index => a.view_bounds($n),
            Form::Range => (a..b).view_bounds($n),
            Form::From => (a..).view_bounds($n),
            Form::To => (..b).view_bounds($n),
            Form::Incl => (a..=b).view_bounds($n),
            Form::ToIncl => (..=b).view_bounds($n),
            Form::Full => (..).view_bounds($n),
        }
    }};
}

pub fn call(ty: Ty, form: Form, a: i128, b: i128, n: usize) -> Option<(usize, usize)> {
    match ty {
        Ty::U8 => call_ty!(u8, form, a, b, n),
        Ty::I8 => call_ty!(i8, form, a, b, n),
        Ty::U16 => call_ty!(u16, form, a, b, n),
        Ty::I16 => call_ty!(i16, form, a, b, n),
        Ty::U32 => call_ty!(u32, form, a, b, n),
        Ty::I32 => call_ty!(i32, form, a, b, n),
        Ty::U64 => call_ty!(u64, form, a, b, n),
        Ty::I64 => call_ty!(i64, form, a, b, n),
        Ty::Usize => call_ty!(usize, form, a, b, n),
        Ty::Isize => call_ty!(isize, form, a, b, n),
    }
}

fn classify(c: &Case) -> String {
    let n = c.n as i128;
    let ty_class = match c.ty {
        Ty::I8 | Ty::U8 | Ty::I16 | Ty::U16 | Ty::I32 | Ty::U32
            if c.n as i128 > c.ty.range().1 =>
        {
            "axis-longer-than-selector-type"
        }
        Ty::I8 | Ty::I16 | Ty::I32 if (2 * n - 1) > c.ty.range().1 => "narrow-signed-2n",
        Ty::U64 | Ty::Usize if c.a > i64::MAX as i128 || c.b > i64::MAX as i128 => {
            "unsigned-above-i63"
        }
        Ty::I64 | Ty::Isize
            if c.a.checked_add(n).map(|v| !Ty::I64.fits(v)).unwrap_or(true)
                || c.b.checked_add(n).map(|v| !Ty::I64.fits(v)).unwrap_or(true) =>
        {
            "i64-extreme"
        }
        _ => "in-range",
    };
    let bound_class = match c.form {
        Form::Incl | Form::ToIncl if c.b < -n => "incl-end-below-axis",
        _ => "plain",
    };
    format!("resolve/{:?}/{}/{}", c.form, ty_class, bound_class)
}

pub fn check_case(c: &Case) -> Outcome {
    let want = reference(c.n, c.form, c.a, c.b);
    let got = guard_val(|| call(c.ty, c.form, c.a, c.b, c.n as usize)).map_err(|f| {
        Fail::new(
            format!("{}+{}", classify(c), f.sig),
            format!("{:?}: {}", c, f.msg),
        )
    })?;
    ensure!(
        got == want,
        classify(c),
        "{:?}: view_bounds = {:?}, Python-slice reference = {:?}",
        c,
        got,
        want
    );
    if let Some((s, e)) = got {
        ensure!(
            s < e && e as u64 <= c.n,
            "invariant/0<=start<end<=n",
            "{:?}: got {:?}",
            c,
            got
        );
    }
    // same answer for every integer type in which the selector can be written
    for ty in ALL_TYS {
        if ty != c.ty && ty.fits(c.a) && ty.fits(c.b) {
            let other = guard_val(|| call(ty, c.form, c.a, c.b, c.n as usize)).map_err(|f| {
                let c2 = Case { ty, ..c.clone() };
                Fail::new(
                    format!("{}+{}", classify(&c2), f.sig),
                    format!("{:?}: {}", c2, f.msg),
                )
            })?;
            if other != want {
                let c2 = Case { ty, ..c.clone() };
                return Err(Fail::new(
                    classify(&c2),
                    format!(
                        "{:?}: view_bounds = {:?}, reference = {:?} (same selector as {:?} written in another type)",
                        c2, other, want, c.ty
                    ),
                ));
            }
        }
    }
    let n = c.n as i128;
    let out = |x: i128| x < -n || x >= n;
    let nontrivial = match c.form {
        Form::Index => out(c.a) || c.a < 0,
        Form::Range => out(c.a) || out(c.b) || c.a < 0 || c.b < 0,
        Form::From => out(c.a) || c.a < 0,
        Form::To => out(c.b) || c.b < 0,
        Form::Incl | Form::ToIncl => true,
        Form::Full => false,
    };
    Ok(Pass::new(nontrivial)
        .label(format!("{:?}", c.form))
        .label_if(want.is_none(), "empty"))
}

fn bound_strategy(ty: Ty, n: u64) -> BoxedStrategy<i128> {
    let (lo, hi) = ty.range();
    let n = n as i128;
    let specials: Vec<i128> = [
        lo,
        lo + 1,
        -n - 2,
        -n - 1,
        -n,
        -n + 1,
        -2,
        -1,
        0,
        1,
        2,
        n / 2,
        n - 1,
        n,
        n + 1,
        2 * n - 1,
        2 * n,
        i8::MAX as i128,
        i8::MAX as i128 + 1,
        i16::MAX as i128 + 1,
        i32::MAX as i128 + 1,
        i64::MAX as i128,
        i64::MAX as i128 + 1,
        hi - 1,
        hi,
    ]
    .into_iter()
    .filter(|v| *v >= lo && *v <= hi)
    .collect();
    let near_lo = (-n - 3).max(lo);
    let near_hi = (n + 3).min(hi);
    prop_oneof![
        3 => proptest::sample::select(specials),
        3 => near_lo..=near_hi,
        1 => lo..=hi,
    ]
    .boxed()
}

fn form_strategy() -> BoxedStrategy<Form> {
    prop_oneof![
        2 => Just(Form::Index),
        3 => Just(Form::Range),
        1 => Just(Form::From),
        1 => Just(Form::To),
        3 => Just(Form::Incl),
        2 => Just(Form::ToIncl),
    ]
    .boxed()
}

impl Property for C08 {
    type Case = Case;

    fn fuzz(&self) -> Option<FuzzSpec> {
        // entropy-driven target: libFuzzer's bytes replace the generator's random numbers
        Some(FuzzSpec { target: "gen", jobs: 8, runs: 1_500_000, max_len: 256, seeds: 64 })
    }

    fn id(&self) -> &'static str {
        "C08"
    }

    fn strategy(&self, _tier: Tier) -> BoxedStrategy<Case> {
        let n = prop_oneof![
            4 => 0u64..=12,
            2 => 13u64..=300,
            1 => proptest::sample::select(vec![
                63u64, 64, 65, 127, 128, 129, 255, 256, 257, 32767, 32768, 65535, 65536,
                (1 << 31) - 1, 1 << 31, (1 << 32) - 1, 1 << 32, 1 << 40
            ]),
            1 => 301u64..=(1 << 40),
            // "for every axis length": the resolver takes any usize, also lengths no surface can
            // have; the arithmetic around 2^63 and 2^64 is where a 64-bit intermediate gives out
            1 => proptest::sample::select(vec![
                (1u64 << 62) - 1, 1 << 62, (1 << 63) - 2, (1 << 63) - 1, 1 << 63, (1 << 63) + 1, (1 << 63) + 2,
                u64::MAX / 3, u64::MAX - 2, u64::MAX - 1, u64::MAX
            ]),
            1 => (1u64 << 40)..=u64::MAX,
        ];
        (n, proptest::sample::select(ALL_TYS.to_vec()), form_strategy())
            .prop_flat_map(|(n, ty, form)| {
                (bound_strategy(ty, n), bound_strategy(ty, n))
                    .prop_map(move |(a, b)| Case { n, form, ty, a, b })
            })
            .boxed()
    }

    fn check(&self, case: &Case) -> Outcome {
        check_case(case)
    }

    fn cases(&self, tier: Tier) -> u32 {
        tier.pick(400_000, 4_000_000)
    }

    fn rule(&self) -> String {
        "sweep: every selector form x every value of i8/u8 (both bounds) x axis lengths 0..=40,127,128,129,255,256,300 (exhaustive); \
         generated: axis length up to 2^64-1 (two cases in ten above 2^40, biased to 2^62, 2^63 +-2 and 2^64-1), all 10 integer types, bounds biased to {MIN, -n-1, -n, -1, 0, n-1, n, n+1, 2n, type widths, MAX} plus uniform. \
         Every case is compared with an i128 Python-slice reference and re-resolved in every other integer type that can hold the same bounds. \
         non-trivial = inclusive form, or a negative bound, or a bound outside [-n, n)".into()
    }

    fn assumptions(&self) -> Vec<String> {
        vec![
            "reference semantics: exclusive bounds as Python slice.indices(); inclusive end e selects through element e (negative e counts from the end; an element before index 0 selects nothing; e >= n clamps to the axis end); single index valid iff -n <= i < n".into(),
            "axis lengths above 2^40 cannot belong to an allocated surface; they are generated all the same because the statement quantifies over every axis length and view_bounds accepts any usize (64-bit usize assumed)".into(),
        ]
    }

    fn sweep(&self, tier: Tier, _seed: u64, sw: &mut Sweep) -> Result<(), (Case, Fail)> {
        let mut lens: Vec<u64> = (0..=40).collect();
        lens.extend([127, 128, 129, 255, 256, 300]);
        if tier == Tier::Thorough {
            lens.extend(41..=126);
            lens.extend([130, 200, 254, 257, 511, 512, 1000, 65535, 65536, 1 << 32]);
        }
        let forms = [
            Form::Index,
            Form::Range,
            Form::From,
            Form::To,
            Form::Incl,
            Form::ToIncl,
            Form::Full,
        ];
        for &n in &lens {
            for ty in [Ty::I8, Ty::U8] {
                let (lo, hi) = ty.range();
                for form in forms {
                    let (ar, br): (Vec<i128>, Vec<i128>) = match form {
                        Form::Index | Form::From => ((lo..=hi).collect(), vec![0]),
                        Form::To | Form::ToIncl => (vec![0], (lo..=hi).collect()),
                        Form::Range | Form::Incl => ((lo..=hi).collect(), (lo..=hi).collect()),
                        Form::Full => (vec![0], vec![0]),
                    };
                    for &a in &ar {
                        for &b in &br {
                            let c = Case { n, form, ty, a, b };
                            sw.evaluations += 1;
                            let want = reference(n, form, a, b);
                            let got = match guard_val(|| call(ty, form, a, b, n as usize)) {
                                Ok(g) => g,
                                Err(f) => {
                                    return Err((
                                        c.clone(),
                                        Fail::new(format!("{}+{}", classify(&c), f.sig), f.msg),
                                    ));
                                }
                            };
                            if got != want {
                                return Err((
                                    c.clone(),
                                    Fail::new(
                                        classify(&c),
                                        format!(
                                            "{:?}: view_bounds = {:?}, reference = {:?}",
                                            c, got, want
                                        ),
                                    ),
                                ));
                            }
                            let nn = n as i128;
                            if a < 0 || b < 0 || a >= nn || b >= nn || matches!(form, Form::Incl | Form::ToIncl) {
                                sw.nontrivial += 1;
                            }
                        }
                    }
                }
            }
        }
        sw.exhaustive_note = Some(format!(
            "all selector forms x all i8 and u8 bound values x {} axis lengths",
            lens.len()
        ));
        sw.samples.push(serde_json::json!({"n": 10, "form": "ToIncl", "ty": "I8", "b": -11}));
        *sw.labels.entry("sweep-8bit".into()).or_default() += sw.evaluations;
        Ok(())
    }
}
