//! C03 — decoded events do not depend on read boundaries and follow longest-match rules.
//!
//! (a) production decoders (event + command) on `hostile::input`: the token list (items and
//!     input spans, via the verif hook) must be identical for the single-buffer run, the
//!     byte-at-a-time run, three generated partitions (incl. empty reads) and — for inputs up
//!     to 48 bytes — EVERY single cut position; the generated partitions and every third single
//!     cut also through one reader that fails with WouldBlock / Interrupted between the chunks
//!     (the failed `Decoder::decode` call is repeated).  The single-buffer run is then validated
//!     against the leftmost-longest rule using the production automaton's own per-prefix
//!     acceptance trace (independent of the candidate/reschedule logic under test).
//! (b) the tokeniser core instantiated (hook) over generated pattern sets built through the
//!     public NFA API, validated against the Brzozowski-derivative reference (`refre`).

use crate::engine::*;
use crate::hostile;
use crate::refre::{Re, re_strategy};
use proptest::prelude::*;
use serde::{Deserialize, Serialize};
use std::collections::BTreeSet;
use surf_n_term::decoder::verif_hooks::{
    CommandTokenizer, EventTokenizer, Token, Tokenizer, command_trace, event_trace,
};

pub struct C03;

#[derive(Clone, Debug, Serialize, Deserialize)]
pub enum Case {
    Production { input: Vec<u8>, parts: Vec<Vec<u16>> },
    Core { patterns: Vec<Re>, via_decode: bool, input: Vec<u8>, parts: Vec<Vec<u16>> },
    /// (c) the tty read loop: `pad` printable bytes, then `input`, typed into a pseudo-terminal
    /// in the chunks given by `cuts`; `lockstep` = the next chunk is typed only after the
    /// terminal object has read everything typed so far, otherwise a thread types the chunks
    /// `pause_us` apart while the terminal object is polling
    ///
    /// `early` = part of the typed stream arrives while `SystemTerminal::open` is still probing
    /// the terminal (see `Early`)
    Tty {
        pad: u16,
        input: Vec<u8>,
        cuts: Vec<u16>,
        lockstep: bool,
        pause_us: u16,
        #[serde(default)]
        early: Option<Early>,
    },
}

/// Input that reaches the tty while the terminal object is being constructed: the typed stream
/// is `head` + pad + input, and a non-empty prefix of it that does not yet complete any event
/// (a strict prefix of one sequence: `ESC`, `ESC [ 1 ;`, the first bytes of a multi-byte
/// character, an unterminated OSC or paste ...) is sent by the emulator right behind its reply to the
/// DA1 request that ends the library's capability probing; the rest is typed after `open()`
/// has returned.
#[derive(Clone, Debug, Serialize, Deserialize)]
pub struct Early {
    /// one sequence (recognised, malformed or bare introducer) put in front of the typed stream
    head: Vec<u8>,
    /// which part of the longest event-free prefix is sent during open (fraction of its length)
    cut: u16,
    /// in the same write as the DA1 reply; otherwise in a write of its own directly after it
    same_write: bool,
}

/// the most that is sent during open (stays well below the pty's input buffer, so that the
/// peer's single write cannot block or come up short)
const EARLY_MAX: usize = 512;

/// Length of the longest prefix of `bytes` on which the event decoder emits nothing (every byte
/// of it is still pending inside the decoder): no complete event can fall into the probing
/// phase when such a prefix is delivered there.
fn event_free_prefix(bytes: &[u8]) -> Result<usize, Fail> {
    let mut t = EventTokenizer::new();
    let mut out = Vec::new();
    let mut n = 0usize;
    for b in bytes.iter().take(EARLY_MAX) {
        t.feed(std::slice::from_ref(b), &mut out).map_err(|e| Fail::new("event/io-error", format!("{e:?}")))?;
        if !out.is_empty() || t.pending() != n + 1 {
            break;
        }
        n += 1;
    }
    Ok(n)
}

const ALPHA: &[u8] = b"abc\x1b";

fn esc(b: &[u8]) -> String {
    String::from_utf8_lossy(b).escape_debug().to_string()
}

/// What the tokeniser produced, in a form comparable across decoders
#[derive(Clone, Debug, PartialEq, Eq)]
struct Tok {
    /// Debug rendering of a recognised item, None for raw
    item: Option<String>,
    raw: Option<Vec<u8>>,
    end: usize,
}

fn conv<T: std::fmt::Debug>(tokens: Vec<Token<T>>) -> Vec<Tok> {
    tokens
        .into_iter()
        .map(|t| match t.item {
            Ok(v) => Tok { item: Some(format!("{v:?}")), raw: None, end: t.end },
            Err(raw) => Tok { item: None, raw: Some(raw), end: t.end },
        })
        .collect()
}

trait Feeder {
    fn run(&self, chunks: &[&[u8]]) -> Result<(Vec<Tok>, usize), Fail>;
    /// per-prefix (accepting, terminal) from the start state, stops at the first dead byte
    fn trace(&self, input: &[u8]) -> Vec<(bool, bool)>;
    /// whether a recognised item may legitimately surface as raw (payload decoder rejected it)
    fn payload_may_reject(&self) -> bool;
    /// tags acceptable for a recognised span (None = not checked)
    fn tag_ok(&self, _span: &[u8], _item: &str) -> bool {
        true
    }
    fn name(&self) -> &'static str;
    /// the same input through the decoder's PUBLIC `Decoder::decode` entry point (the one the
    /// terminal read loop uses), items rendered with Debug; None when there is no such wrapper
    fn run_public(&self, _chunks: &[&[u8]]) -> Result<Option<Vec<String>>, Fail> {
        Ok(None)
    }
    /// like `run_public`, but all chunks come from ONE reader that fails once or twice with
    /// WouldBlock / Interrupted before it delivers each chunk after the first; the failed call
    /// is repeated on the same decoder
    fn run_public_failing_reads(&self, _chunks: &[&[u8]]) -> Result<Option<Vec<String>>, Fail> {
        Ok(None)
    }
}

/// Reader over `chunks`: each `fill_buf` returns what is left of the current chunk; when that is
/// nothing it moves to the next chunk, after having failed `1 + index % 2` times (WouldBlock and
/// Interrupted in turn) without consuming anything.  An empty chunk is a read that returns nothing.
struct FailingReads<'a> {
    chunks: &'a [&'a [u8]],
    idx: usize,
    off: usize,
    failed: usize,
    failures: usize,
}

impl FailingReads<'_> {
    fn exhausted(&self) -> bool {
        self.idx >= self.chunks.len() || (self.idx + 1 == self.chunks.len() && self.off == self.chunks[self.idx].len())
    }
}

impl std::io::Read for FailingReads<'_> {
    fn read(&mut self, out: &mut [u8]) -> std::io::Result<usize> {
        use std::io::BufRead;
        let data = self.fill_buf()?;
        let n = data.len().min(out.len());
        out[..n].copy_from_slice(&data[..n]);
        self.consume(n);
        Ok(n)
    }
}

impl std::io::BufRead for FailingReads<'_> {
    fn fill_buf(&mut self) -> std::io::Result<&[u8]> {
        if self.idx >= self.chunks.len() {
            return Ok(&[]);
        }
        if self.off == self.chunks[self.idx].len() && self.idx + 1 < self.chunks.len() {
            if self.failed < 1 + self.idx % 2 {
                self.failed += 1;
                self.failures += 1;
                let kind = if (self.idx + self.failed) % 2 == 0 { std::io::ErrorKind::WouldBlock } else { std::io::ErrorKind::Interrupted };
                return Err(std::io::Error::new(kind, "scheduled read failure"));
            }
            self.failed = 0;
            self.idx += 1;
            self.off = 0;
        }
        Ok(&self.chunks[self.idx][self.off..])
    }

    fn consume(&mut self, amt: usize) {
        if self.idx < self.chunks.len() {
            self.off = (self.off + amt).min(self.chunks[self.idx].len());
        }
    }
}

fn drive_public_failing_reads<D: surf_n_term::decoder::Decoder>(mut dec: D, chunks: &[&[u8]], what: &str) -> Result<Option<Vec<String>>, Fail>
where
    D::Item: std::fmt::Debug,
    D::Error: std::fmt::Debug,
{
    let mut out = Vec::new();
    let mut rd = FailingReads { chunks, idx: 0, off: 0, failed: 0, failures: 0 };
    let total: usize = chunks.iter().map(|c| c.len()).sum();
    let mut seen = 0usize;
    // every call yields an item (at most one per byte), or moves the reader, or is the last one
    // (no further call once None has come back with everything delivered, as in `drive_public`:
    // this run adds failed reads, not an empty read at the end)
    for _ in 0..2 * total + 4 * chunks.len() + 64 {
        let r = dec.decode(&mut rd);
        let injected = rd.failures > seen;
        seen = rd.failures;
        match r {
            Ok(Some(item)) => out.push(format!("{item:?}")),
            Ok(None) if rd.exhausted() => break,
            Ok(None) => {}
            // the scheduled failure coming back: the caller simply tries again
            Err(_) if injected => {}
            Err(e) => return Err(Fail::new(format!("{what}/io-error"), format!("{e:?}"))),
        }
    }
    Ok(Some(out))
}

fn drive_public<D: surf_n_term::decoder::Decoder>(mut dec: D, chunks: &[&[u8]], what: &str) -> Result<Option<Vec<String>>, Fail>
where
    D::Item: std::fmt::Debug,
    D::Error: std::fmt::Debug,
{
    let mut out = Vec::new();
    for c in chunks {
        let mut cur = std::io::Cursor::new(*c);
        let mut steps = 0usize;
        loop {
            steps += 1;
            ensure!(steps < 100_000, format!("{what}/public-api-does-not-terminate"), "decode loop");
            match dec.decode(&mut cur) {
                Ok(Some(item)) => out.push(format!("{item:?}")),
                Ok(None) => break,
                Err(e) => return Err(Fail::new(format!("{what}/io-error"), format!("{e:?}"))),
            }
        }
    }
    Ok(Some(out))
}

struct EventFeeder;
impl Feeder for EventFeeder {
    fn run(&self, chunks: &[&[u8]]) -> Result<(Vec<Tok>, usize), Fail> {
        let mut t = EventTokenizer::new();
        let mut out = Vec::new();
        for c in chunks {
            t.feed(c, &mut out).map_err(|e| Fail::new("event/io-error", format!("{e:?}")))?;
        }
        Ok((conv(out), t.pending()))
    }
    fn trace(&self, input: &[u8]) -> Vec<(bool, bool)> {
        event_trace(input)
    }
    fn payload_may_reject(&self) -> bool {
        true
    }
    fn name(&self) -> &'static str {
        "event"
    }
    fn run_public(&self, chunks: &[&[u8]]) -> Result<Option<Vec<String>>, Fail> {
        drive_public(surf_n_term::decoder::TTYEventDecoder::new(), chunks, "event")
    }
    fn run_public_failing_reads(&self, chunks: &[&[u8]]) -> Result<Option<Vec<String>>, Fail> {
        drive_public_failing_reads(surf_n_term::decoder::TTYEventDecoder::new(), chunks, "event")
    }
}

struct CommandFeeder;
impl Feeder for CommandFeeder {
    fn run(&self, chunks: &[&[u8]]) -> Result<(Vec<Tok>, usize), Fail> {
        let mut t = CommandTokenizer::new();
        let mut out = Vec::new();
        for c in chunks {
            t.feed(c, &mut out).map_err(|e| Fail::new("command/io-error", format!("{e:?}")))?;
        }
        Ok((conv(out), t.pending()))
    }
    fn trace(&self, input: &[u8]) -> Vec<(bool, bool)> {
        command_trace(input)
    }
    fn payload_may_reject(&self) -> bool {
        true
    }
    fn name(&self) -> &'static str {
        "command"
    }
    fn run_public(&self, chunks: &[&[u8]]) -> Result<Option<Vec<String>>, Fail> {
        drive_public(surf_n_term::decoder::TTYCommandDecoder::new(), chunks, "command")
    }
    fn run_public_failing_reads(&self, chunks: &[&[u8]]) -> Result<Option<Vec<String>>, Fail> {
        drive_public_failing_reads(surf_n_term::decoder::TTYCommandDecoder::new(), chunks, "command")
    }
}

struct CoreFeeder<'a> {
    patterns: &'a [Re],
    via_decode: bool,
    alphabet: Vec<u8>,
}

impl Feeder for CoreFeeder<'_> {
    fn run(&self, chunks: &[&[u8]]) -> Result<(Vec<Tok>, usize), Fail> {
        let nfas = self.patterns.iter().map(|p| p.build::<usize>(false)).collect();
        let mut t = Tokenizer::new(nfas, self.via_decode);
        let mut out = Vec::new();
        for c in chunks {
            t.feed(c, &mut out).map_err(|e| Fail::new("core/io-error", format!("{e:?}")))?;
        }
        Ok((conv(out), t.pending()))
    }
    fn trace(&self, input: &[u8]) -> Vec<(bool, bool)> {
        let mut ders: Vec<Re> = self.patterns.to_vec();
        let mut out = Vec::new();
        for &b in input {
            ders = ders.iter().map(|d| d.deriv(b)).collect();
            if !ders.iter().any(Re::inhabited) {
                break;
            }
            let acc = ders.iter().any(Re::nullable);
            let extendable = self
                .alphabet
                .iter()
                .any(|&x| ders.iter().any(|d| d.deriv(x).inhabited()));
            out.push((acc, !extendable));
        }
        out
    }
    fn payload_may_reject(&self) -> bool {
        false
    }
    fn tag_ok(&self, span: &[u8], item: &str) -> bool {
        match item.parse::<usize>() {
            Ok(i) => self.patterns.get(i).map(|p| p.matches(span)).unwrap_or(false),
            Err(_) => false,
        }
    }
    fn name(&self) -> &'static str {
        "core"
    }
}

struct Stats {
    rescheduled: bool,
    tokens: usize,
    recognised: usize,
}

/// Validate the single-buffer tokenisation against the leftmost-longest rule.
fn validate(f: &dyn Feeder, input: &[u8], toks: &[Tok], pending: usize) -> Result<Stats, Fail> {
    let name = f.name();
    let n = input.len();
    let mut p = 0usize;
    let mut stats = Stats { rescheduled: false, tokens: toks.len(), recognised: 0 };
    let mut it = toks.iter();
    loop {
        if p >= n {
            break;
        }
        let tr = f.trace(&input[p..]);
        let v = tr.len();
        let dead_within_input = v < n - p;
        let last_terminal = v > 0 && tr[v - 1] == (true, true);
        let lmax = tr.iter().rposition(|(a, _)| *a).map(|i| i + 1);
        let must_wait = !dead_within_input && !last_terminal;
        let tok = it.next();
        if must_wait {
            ensure!(
                tok.is_none(),
                format!("{name}/emitted-while-longer-match-possible"),
                "input \"{}\": at offset {p} the rest of the input is still a viable, extendable prefix but token {:?} was emitted",
                esc(input),
                tok
            );
            ensure!(
                pending == n - p,
                format!("{name}/pending-count"),
                "input \"{}\": {} bytes should be pending at offset {p}, decoder holds {pending}",
                esc(input),
                n - p
            );
            return Ok(stats);
        }
        let Some(tok) = tok else {
            return Err(Fail::new(
                format!("{name}/token-missing"),
                format!(
                    "input \"{}\": at offset {p} a token is due (longest match {:?}, viable {v}, dead={dead_within_input}) but the decoder produced nothing more (pending {pending})",
                    esc(input),
                    lmax
                ),
            ));
        };
        ensure!(
            tok.end > p && tok.end <= n,
            format!("{name}/span-order"),
            "input \"{}\": token {:?} at offset {p}",
            esc(input),
            tok
        );
        let len = tok.end - p;
        let span = &input[p..tok.end];
        if let Some(raw) = &tok.raw {
            ensure!(
                raw.as_slice() == span,
                format!("{name}/raw-bytes-differ-from-input"),
                "input \"{}\": raw token {:?} covers input bytes {:?}",
                esc(input),
                esc(raw),
                esc(span)
            );
        }
        match lmax {
            Some(l) => {
                ensure!(
                    len == l,
                    if len < l { format!("{name}/not-longest-match") } else { format!("{name}/longer-than-any-match") },
                    "input \"{}\": at offset {p} the longest complete sequence has {l} bytes (\"{}\") but the token covers {len} bytes (\"{}\"): {:?}",
                    esc(input),
                    esc(&input[p..p + l]),
                    esc(span),
                    tok
                );
                match &tok.item {
                    Some(item) => {
                        stats.recognised += 1;
                        ensure!(
                            f.tag_ok(span, item),
                            format!("{name}/wrong-pattern-tag"),
                            "input \"{}\": span \"{}\" reported as pattern {item} which does not match it",
                            esc(input),
                            esc(span)
                        );
                    }
                    None => ensure!(
                        f.payload_may_reject(),
                        format!("{name}/match-reported-raw"),
                        "input \"{}\": span \"{}\" matches a pattern but was reported raw",
                        esc(input),
                        esc(span)
                    ),
                }
                if l < v {
                    stats.rescheduled = true;
                }
            }
            None => {
                ensure!(
                    tok.raw.is_some(),
                    format!("{name}/recognised-without-match"),
                    "input \"{}\": no pattern matches any prefix at offset {p} but token {:?} was recognised",
                    esc(input),
                    tok
                );
                ensure!(
                    len >= 1 && len <= v.max(1),
                    format!("{name}/raw-swallows-fresh-input"),
                    "input \"{}\": raw token of {len} bytes at offset {p}, but only {} bytes there are a viable prefix; the bytes after must be interpreted afresh",
                    esc(input),
                    v.max(1)
                );
            }
        }
        p = tok.end;
    }
    ensure!(
        it.next().is_none(),
        format!("{name}/extra-token"),
        "input \"{}\": tokens beyond the end of input",
        esc(input)
    );
    ensure!(
        pending == n - p.min(n),
        format!("{name}/pending-count"),
        "input \"{}\": all input tokenised but decoder holds {pending} bytes",
        esc(input)
    );
    Ok(stats)
}

fn check_feeder(f: &dyn Feeder, input: &[u8], parts: &[Vec<u16>]) -> Result<(Stats, bool), Fail> {
    let name = f.name();
    let (base, base_pending) = f.run(&[input])?;
    let base_public = f.run_public(&[input])?;
    if let Some(items) = &base_public {
        // the public wrapper must report exactly the tokeniser's items (raw bytes as Raw(..))
        let from_tokens: Vec<String> = base
            .iter()
            .map(|t| match (&t.item, &t.raw) {
                (Some(i), _) => i.clone(),
                (None, Some(raw)) => format!("Raw({raw:?})"),
                _ => String::new(),
            })
            .collect();
        if *items != from_tokens {
            let first = items.iter().zip(from_tokens.iter()).position(|(a, b)| a != b).unwrap_or(items.len().min(from_tokens.len()));
            return Err(Fail::new(
                format!("{name}/public-api-differs-from-tokeniser"),
                format!(
                    "input \"{}\" (single buffer): Decoder::decode item #{first} is {:?}, the tokeniser produced {:?}",
                    esc(input),
                    items.get(first),
                    from_tokens.get(first)
                ),
            ));
        }
    }
    let mut cut_inside_item = false;
    let compare = |chunks: &[&[u8]], what: &str, failing_reads: bool| -> Result<(), Fail> {
        if let Some(base_items) = &base_public {
            let items = f.run_public(chunks)?.unwrap_or_default();
            if items != *base_items {
                let lens: Vec<usize> = chunks.iter().map(|c| c.len()).collect();
                let first = items.iter().zip(base_items.iter()).position(|(a, b)| a != b).unwrap_or(items.len().min(base_items.len()));
                return Err(Fail::new(
                    format!("{name}/chunking-changes-result/public-api"),
                    format!(
                        "input \"{}\" split as {:?} ({what}) through Decoder::decode: item #{first} is {:?} (single buffer: {:?})",
                        esc(input),
                        lens,
                        items.get(first),
                        base_items.get(first)
                    ),
                ));
            }
        }
        if let (Some(base_items), true) = (&base_public, failing_reads) {
            let items = f.run_public_failing_reads(chunks)?.unwrap_or_default();
            if items != *base_items {
                let lens: Vec<usize> = chunks.iter().map(|c| c.len()).collect();
                let first = items.iter().zip(base_items.iter()).position(|(a, b)| a != b).unwrap_or(items.len().min(base_items.len()));
                return Err(Fail::new(
                    format!("{name}/retried-read-error-changes-result/public-api"),
                    format!(
                        "input \"{}\" split as {:?} through Decoder::decode from one reader that fails with WouldBlock/Interrupted before each further chunk (the call is repeated): item #{first} is {:?} (single buffer: {:?})",
                        esc(input),
                        lens,
                        items.get(first),
                        base_items.get(first)
                    ),
                ));
            }
        }
        let (toks, pending) = f.run(chunks)?;
        if toks != base || pending != base_pending {
            let lens: Vec<usize> = chunks.iter().map(|c| c.len()).collect();
            let first = toks.iter().zip(base.iter()).position(|(a, b)| a != b).unwrap_or(toks.len().min(base.len()));
            return Err(Fail::new(
                format!("{name}/chunking-changes-result"),
                format!(
                    "input \"{}\" split as {:?} ({what}): token #{first} is {:?} (single buffer: {:?}); totals {} vs {} tokens, pending {} vs {}",
                    esc(input),
                    lens,
                    toks.get(first),
                    base.get(first),
                    toks.len(),
                    base.len(),
                    pending,
                    base_pending
                ),
            ));
        }
        Ok(())
    };
    // one byte at a time
    let bytes: Vec<&[u8]> = input.chunks(1).collect();
    compare(&bytes, "byte at a time", false)?;
    // generated partitions
    let ends: BTreeSet<usize> = base.iter().map(|t| t.end).collect();
    for fracs in parts {
        let cuts = hostile::cuts_from(fracs, input.len());
        if cuts.iter().any(|c| *c > 0 && *c < input.len() && !ends.contains(c)) {
            cut_inside_item = true;
        }
        compare(&hostile::split(input, &cuts), "generated partition", true)?;
    }
    // every single cut position (exhaustive over two-read schedules)
    if input.len() <= 48 {
        for c in 0..=input.len() {
            compare(&[&input[..c], &input[c..]], "single cut", c % 3 == 1)?;
            // with an empty read in between
            if c % 7 == 3 {
                compare(&[&input[..c], &[], &input[c..]], "single cut + empty read", false)?;
            }
        }
        if input.len() >= 2 {
            cut_inside_item = cut_inside_item || (1..input.len()).any(|c| !ends.contains(&c));
        }
    }
    let stats = validate(f, input, &base, base_pending)?;
    Ok((stats, cut_inside_item))
}

/// random walk through the language of `re` guided by `choices`
fn sample_match(re: &Re, choices: &[u8], alphabet: &[u8]) -> Vec<u8> {
    let mut out = Vec::new();
    let mut cur = re.clone();
    for &c in choices {
        if cur.nullable() && c % 4 == 0 {
            break;
        }
        let opts: Vec<u8> = alphabet.iter().copied().filter(|&x| cur.deriv(x).inhabited()).collect();
        if opts.is_empty() {
            break;
        }
        let x = opts[c as usize % opts.len()];
        out.push(x);
        cur = cur.deriv(x);
    }
    out
}


// ---------------------------------------------------------------------------------------
// (c) the read loop of the terminal object (src/unix.rs) on a pseudo-terminal

fn tty_inconclusive(msg: impl Into<String>) -> Fail {
    Fail::new("inconclusive/pty-session", msg.into())
}

/// Events delivered by `Terminal::poll` for bytes typed into the pty in generated chunks must
/// be the events a fresh decoder yields for the same bytes in a single buffer: nothing lost,
/// duplicated or reordered by the 1024-byte read buffer, by reads that end inside a sequence,
/// or by the event queue.
///
/// With `early`: a prefix of the typed stream that completes no event arrives during `open()`,
/// behind the emulator's DA1 reply.  The reply is a complete sequence, so the decoder is back in
/// its start state behind it, and the bytes of the prefix are only the beginning of a sequence:
/// where the stream is cut into reads (here: into the reads done while probing and the reads done
/// by later polls) must not matter, the events after `open()` are those of one decoder over
/// prefix + rest.
fn check_tty(pad: u16, input: &[u8], cuts: &[u16], lockstep: bool, pause_us: u16, early: Option<&Early>) -> Outcome {
    use crate::pty::{Peer, Pty};
    use std::sync::atomic::Ordering;
    use std::time::{Duration, Instant};
    use surf_n_term::{SystemTerminal, Terminal};
    let mut bytes: Vec<u8> = early.map(|e| e.head.clone()).unwrap_or_default();
    let head_len = bytes.len();
    bytes.extend((0..pad as usize).map(|i| b'a' + (i % 26) as u8));
    bytes.extend_from_slice(input);
    // how much of the stream arrives during open: 1..=longest event-free prefix
    let early_len = match early {
        Some(e) => {
            let lmax = event_free_prefix(&bytes)?;
            if lmax == 0 { 0 } else { 1 + ((e.cut as usize * lmax) >> 16) }
        }
        None => 0,
    };
    // expected: the public decoder over one buffer
    let expected = drive_public(surf_n_term::decoder::TTYEventDecoder::new(), &[&bytes[..]], "tty")?
        .unwrap_or_default();
    let mut pos: Vec<usize> = cuts.iter().map(|c| (*c as usize * (bytes.len() + 1)) >> 16).collect();
    pos.push(bytes.len());
    pos.sort();
    let mut chunks: Vec<Vec<u8>> = Vec::new();
    let mut last = early_len;
    for p in pos {
        if p > last {
            chunks.push(bytes[last..p].to_vec());
            last = p;
        }
    }
    if lockstep {
        // in lockstep the typing thread is the reading thread: a chunk that does not fit into
        // the pty's buffers (4 KiB line discipline + 8 KiB port) would block the write for ever;
        // longer chunks are typed in pieces, each after the previous one has been read
        chunks = chunks.iter().flat_map(|c| c.chunks(3072).map(|x| x.to_vec())).collect();
    }
    let pty = Pty::open().map_err(|e| tty_inconclusive(format!("cannot open pty: {e}")))?;
    let peer = Peer::spawn(&pty);
    if let Some(e) = early.filter(|_| early_len > 0) {
        let slot = if e.same_write { &peer.state.reply_suffix } else { &peer.state.reply_followup };
        *slot.lock().unwrap() = bytes[..early_len].to_vec();
    }
    let e_same_write = early.is_some_and(|e| e.same_write);
    let open_started = Instant::now();
    let mut term = SystemTerminal::open(&pty.slave_path)
        .map_err(|e| Fail::new("tty/open-error", format!("SystemTerminal::open failed: {e:?}")))?;
    let mut early_read_during_open = false;
    let mut slow_open = false;
    let recv0 = if early_len > 0 {
        // the peer writes nothing but its 7-byte DA1 replies and the early bytes, the reply
        // first: if open() has read at least the reply (stats().recv, checked below), the reply
        // was decoded inside open() and its event consumed there (by the probing loop, or by the
        // drain behind it when the loop's 1 s wait had run out), and the write that carried it —
        // with the early bytes, in same-write mode — precedes anything typed from now on.
        // Otherwise (probing gave up before the reply arrived) the session is inconclusive.
        slow_open = open_started.elapsed() >= Duration::from_millis(900);
        // a write of its own follows the reply at once: nothing is typed before the peer has
        // completed it (order of the typed stream)
        if !e_same_write {
            let deadline = Instant::now() + Duration::from_secs(2);
            while peer.state.followup_written.load(Ordering::SeqCst) == 0 {
                if Instant::now() > deadline {
                    return Err(tty_inconclusive("the peer did not complete the write that follows its DA1 reply within 2 s"));
                }
                std::thread::sleep(Duration::from_micros(50));
            }
        }
        if !peer.state.reply_suffix.lock().unwrap().is_empty() || !peer.state.reply_followup.lock().unwrap().is_empty() {
            return Err(tty_inconclusive(format!(
                "the early bytes were not sent (open took {:?}, DA1 answered {} times)",
                open_started.elapsed(),
                peer.state.da1_answered.load(Ordering::SeqCst)
            )));
        }
        // all the peer has written so far: its 7-byte DA1 replies and the early bytes; nothing
        // is thrown away here, every event from now on takes part in the comparison
        let replies = 7 * peer.state.da1_answered.load(Ordering::SeqCst);
        match term.stats().recv.checked_sub(replies) {
            Some(n) if replies > 0 && n <= early_len => early_read_during_open = n == early_len,
            other => return Err(tty_inconclusive(format!("cannot tell replies from typed bytes: recv={} replies={replies} early={early_len} ({other:?})", term.stats().recv))),
        }
        replies
    } else {
        while let Ok(Some(_)) = term.poll(Some(Duration::ZERO)) {}
        term.stats().recv
    };
    let master_fd = {
        use std::os::fd::AsRawFd;
        pty.master.as_raw_fd()
    };
    let type_chunk = move |c: &[u8]| {
        let mut off = 0usize;
        while off < c.len() {
            let n = unsafe { libc::write(master_fd, c[off..].as_ptr() as *const libc::c_void, c.len() - off) };
            if n <= 0 {
                break;
            }
            off += n as usize;
        }
    };
    let mut observed: Vec<String> = Vec::new();
    let started = Instant::now();
    let mut reads_inside = false;
    let total = bytes.len();
    let typer = if lockstep {
        None
    } else {
        let chunks = chunks.clone();
        Some(std::thread::spawn(move || {
            for c in &chunks {
                type_chunk(c);
                if pause_us > 0 {
                    std::thread::sleep(Duration::from_micros(pause_us as u64));
                }
            }
        }))
    };
    let mut next = 0usize;
    let mut typed = early_len;
    loop {
        let got = term.stats().recv - recv0;
        if lockstep && got == typed && next < chunks.len() {
            type_chunk(&chunks[next]);
            typed += chunks[next].len();
            next += 1;
        }
        if got > 0 && got < total {
            reads_inside = true;
        }
        if got >= total {
            break;
        }
        if started.elapsed() > Duration::from_secs(8) {
            return Err(tty_inconclusive(format!("only {got} of {total} typed bytes were read within 8 s")));
        }
        match term.poll(Some(Duration::from_millis(10))) {
            Ok(Some(ev)) => observed.push(format!("{ev:?}")),
            Ok(None) => {}
            Err(e) => return Err(Fail::new("tty/poll-error", format!("poll failed: {e:?}"))),
        }
    }
    if let Some(t) = typer {
        let _ = t.join();
    }
    // everything was read: what is queued comes out of zero-timeout polls
    let mut steps = 0usize;
    loop {
        steps += 1;
        ensure!(steps < 200_000, "tty/poll-does-not-drain", "zero-timeout polls keep returning events");
        match term.poll(Some(Duration::ZERO)) {
            Ok(Some(ev)) => observed.push(format!("{ev:?}")),
            Ok(None) => break,
            Err(e) => return Err(Fail::new("tty/poll-error", format!("poll failed: {e:?}"))),
        }
    }
    let got = term.stats().recv - recv0;
    ensure!(got == total, "tty/recv-counter", "typed {total} bytes, stats().recv grew by {got}");
    drop(term);
    drop(peer);
    let keep = |e: &&String| !e.starts_with("Resize(") && !e.starts_with("KittyImage");
    let obs: Vec<&String> = observed.iter().filter(keep).collect();
    let exp: Vec<&String> = expected.iter().filter(keep).collect();
    if obs != exp {
        let i = (0..obs.len().min(exp.len())).find(|&i| obs[i] != exp[i]).unwrap_or(obs.len().min(exp.len()));
        let (sig, how) = if early_len > 0 {
            (
                "tty/input-during-open/events-differ-from-single-buffer-decode",
                format!(
                    "the first {early_len} (\"{}\", completes no event) sent during open() {} the DA1 reply ({}), the rest",
                    esc(&bytes[..early_len]),
                    if early.is_some_and(|e| e.same_write) { "in the same write as" } else { "in a write of its own right after" },
                    if early_read_during_open { "read before open() returned" } else { "not yet fully read when open() returned" }
                ),
            )
        } else {
            ("tty/events-differ-from-single-buffer-decode", "all".to_string())
        };
        return Err(Fail::new(
            sig,
            format!(
                "{} bytes typed, {how} in {} chunks ({}): event #{i} is {:?} through the terminal object but {:?} from the decoder on one buffer ({} vs {} events); input tail {:?}",
                total,
                chunks.len(),
                if lockstep { "lockstep" } else { "free running" },
                obs.get(i),
                exp.get(i),
                obs.len(),
                exp.len(),
                esc(&bytes[(head_len + pad as usize).min(bytes.len())..])
            ),
        ));
    }
    let crosses = total > 1024;
    let same_write = early.is_some_and(|e| e.same_write);
    Ok(Pass::new(reads_inside && exp.len() > pad as usize)
        .label("tty")
        .label_if(early_len > 0, "tty-input-during-open")
        .label_if(early_len > 0 && same_write, "tty-input-during-open-same-write-as-reply")
        .label_if(early_len > 0 && !same_write, "tty-input-during-open-own-write")
        .label_if(early_read_during_open, "tty-input-during-open-read-before-open-returned")
        .label_if(slow_open, "tty-input-during-open-open-took-0.9s-or-more")
        .label_if(early.is_some() && early_len == 0, "tty-input-during-open-skipped-first-byte-completes-event")
        .label_if(lockstep, "tty-lockstep")
        .label_if(!lockstep, "tty-free-running")
        .label_if(crosses, "tty-more-than-one-read-buffer")
        .label_if(reads_inside, "tty-several-reads"))
}

impl Property for C03 {
    type Case = Case;

    fn fuzz(&self) -> Option<FuzzSpec> {
        Some(FuzzSpec { target: "c03", jobs: 8, runs: 80_000, max_len: 98, seeds: 300 })
    }

    /// two bytes of read partition, then the input for the production decoders (every single
    /// cut position is tried as well for these lengths)
    fn case_from_bytes(&self, data: &[u8]) -> Option<Case> {
        if data.len() < 2 {
            return None;
        }
        let cuts = vec![(data[0] as u16) << 8 | 0x55, (data[1] as u16) << 8 | 0xaa];
        Some(Case::Production { input: data[2..].to_vec(), parts: vec![cuts] })
    }

    fn case_to_bytes(&self, case: &Case) -> Option<Vec<u8>> {
        match case {
            Case::Production { input, parts } => {
                let cuts = parts.first().cloned().unwrap_or_default();
                let mut out = vec![cuts.first().map(|c| (c >> 8) as u8).unwrap_or(0), cuts.get(1).map(|c| (c >> 8) as u8).unwrap_or(0)];
                out.extend_from_slice(input);
                Some(out)
            }
            _ => None,
        }
    }

    fn id(&self) -> &'static str {
        "C03"
    }

    fn isolate(&self) -> bool {
        // a broken tokeniser can hand garbage to `from_u32_unchecked`, which aborts
        true
    }

    fn strategy(&self, tier: Tier) -> BoxedStrategy<Case> {
        let max_raw = tier.pick(48usize, 400usize);
        let parts = || proptest::collection::vec(proptest::collection::vec(any::<u16>(), 0..6), 3..=3);
        // inputs are cut off at 16 KiB: the leftmost-longest validation re-walks the automaton
        // from every token start, which is quadratic on a mutated 100 KB paste (sequences longer
        // than 64 KiB under read schedules are C04's business)
        let production = (hostile::input(max_raw), parts()).prop_map(|(mut input, parts)| {
            input.truncate(16 * 1024);
            Case::Production { input, parts }
        });
        let core = (
            proptest::collection::vec(re_strategy(ALPHA, 3, false), 1..=6),
            any::<bool>(),
            proptest::collection::vec(
                (any::<bool>(), 0usize..6, proptest::collection::vec(any::<u8>(), 0..8)),
                1..6,
            ),
            parts(),
        )
            .prop_map(|(patterns, via_decode, segs, parts)| {
                let mut input = Vec::new();
                for (sampled, which, choices) in segs {
                    if sampled {
                        let re = &patterns[which % patterns.len()];
                        input.extend(sample_match(re, &choices, ALPHA));
                    } else {
                        input.extend(choices.iter().map(|c| ALPHA[*c as usize % ALPHA.len()]));
                    }
                }
                input.truncate(24);
                Case::Core { patterns, via_decode, input, parts }
            });
        // pad so that the interesting bytes straddle the 1024-byte read buffer of the loop
        let pad = prop_oneof![3 => Just(0u16), 2 => 0u16..40, 3 => 990u16..1024, 1 => 2010u16..2048];
        let tty = (pad, hostile::input(max_raw.min(120)).prop_map(|mut v| { v.truncate(16 * 1024); v }), proptest::collection::vec(any::<u16>(), 0..8), any::<bool>(), prop_oneof![Just(0u16), 0u16..400]);
        // the head of the stream for sessions with input during open: one sequence of any kind,
        // so that the stream usually begins with a multi-byte sequence to be cut
        let keys: Vec<Vec<u8>> = [
            &b"\x1b[A"[..], b"\x1b[B", b"\x1b[H", b"\x1bOP", b"\x1bOA", b"\x1b[1;5C", b"\x1b[1;3A", b"\x1b[15~", b"\x1b[3;2~", b"\x1b[Z",
            b"\x1bx", b"\x1b\x7f", b"\x1b\x1b[A", b"\x1b[<0;10;5M", b"\x1b[97;5u", b"\x1b[I", "\u{e9}".as_bytes(), "\u{20ac}".as_bytes(), "\u{1F431}".as_bytes(),
        ]
        .iter()
        .map(|k| k.to_vec())
        .collect();
        let head = prop_oneof![
            4 => hostile::skeleton(),
            3 => proptest::sample::select(keys),
            1 => hostile::wellformed(),
            1 => proptest::sample::select(hostile::golden()),
            1 => Just(Vec::new()),
        ];
        let early = (head, any::<u16>(), prop_oneof![2 => Just(true), 1 => Just(false)])
            .prop_map(|(mut head, cut, same_write)| {
                head.truncate(4 * 1024);
                Early { head, cut, same_write }
            });
        let tty = (tty, prop_oneof![60 => Just(None), 40 => early.prop_map(Some)])
            .prop_map(|((pad, input, cuts, lockstep, pause_us), early)| Case::Tty { pad, input, cuts, lockstep, pause_us, early });
        prop_oneof![60 => production, 40 => core, 3 => tty].boxed()
    }

    fn check(&self, case: &Case) -> Outcome {
        match case {
            Case::Production { input, parts } => {
                let (es, cut_e) = check_feeder(&EventFeeder, input, parts)?;
                let (cs, cut_c) = check_feeder(&CommandFeeder, input, parts)?;
                let nt = (es.rescheduled && cut_e) || (cs.rescheduled && cut_c);
                Ok(Pass::new(nt)
                    .label("production")
                    .label_if(es.rescheduled, "event-rescheduled")
                    .label_if(cs.rescheduled, "command-rescheduled")
                    .label_if(es.recognised > 0, "event-recognised")
                    .label_if(es.tokens > es.recognised, "event-raw")
                    .label_if(input.len() <= 48, "all-single-cuts"))
            }
            Case::Tty { pad, input, cuts, lockstep, pause_us, early } => check_tty(*pad, input, cuts, *lockstep, *pause_us, early.as_ref()),
            Case::Core { patterns, via_decode, input, parts } => {
                let f = CoreFeeder { patterns, via_decode: *via_decode, alphabet: ALPHA.to_vec() };
                let (st, cut) = check_feeder(&f, input, parts)?;
                Ok(Pass::new(st.rescheduled && cut)
                    .label("core")
                    .label_if(*via_decode, "core-via-decode-fn")
                    .label_if(st.rescheduled, "core-rescheduled")
                    .label_if(st.recognised > 0, "core-recognised")
                    .label_if(st.tokens > st.recognised, "core-raw"))
            }
        }
    }

    fn cases(&self, tier: Tier) -> u32 {
        tier.pick(8_000, 250_000)
    }

    fn rule(&self) -> String {
        "(a) 60%: hostile::input byte strings (raw, hostile skeletons, mutated/well-formed printer output; <=48 raw bytes quick, <=400 thorough) through the production event AND command decoders: single buffer vs byte-at-a-time vs 3 generated partitions (0-5 cuts, empty reads allowed) vs every single cut position when the input has <=48 bytes; the 3 generated partitions and every third single cut are in addition delivered through Decoder::decode by ONE reader that fails once or twice (WouldBlock, Interrupted in turn) before each chunk after the first, the failed call being repeated on the same decoder (items must equal the single-buffer items: sig <decoder>/retried-read-error-changes-result/public-api); spans and items must be identical, then the single-buffer tokenisation is validated against leftmost-longest using the production DFA's per-prefix acceptance trace. (b) 40%: 1-6 patterns from regular-expression ASTs (depth<=3, no empty-language leaves) over {a,b,c,ESC} built through the public NFA API and run through the private tokeniser (hook, both tag paths) on inputs <=24 bytes assembled from random letters and random walks through the patterns, same partitions, validated against the derivative matcher. (c) ~3%: the read loop of the terminal object: 0-2047 printable pad bytes (so that the rest straddles the loop's 1024-byte read buffer) + a hostile::input string typed into a pseudo-terminal in 1-9 chunks, in lockstep with the reader or free running with 0-400 us pauses; the events returned by Terminal::poll must equal the events of a fresh TTYEventDecoder over the same bytes in one buffer, and stats().recv must equal the bytes typed (non-trivial there = more than one read and at least one event beyond the pad). 40% of the (c) sessions have INPUT DURING OPEN: one more sequence (hostile skeleton, common key / mouse / multi-byte character, well-formed output, golden string, or nothing) is put in front of the typed stream, and a generated non-empty part (<=512 bytes) of the longest prefix of the stream on which the event decoder emits nothing (a strict prefix of one sequence: ESC, ESC [ 1 ;, first bytes of a multi-byte character, unterminated OSC/paste ...) is sent by the scripted emulator during SystemTerminal::open, right behind its reply to the DA1 request that ends capability probing — in the same write as the reply (2/3) or in a write of its own directly after it (1/3) — the rest is typed after open() has returned, as before; every event returned by Terminal::poll after open() must equal the events of one decoder over prefix + rest (sig tty/input-during-open/events-differ-from-single-buffer-decode); labels tty-input-during-open*, '...-read-before-open-returned' = the early bytes had been consumed by the probing phase's reads. non-trivial (a, b) = some token was taken from a non-terminal candidate (a longer match was attempted and failed, bytes rescheduled) and some cut falls strictly inside an item".into()
    }

    fn assumptions(&self) -> Vec<String> {
        vec![
            "grouping of unrecognised bytes is not prescribed: a raw item at offset p may cover 1..=max(1, longest viable prefix at p) bytes".into(),
            "a sequence recognised by the automaton whose payload decoder rejects it may surface as one raw item covering exactly the longest match (production decoders only)".into(),
            "for (a) the set of recognised sequences is the production automaton itself (its language is C04/C15's subject)".into(),
            "at the end of input a viable, extendable prefix stays pending and produces no token".into(),
            "a read that fails with ErrorKind::WouldBlock or ErrorKind::Interrupted is a read that delivered nothing (io::BufRead / io::Read contract: nothing was consumed, the operation may be retried): a caller that repeats the decode call on the same decoder and reader must get the items of the uncut stream; what the failed call itself returns is not checked".into(),
            "(c, input during open) the terminal object's tty stream is the emulator's replies followed by the typed bytes; the DA1 reply is a complete sequence after which the decoder is in its start state, so the events of replies + typed are the probing phase's events followed by the events of the typed bytes alone. Events COMPLETED while open() is probing are consumed or discarded by the probing phase (unix.rs: unexpected events are logged and dropped, the queue is drained before open returns), so nothing is demanded about them: only a prefix that completes no event (checked with the event tokeniser, byte by byte, nothing emitted and every byte pending) is sent early. Whether that prefix is read by the probing phase or by a later poll is up to the scheduler; the expected events are the same in both cases. A session whose early bytes were not sent, or in which open() returned without having read the DA1 reply (the probe's 1 s wait expired: stats().recv minus 7 bytes per DA1 reply written by the peer is not within 0..=early bytes) is inconclusive; elapsed time decides nothing".into(),
            "(c) Resize events (the library's reaction to a size report) and kitty image responses (consumed by an image handler) are left out of the comparison; a session whose typed bytes are not read within 8 s is inconclusive".into(),
        ]
    }
}
