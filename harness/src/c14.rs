//! C14 — the streaming base64 codec follows RFC 4648 and round-trips under any chunking.
//!
//! Oracle: an own, table-free RFC 4648 codec (bit accumulator + arithmetic on the alphabet
//! ranges) written from the RFC.  Four sub-cases:
//!
//! * `Encode`    bytes written to `Base64Encoder` through a generated partition of
//!               `write` / `write_all` calls (empty and 1-byte writes included); `finish()`
//!               must equal the reference text exactly.
//! * `Decode`    the reference text of a byte string is decoded by `Base64Decoder` reading
//!               from an own `Read` whose per-call yield follows a generated schedule (never
//!               0 before EOF), through destination buffers of generated sizes, until
//!               `Ok(0)`; the bytes must equal the original and `Ok(0)` must persist.  Every
//!               case is first run with a reader that always fills the request, so that the
//!               payload comparison happens even where a short read makes the decoder fail.
//! * `Reject`    valid text with 1–3 trailing characters removed / 1–3 characters appended
//!               (length ≢ 0 mod 4): reading to the end must produce an `Err`; reaching
//!               `Ok(0)` without one is the silent truncation the property forbids.
//! * `Arbitrary` arbitrary bytes as input: never panics (errors are fine, nothing else is
//!               demanded).

use crate::engine::*;
use proptest::collection::vec;
use proptest::prelude::*;
use serde::{Deserialize, Serialize};
use std::io::{Read, Write};
use surf_n_term::decoder::Base64Decoder;
use surf_n_term::encoder::Base64Encoder;

pub struct C14;

// ---------------------------------------------------------------------------------------
// reference codec (RFC 4648 §4), table-free

fn sym(v: u32) -> u8 {
    match v & 63 {
        v @ 0..=25 => b'A' + v as u8,
        v @ 26..=51 => b'a' + (v - 26) as u8,
        v @ 52..=61 => b'0' + (v - 52) as u8,
        62 => b'+',
        _ => b'/',
    }
}

fn val(c: u8) -> Option<u32> {
    match c {
        b'A'..=b'Z' => Some((c - b'A') as u32),
        b'a'..=b'z' => Some((c - b'a') as u32 + 26),
        b'0'..=b'9' => Some((c - b'0') as u32 + 52),
        b'+' => Some(62),
        b'/' => Some(63),
        _ => None,
    }
}

/// RFC 4648 base64 with padding: the bit string of the input is cut into 6-bit groups,
/// the last group is padded with zero bits, the text is padded with `=` to a multiple of 4.
pub fn ref_encode(data: &[u8]) -> Vec<u8> {
    let mut out = Vec::with_capacity(data.len().div_ceil(3) * 4);
    let mut acc: u32 = 0;
    let mut bits: u32 = 0;
    for &b in data {
        acc = (acc << 8) | b as u32;
        bits += 8;
        while bits >= 6 {
            bits -= 6;
            out.push(sym(acc >> bits));
        }
        acc &= (1 << bits) - 1;
    }
    if bits > 0 {
        out.push(sym(acc << (6 - bits)));
    }
    while out.len() % 4 != 0 {
        out.push(b'=');
    }
    out
}

/// Strict RFC 4648 decoder (only used to self-check the reference encoder).
pub fn ref_decode(text: &[u8]) -> Option<Vec<u8>> {
    if text.len() % 4 != 0 {
        return None;
    }
    let pad = text.iter().rev().take_while(|&&c| c == b'=').count();
    if pad > 2 {
        return None;
    }
    let mut out = Vec::with_capacity(text.len() / 4 * 3);
    let mut acc: u32 = 0;
    let mut bits: u32 = 0;
    for &c in &text[..text.len() - pad] {
        acc = (acc << 6) | val(c)?;
        bits += 6;
        if bits >= 8 {
            bits -= 8;
            out.push((acc >> bits) as u8);
            acc &= (1 << bits) - 1;
        }
    }
    match (pad, bits) {
        (0, 0) | (1, 2) | (2, 4) => Some(out),
        _ => None,
    }
}

const RFC_VECTORS: [(&str, &str); 7] = [
    ("", ""),
    ("f", "Zg=="),
    ("fo", "Zm8="),
    ("foo", "Zm9v"),
    ("foob", "Zm9vYg=="),
    ("fooba", "Zm9vYmE="),
    ("foobar", "Zm9vYmFy"),
];

// ---------------------------------------------------------------------------------------
// case

/// One entry of a write partition: `len` bytes (0 = empty write) handed to `write`
/// (completed by further `write` calls if it reports a partial write) or to `write_all`.
#[derive(Clone, Debug, PartialEq, Eq, Serialize, Deserialize)]
pub struct Piece {
    pub len: u16,
    pub all: bool,
    /// call `flush()` on the encoder after this piece (a flush hands on what is complete; it
    /// cannot make the text anything other than the RFC 4648 text of all the bytes written)
    #[serde(default)]
    pub flush: bool,
}

#[derive(Clone, Debug, PartialEq, Eq, Serialize, Deserialize)]
pub enum Edit {
    /// remove this many trailing characters (1..=3)
    Remove(u8),
    /// append 1..=3 characters: index into the alphabet, 64 = '='
    Append(Vec<u8>),
}

#[derive(Clone, Debug, Serialize, Deserialize)]
pub enum Case {
    /// `pieces` is applied cyclically; an empty list = one `write_all` of everything
    Encode { data: Vec<u8>, pieces: Vec<Piece> },
    /// `sched`: bytes returned per `read` of the underlying reader, applied cyclically
    /// (empty list = always fill the request); `dst`: destination buffer sizes, cyclic
    Decode {
        data: Vec<u8>,
        sched: Vec<u8>,
        dst: Vec<u8>,
    },
    Reject {
        data: Vec<u8>,
        edit: Edit,
        sched: Vec<u8>,
        dst: Vec<u8>,
    },
    Arbitrary {
        input: Vec<u8>,
        sched: Vec<u8>,
        dst: Vec<u8>,
    },
}

fn show(bytes: &[u8]) -> String {
    let s: String = bytes
        .iter()
        .take(96)
        .map(|&b| {
            if (0x20..0x7f).contains(&b) {
                (b as char).to_string()
            } else {
                format!("\\x{b:02x}")
            }
        })
        .collect();
    if bytes.len() > 96 {
        format!("\"{s}\"…(+{} bytes)", bytes.len() - 96)
    } else {
        format!("\"{s}\"")
    }
}

fn hex(bytes: &[u8]) -> String {
    let s: String = bytes.iter().take(64).map(|b| format!("{b:02x}")).collect();
    if bytes.len() > 64 {
        format!("[{s}…(+{} bytes)]", bytes.len() - 64)
    } else {
        format!("[{s}]")
    }
}

fn len_bucket(n: usize) -> &'static str {
    match n {
        0 => "len:0",
        1..=8 => "len:1-8",
        45..=53 => "len:45-53",
        60..=68 => "len:60-68",
        93..=101 => "len:93-101",
        189..=197 => "len:189-197",
        9..=302 => "len:other<=302",
        _ => "len:>302",
    }
}

// ---------------------------------------------------------------------------------------
// encode

struct EncodeRun {
    result: Result<Vec<u8>, String>,
    /// number of non-empty write/write_all calls issued
    nonempty_calls: usize,
    empty_calls: usize,
    /// a `write` returned 0 for a non-empty buffer / more than the buffer length
    contract: Option<String>,
}

/// Materialise the write partition of `n` bytes: the piece list is applied cyclically; the
/// whole list is issued at least once (so empty writes after the last byte happen too); a
/// cycle that makes no progress is followed by one write of the remainder.
fn partition(n: usize, pieces: &[Piece]) -> Vec<(usize, usize, bool, bool)> {
    if pieces.is_empty() {
        return vec![(0, n, true, false)];
    }
    let mut plan = Vec::new();
    let mut pos = 0usize;
    let mut first = true;
    loop {
        let cycle_start = pos;
        for p in pieces {
            if !first && pos == n {
                break;
            }
            let len = (p.len as usize).min(n - pos);
            plan.push((pos, pos + len, p.all, p.flush));
            pos += len;
        }
        first = false;
        if pos == n {
            break;
        }
        if pos == cycle_start {
            plan.push((pos, n, pieces[0].all, false));
            break;
        }
    }
    plan
}

/// A sink that takes at most `limit` bytes per `write` call (always at least one): legal for
/// `io::Write`, and what a pipe or a non-blocking descriptor does.
struct ShortSink {
    got: Vec<u8>,
    limit: usize,
}

impl Write for ShortSink {
    fn write(&mut self, buf: &[u8]) -> std::io::Result<usize> {
        let n = buf.len().min(self.limit.max(1));
        self.got.extend_from_slice(&buf[..n]);
        Ok(n)
    }
    fn flush(&mut self) -> std::io::Result<()> {
        Ok(())
    }
}

fn run_encoder(data: &[u8], pieces: &[Piece]) -> EncodeRun {
    run_encoder_into(data, pieces, Vec::new(), |v| v)
}

fn run_encoder_into<W: Write>(data: &[u8], pieces: &[Piece], sink: W, take: impl Fn(W) -> Vec<u8>) -> EncodeRun {
    let mut enc = Base64Encoder::new(sink);
    let mut run = EncodeRun {
        result: Ok(Vec::new()),
        nonempty_calls: 0,
        empty_calls: 0,
        contract: None,
    };
    for (start, end, all, flush) in partition(data.len(), pieces) {
        if issue(&mut enc, &data[start..end], all, &mut run) {
            return run;
        }
        if flush {
            if let Err(e) = enc.flush() {
                run.result = Err(format!("flush: {e}"));
                return run;
            }
        }
    }
    run.result = enc.finish().map(take).map_err(|e| format!("finish: {e}"));
    run
}

/// hand one piece to the encoder; true = stop (error / contract breach)
fn issue<W: Write>(
    enc: &mut Base64Encoder<W>,
    piece: &[u8],
    all: bool,
    run: &mut EncodeRun,
) -> bool {
    if piece.is_empty() {
        run.empty_calls += 1;
    } else {
        run.nonempty_calls += 1;
    }
    if all {
        if let Err(e) = enc.write_all(piece) {
            run.result = Err(format!("write_all({} bytes): {e}", piece.len()));
            return true;
        }
        return false;
    }
    let mut rest = piece;
    let mut interrupts = 0;
    loop {
        match enc.write(rest) {
            Ok(n) if n > rest.len() => {
                run.contract = Some(format!(
                    "write of {} bytes reported {} bytes written",
                    rest.len(),
                    n
                ));
                return true;
            }
            Ok(0) if !rest.is_empty() => {
                run.contract = Some(format!(
                    "write of {} bytes reported 0 bytes written (no progress possible)",
                    rest.len()
                ));
                return true;
            }
            Ok(n) => {
                rest = &rest[n..];
                if rest.is_empty() {
                    return false;
                }
            }
            Err(e) if e.kind() == std::io::ErrorKind::Interrupted && interrupts < 16 => {
                interrupts += 1;
            }
            Err(e) => {
                run.result = Err(format!("write({} bytes): {e}", rest.len()));
                return true;
            }
        }
    }
}

fn check_encode(data: &[u8], pieces: &[Piece]) -> Outcome {
    let want = ref_encode(data);
    ensure!(
        ref_decode(&want).as_deref() == Some(data),
        "harness/reference-selfcheck",
        "reference decoder does not invert reference encoder on {}",
        hex(data)
    );
    let run = guard_val(|| run_encoder(data, pieces))?;
    let rem = data.len() % 3;
    let part = if run.nonempty_calls <= 1 {
        "single-write"
    } else {
        "chunked"
    };
    if let Some(c) = &run.contract {
        return Err(Fail::new(
            format!("encode/write-contract/{part}"),
            format!("data {} pieces {:?}: {c}", hex(data), pieces),
        ));
    }
    let got = match run.result {
        Ok(g) => g,
        Err(e) => {
            return Err(Fail::new(
                format!("encode/io-error/{part}"),
                format!(
                    "data {} pieces {:?}: encoder over a Vec reported an error: {e}",
                    hex(data),
                    pieces
                ),
            ));
        }
    };
    ensure!(
        got == want,
        format!("encode/text-mismatch/len%3={rem}/{part}"),
        "data {} ({} bytes) written as {:?} ({} non-empty, {} empty writes): finish() = {}, RFC 4648 = {}",
        hex(data),
        data.len(),
        pieces,
        run.nonempty_calls,
        run.empty_calls,
        show(&got),
        show(&want)
    );
    // the same writes into a sink that accepts only a few bytes per call (size derived from
    // the case): what reaches the sink must be the same text
    let limit = 1 + (data.len() * 7 + pieces.len() * 3) % 13;
    let short = guard_val(|| run_encoder_into(data, pieces, ShortSink { got: Vec::new(), limit }, |s| s.got))?;
    match (&short.contract, &short.result) {
        (Some(c), _) => {
            return Err(Fail::new(
                format!("encode/write-contract/short-sink/{part}"),
                format!("data {} pieces {:?} sink accepting {limit} bytes per call: {c}", hex(data), pieces),
            ));
        }
        (None, Err(e)) => {
            return Err(Fail::new(
                format!("encode/io-error/short-sink/{part}"),
                format!("data {} pieces {:?} sink accepting {limit} bytes per call (never fails): {e}", hex(data), pieces),
            ));
        }
        (None, Ok(g)) => ensure!(
            *g == want,
            format!("encode/text-mismatch/short-sink/len%3={rem}/{part}"),
            "data {} ({} bytes) written as {:?} into a sink accepting {limit} bytes per call: sink received {}, RFC 4648 = {}",
            hex(data),
            data.len(),
            pieces,
            show(g),
            show(&want)
        ),
    }
    let one_byte = !pieces.is_empty() && pieces.iter().all(|p| p.len <= 1) && run.nonempty_calls > 1;
    let nontrivial = rem != 0 && data.len() > 48 && run.nonempty_calls >= 2;
    // a single call of >= 768 bytes issued while 1-2 bytes of an earlier call are carried
    let big_after_carry = partition(data.len(), pieces).iter().any(|(s, e, _, _)| e - s >= 768 && s % 3 != 0);
    Ok(Pass::new(nontrivial)
        .label("encode")
        .label_if(big_after_carry, "encode/single-call>=768-after-carry")
        .label(format!("encode/len%3={rem}"))
        .label(format!("encode/{}", len_bucket(data.len())))
        .label(format!("encode/{part}"))
        .label_if(one_byte, "encode/all-1-byte-writes")
        .label_if(run.empty_calls > 0, "encode/has-empty-write")
        .label_if(pieces.iter().any(|p| p.flush), "encode/flush-between-writes")
        .label_if(pieces.iter().any(|p| !p.all), "encode/uses-write")
        .label_if(pieces.is_empty() || pieces.iter().any(|p| p.all), "encode/uses-write_all"))
}

// ---------------------------------------------------------------------------------------
// decode

/// Reader over a slice that returns `sched[i]` bytes on its i-th call (cyclic), never 0
/// before EOF and never more than requested; empty schedule = fill every request.
struct SchedReader<'a> {
    data: &'a [u8],
    pos: usize,
    sched: &'a [u8],
    idx: usize,
    /// some call returned fewer bytes than requested although more were available
    short_served: bool,
}

impl<'a> SchedReader<'a> {
    fn new(data: &'a [u8], sched: &'a [u8]) -> Self {
        Self {
            data,
            pos: 0,
            sched,
            idx: 0,
            short_served: false,
        }
    }
}

impl Read for SchedReader<'_> {
    fn read(&mut self, buf: &mut [u8]) -> std::io::Result<usize> {
        let avail = (self.data.len() - self.pos).min(buf.len());
        if avail == 0 {
            return Ok(0);
        }
        let n = if self.sched.is_empty() {
            avail
        } else {
            let k = (self.sched[self.idx % self.sched.len()] as usize).max(1);
            self.idx += 1;
            k.min(avail)
        };
        if n < avail {
            self.short_served = true;
        }
        buf[..n].copy_from_slice(&self.data[self.pos..self.pos + n]);
        self.pos += n;
        Ok(n)
    }
}

#[derive(Debug)]
struct DecodeRun {
    out: Vec<u8>,
    errors: Vec<String>,
    /// Ok(0) was reached
    eof: bool,
    /// after Ok(0): description of a later call that did not return Ok(0)
    eof_not_persistent: Option<String>,
    /// Read contract breach (n > buffer) or no termination
    contract: Option<String>,
    short_served: bool,
    consumed: usize,
    calls: usize,
}

fn run_decoder(text: &[u8], sched: &[u8], dst: &[u8], stop_at_error: bool) -> DecodeRun {
    let mut reader = SchedReader::new(text, sched);
    let mut run = DecodeRun {
        out: Vec::new(),
        errors: Vec::new(),
        eof: false,
        eof_not_persistent: None,
        contract: None,
        short_served: false,
        consumed: 0,
        calls: 0,
    };
    let size_at = |i: usize| -> usize {
        if dst.is_empty() {
            64
        } else {
            (dst[i % dst.len()] as usize).max(1)
        }
    };
    // every call consumes input (Err), produces output or reports EOF
    let cap = 2 * text.len() + 64;
    {
        let mut dec = Base64Decoder::new(&mut reader);
        let mut i = 0usize;
        loop {
            if run.calls >= cap {
                run.contract = Some(format!("no Ok(0) after {cap} read calls"));
                break;
            }
            run.calls += 1;
            let size = size_at(i);
            i += 1;
            let mut buf = vec![0x5au8; size];
            match dec.read(&mut buf) {
                Ok(0) => {
                    run.eof = true;
                    break;
                }
                Ok(n) if n > size => {
                    run.contract = Some(format!("read into {size} bytes returned Ok({n})"));
                    break;
                }
                Ok(n) => run.out.extend_from_slice(&buf[..n]),
                Err(e) if e.kind() == std::io::ErrorKind::Interrupted => {}
                Err(e) => {
                    run.errors.push(e.to_string());
                    if stop_at_error {
                        break;
                    }
                }
            }
        }
        if run.eof {
            for k in 0..3 {
                let size = size_at(i + k);
                let mut buf = vec![0x5au8; size];
                match dec.read(&mut buf) {
                    Ok(0) => {}
                    other => {
                        run.eof_not_persistent = Some(format!(
                            "call {} after Ok(0) returned {:?}",
                            k + 1,
                            other.map_err(|e| e.to_string())
                        ));
                        break;
                    }
                }
            }
        }
    }
    run.short_served = reader.short_served;
    run.consumed = reader.pos;
    run
}

fn sched_class(sched: &[u8]) -> &'static str {
    if sched.is_empty() {
        "full"
    } else if sched.iter().all(|&k| k <= 1) {
        "all-1-byte"
    } else if sched.iter().all(|&k| k >= 4) {
        "all>=4"
    } else {
        "short-mix"
    }
}

fn dst_class(dst: &[u8]) -> &'static str {
    let min = dst.iter().map(|&d| d.max(1)).min().unwrap_or(64);
    match min {
        1 => "dst-min:1",
        2..=3 => "dst-min:2-3",
        4..=47 => "dst-min:4-47",
        48..=66 => "dst-min:48-66",
        _ => "dst-min:67-80",
    }
}

/// Decode valid text of `data` through one reader schedule and compare.
fn decode_pass(
    reader: &str,
    data: &[u8],
    text: &[u8],
    sched: &[u8],
    dst: &[u8],
) -> Result<DecodeRun, Fail> {
    let run = guard_val(|| run_decoder(text, sched, dst, true))?;
    let ctx = || {
        format!(
            "text {} ({} chars, of {} bytes {}) reader schedule {:?} (cyclic, [] = fill) destination sizes {:?}",
            show(text),
            text.len(),
            data.len(),
            hex(data),
            sched,
            dst
        )
    };
    if let Some(e) = run.errors.first() {
        // valid text, reader never returned 0 before EOF: no error is allowed
        let sig = if run.short_served {
            "decode/short-read-spurious-error".to_string()
        } else {
            format!("decode/{reader}/valid-text-error")
        };
        return Err(Fail::new(
            sig,
            format!(
                "{}: decoder returned Err({e:?}) after {} bytes of input and {} bytes of output{}",
                ctx(),
                run.consumed,
                run.out.len(),
                if run.short_served {
                    " — the underlying reader had returned fewer bytes than requested (allowed by Read), the text is valid"
                } else {
                    ""
                }
            ),
        ));
    }
    if let Some(c) = &run.contract {
        return Err(Fail::new(
            format!("decode/{reader}/read-contract"),
            format!("{}: {c}", ctx()),
        ));
    }
    ensure!(
        run.out == data,
        format!("decode/{reader}/payload-mismatch/len%3={}", data.len() % 3),
        "{}: decoded {} bytes {}, expected {} bytes {}",
        ctx(),
        run.out.len(),
        hex(&run.out),
        data.len(),
        hex(data)
    );
    if let Some(p) = &run.eof_not_persistent {
        return Err(Fail::new(
            format!("decode/{reader}/eof-not-persistent"),
            format!("{}: {p}", ctx()),
        ));
    }
    Ok(run)
}

fn check_decode(data: &[u8], sched: &[u8], dst: &[u8]) -> Outcome {
    let text = ref_encode(data);
    ensure!(
        ref_decode(&text).as_deref() == Some(data),
        "harness/reference-selfcheck",
        "reference decoder does not invert reference encoder on {}",
        hex(data)
    );
    // 1. a reader that always fills the request (payload comparison independent of the
    //    decoder's handling of short reads)
    let full = decode_pass("full-reader", data, &text, &[], dst)?;
    // 2. the generated schedule
    let mut short = false;
    if !sched.is_empty() {
        let run = decode_pass("sched-reader", data, &text, sched, dst)?;
        short = run.short_served;
    }
    let small_dst = dst.iter().any(|&d| (d.max(1) as usize) < data.len());
    let rem = data.len() % 3;
    let nontrivial = rem != 0 && data.len() > 48 && (short || small_dst);
    Ok(Pass::new(nontrivial)
        .label("decode")
        .label(format!("decode/len%3={rem}"))
        .label(format!("decode/{}", len_bucket(data.len())))
        .label(format!("decode/sched:{}", sched_class(sched)))
        .label(format!("decode/{}", dst_class(dst)))
        .label_if(short, "decode/short-read-served")
        .label_if(full.calls > 2, "decode/multi-read"))
}

// ---------------------------------------------------------------------------------------
// rejection

fn apply_edit(text: &mut Vec<u8>, edit: &Edit) -> Option<String> {
    match edit {
        Edit::Remove(k) => {
            let k = (*k).clamp(1, 3) as usize;
            if text.len() < k {
                return None;
            }
            text.truncate(text.len() - k);
            Some(format!("remove-{k}"))
        }
        Edit::Append(idx) => {
            let n = idx.len().clamp(1, 3);
            for i in 0..n {
                let v = idx.get(i).copied().unwrap_or(0);
                text.push(if v >= 64 { b'=' } else { sym(v as u32) });
            }
            Some(format!("append-{n}"))
        }
    }
}

fn check_reject(data: &[u8], edit: &Edit, sched: &[u8], dst: &[u8]) -> Outcome {
    let mut text = ref_encode(data);
    let Some(class) = apply_edit(&mut text, edit) else {
        return Ok(Pass::new(false).label("reject/degenerate"));
    };
    if text.len() % 4 == 0 {
        return Ok(Pass::new(false).label("reject/degenerate"));
    }
    let mut passes: Vec<(&str, &[u8])> = vec![("full-reader", &[])];
    if !sched.is_empty() {
        passes.push(("sched-reader", sched));
    }
    let mut out_before_err = 0usize;
    for (reader, s) in passes {
        let run = guard_val(|| run_decoder(&text, s, dst, true))?;
        if let Some(c) = &run.contract {
            return Err(Fail::new(
                format!("reject/{reader}/read-contract"),
                format!("text {} schedule {:?} dst {:?}: {c}", show(&text), s, dst),
            ));
        }
        ensure!(
            !run.errors.is_empty(),
            format!("reject/{reader}/no-error/{class}"),
            "text {} has {} characters ({} mod 4 = {}; valid text of {} with edit {:?}); read to Ok(0) through schedule {:?}, destination sizes {:?} without any Err: silently produced {} bytes {}",
            show(&text),
            text.len(),
            text.len(),
            text.len() % 4,
            hex(data),
            edit,
            s,
            dst,
            run.out.len(),
            hex(&run.out)
        );
        if reader == "full-reader" {
            out_before_err = run.out.len();
        }
    }
    Ok(Pass::new(text.len() > 4)
        .label("reject")
        .label(format!("reject/{class}"))
        .label(format!("reject/len%4={}", text.len() % 4))
        .label_if(text.len() > 84, "reject/text>84 (error after a buffer refill)")
        .label_if(out_before_err > 0, "reject/output-before-error"))
}

// ---------------------------------------------------------------------------------------
// arbitrary input

fn check_arbitrary(input: &[u8], sched: &[u8], dst: &[u8]) -> Outcome {
    let full = guard_val(|| run_decoder(input, &[], dst, false))?;
    let mut errs = full.errors.len();
    if !sched.is_empty() {
        let run = guard_val(|| run_decoder(input, sched, dst, false))?;
        errs += run.errors.len();
    }
    let valid = ref_decode(input).is_some();
    Ok(Pass::new(input.len() >= 4)
        .label("arbitrary")
        .label(if errs > 0 {
            "arbitrary/some-error"
        } else {
            "arbitrary/no-error"
        })
        .label_if(valid, "arbitrary/is-valid-rfc4648")
        .label_if(input.len() % 4 != 0, "arbitrary/len%4!=0")
        .label_if(
            input.iter().any(|&c| val(c).is_none() && c != b'='),
            "arbitrary/has-non-alphabet-byte",
        ))
}

pub fn check_case(case: &Case) -> Outcome {
    match case {
        Case::Encode { data, pieces } => check_encode(data, pieces),
        Case::Decode { data, sched, dst } => check_decode(data, sched, dst),
        Case::Reject {
            data,
            edit,
            sched,
            dst,
        } => check_reject(data, edit, sched, dst),
        Case::Arbitrary { input, sched, dst } => check_arbitrary(input, sched, dst),
    }
}

// ---------------------------------------------------------------------------------------
// generators

fn byte() -> BoxedStrategy<u8> {
    prop_oneof![
        4 => any::<u8>(),
        1 => proptest::sample::select(vec![0u8, 0xff, 0xfb, 0xfe, 0x3e, 0x3f, 0xef, 0xbf]),
    ]
    .boxed()
}

/// Byte strings built from whole 3-byte groups plus a 0..=2 byte tail, so that shrinking
/// (which removes groups) keeps the length class modulo 3.  Lengths are biased to
/// 0..=8, 45..=53, 60..=68, 93..=101, 189..=197 (around the 48-byte / 64-byte buffers).
fn data(tier: Tier, nonempty: bool) -> BoxedStrategy<Vec<u8>> {
    let g = move |lo: usize, hi: usize| {
        (vec([byte(), byte(), byte()], lo..=hi), vec(byte(), 0..=2)).prop_map(
            move |(groups, tail)| {
                let mut v: Vec<u8> = groups.into_iter().flatten().collect();
                v.extend(tail);
                if nonempty && v.is_empty() {
                    v.push(0);
                }
                v
            },
        )
    };
    let big = tier.pick(100usize, 1666usize);
    prop_oneof![
        3 => g(0, 2),
        2 => g(15, 17),
        2 => g(20, 22),
        2 => g(31, 33),
        2 => g(63, 65),
        3 => g(0, 100),
        1 => g(0, big),
        // long enough for single writes far beyond the codec's internal buffers
        1 => g(250, 700),
    ]
    .boxed()
}

fn pieces() -> BoxedStrategy<Vec<Piece>> {
    let plen = prop_oneof![
        2 => Just(0u16),
        4 => Just(1u16),
        3 => 2u16..=4,
        2 => 5u16..=8,
        2 => 9u16..=70,
        1 => 71u16..=400,
        // one call that carries hundreds of groups (after a short call has left a carry)
        1 => 401u16..=2200,
    ];
    let piece = (plen, any::<bool>(), proptest::bool::weighted(0.08)).prop_map(|(len, all, flush)| Piece { len, all, flush });
    prop_oneof![
        1 => Just(Vec::new()),
        2 => any::<bool>().prop_map(|all| vec![Piece { len: 1, all, flush: false }]),
        3 => vec(piece.clone(), 1..=3),
        4 => vec(piece, 4..=24),
    ]
    .boxed()
}

fn sched() -> BoxedStrategy<Vec<u8>> {
    let k = prop_oneof![
        3 => Just(1u8),
        2 => Just(2u8),
        2 => Just(3u8),
        2 => Just(4u8),
        1 => Just(5u8),
        1 => 6u8..=64,
    ];
    prop_oneof![
        2 => Just(Vec::new()),
        2 => Just(vec![1u8]),
        2 => vec(4u8..=64, 1..=4),
        4 => vec(k, 1..=12),
    ]
    .boxed()
}

fn dst() -> BoxedStrategy<Vec<u8>> {
    let d = prop_oneof![
        3 => Just(1u8),
        2 => 2u8..=4,
        2 => 5u8..=47,
        2 => 48u8..=66,
        1 => 67u8..=80,
    ];
    prop_oneof![
        3 => d.clone().prop_map(|x| vec![x]),
        2 => vec(d, 2..=6),
    ]
    .boxed()
}

fn edit() -> BoxedStrategy<Edit> {
    prop_oneof![
        3 => (1u8..=3).prop_map(Edit::Remove),
        2 => vec(0u8..=64, 1..=3).prop_map(Edit::Append),
    ]
    .boxed()
}

fn arbitrary_input() -> BoxedStrategy<Vec<u8>> {
    let b = prop_oneof![
        6 => (0u32..64).prop_map(sym),
        2 => Just(b'='),
        1 => proptest::sample::select(vec![b'\n', b'\r', b' ', b'-', b'_', 0u8, 0x7f, 0x80, 0xff]),
        2 => any::<u8>(),
    ];
    prop_oneof![
        3 => vec(b.clone(), 0..=12),
        3 => vec(b.clone(), 60..=100),
        2 => vec(b, 0..=300),
        1 => vec(any::<u8>(), 0..=300),
    ]
    .boxed()
}

// deterministic data for the sweeps
fn pattern(seed: u64, len: usize) -> Vec<u8> {
    let mut x = seed
        .wrapping_mul(0x9E37_79B9_7F4A_7C15)
        .wrapping_add(len as u64)
        .wrapping_mul(0xD1B5_4A32_D192_ED03)
        | 1;
    (0..len)
        .map(|_| {
            x ^= x << 13;
            x ^= x >> 7;
            x ^= x << 17;
            (x >> 24) as u8
        })
        .collect()
}

fn sweep_one(sw: &mut Sweep, case: Case) -> Result<(), (Case, Fail)> {
    sw.evaluations += 1;
    match guard(|| check_case(&case)) {
        Ok(p) => {
            if p.nontrivial {
                sw.nontrivial += 1;
            }
            Ok(())
        }
        Err(f) => Err((case, f)),
    }
}

impl Property for C14 {
    type Case = Case;

    fn fuzz(&self) -> Option<FuzzSpec> {
        Some(FuzzSpec { target: "c14", jobs: 8, runs: 6_000_000, max_len: 400, seeds: 300 })
    }

    /// byte 0: kind (encode / decode / reject by removal / reject by appending / arbitrary);
    /// byte 1: n = number of schedule bytes (0..=7); n bytes of write / read schedule;
    /// byte: m = number of destination sizes (0..=3); m bytes; the rest is the data
    fn case_from_bytes(&self, data: &[u8]) -> Option<Case> {
        let mut it = data.iter().copied();
        let kind = it.next()? % 5;
        let n = (it.next()? % 8) as usize;
        let sched: Vec<u8> = it.by_ref().take(n).collect();
        let m = (it.next().unwrap_or(0) % 4) as usize;
        let dst: Vec<u8> = it.by_ref().take(m).map(|b| b % 80 + 1).collect();
        let rest: Vec<u8> = it.collect();
        let read_sched: Vec<u8> = sched.iter().map(|b| b % 9 + 1).collect();
        Some(match kind {
            0 => Case::Encode {
                data: rest,
                pieces: sched.iter().map(|b| Piece { len: (b >> 1) as u16 % 70, all: b & 1 == 1, flush: *b >= 0xe8 }).collect(),
            },
            1 => Case::Decode { data: rest, sched: read_sched, dst },
            2 => Case::Reject { data: rest, edit: Edit::Remove(n as u8 % 3 + 1), sched: read_sched, dst },
            3 => Case::Reject {
                data: rest,
                edit: Edit::Append(sched.iter().take(n % 3 + 1).map(|b| b % 65).collect::<Vec<u8>>()),
                sched: read_sched,
                dst,
            },
            _ => Case::Arbitrary { input: rest, sched: read_sched, dst },
        })
    }

    fn case_to_bytes(&self, case: &Case) -> Option<Vec<u8>> {
        let pack = |kind: u8, sched: &[u8], dst: &[u8], data: &[u8]| {
            let sched = &sched[..sched.len().min(7)];
            let dst = &dst[..dst.len().min(3)];
            let mut out = vec![kind, sched.len() as u8];
            out.extend_from_slice(sched);
            out.push(dst.len() as u8);
            out.extend(dst.iter().map(|d| d.saturating_sub(1)));
            out.extend_from_slice(data);
            out
        };
        Some(match case {
            Case::Encode { data, pieces } => {
                let sched: Vec<u8> = pieces.iter().map(|p| ((p.len.min(69) as u8) << 1) | p.all as u8).collect();
                pack(0, &sched, &[], data)
            }
            Case::Decode { data, sched, dst } => pack(1, &sched.iter().map(|b| b.saturating_sub(1)).collect::<Vec<_>>(), dst, data),
            Case::Arbitrary { input, sched, dst } => pack(4, &sched.iter().map(|b| b.saturating_sub(1)).collect::<Vec<_>>(), dst, input),
            Case::Reject { .. } => return None,
        })
    }

    fn id(&self) -> &'static str {
        "C14"
    }

    fn strategy(&self, tier: Tier) -> BoxedStrategy<Case> {
        prop_oneof![
            3 => (data(tier, false), pieces()).prop_map(|(data, pieces)| Case::Encode { data, pieces }),
            4 => (data(tier, false), sched(), dst())
                .prop_map(|(data, sched, dst)| Case::Decode { data, sched, dst }),
            2 => (data(tier, true), edit(), sched(), dst()).prop_map(|(data, edit, sched, dst)| {
                Case::Reject { data, edit, sched, dst }
            }),
            1 => (arbitrary_input(), sched(), dst())
                .prop_map(|(input, sched, dst)| Case::Arbitrary { input, sched, dst }),
        ]
        .boxed()
    }

    fn check(&self, case: &Case) -> Outcome {
        check_case(case)
    }

    fn cases(&self, tier: Tier) -> u32 {
        tier.pick(60_000, 1_000_000)
    }

    fn max_shrink_iters(&self) -> u32 {
        20_000
    }

    fn rule(&self) -> String {
        "sweep: RFC 4648 §10 vectors; every byte string of length 0..=2 (thorough: also every 3-byte string) encoded (one write, 1-byte writes) and decoded (filling reader, destination 1 and 80); \
         pseudo-random strings of every length 0..=400 (thorough 0..=1500) x write size {whole,0+1,1..=8,47..=49,63..=65} and x destination size 1..=80 (filling reader). \
         generated: byte strings of length 0..=302 and (one in fifteen) 750..=2102 (thorough ..=5000), built from 3-byte groups + 0..=2 tail bytes, biased to 0..8, 45..53, 60..68, 93..101, 189..197; \
         Encode: cyclic partition of write/write_all calls of sizes 0,1,2..4,5..8,9..70,71..400,401..2200 (label `encode/single-call>=768-after-carry`); \
         Decode: reference text through an own Read following a cyclic schedule of 1,2,3,4,5,6..64 bytes per call (never 0 before EOF; classes: fill, all-1-byte, all>=4, mixed) and destination sizes 1..=80 (cyclic list of 1..=6 sizes), each case also run with a filling reader; \
         Reject: reference text with 1..3 trailing characters removed or 1..3 alphabet/'=' characters appended; Arbitrary: alphabet-biased and uniform bytes, 0..=300. \
         non-trivial = Encode/Decode: length % 3 != 0 and length > 48 and (>= 2 non-empty writes | a short read was served or a destination buffer smaller than the payload); Reject: at least one complete group before the bad tail; Arbitrary: >= 4 bytes".into()
    }

    fn assumptions(&self) -> Vec<String> {
        vec![
            "RFC 4648 §4 alphabet with '=' padding, no line breaks; reference = own bit-accumulator codec checked against the RFC §10 vectors".into(),
            "the encoder's sink is a Vec<u8> and, in a second run of every Encode case, a sink that accepts only 1-13 bytes per write call (never fails, never returns 0); a partial `write` result of the encoder is completed by further `write` calls as the Write contract prescribes".into(),
            "the underlying reader never returns Ok(0) before the end of the text, never errors and keeps returning Ok(0) at the end; fewer bytes than requested is a legal Read result".into(),
            "destination buffers are never empty (a read into an empty buffer returns Ok(0) by contract and says nothing)".into(),
            "rejection: an Err from any read call before the first Ok(0) counts as 'reports an error'; nothing is demanded of the bytes delivered before the error or of the decoder's state after it".into(),
            "arbitrary bytes: only absence of panics is demanded (the decoder is also driven on after errors)".into(),
            "a flush() after some of the writes (8% of the pieces) must not change the text: whatever sequence of calls wrote the bytes, finish() yields the RFC 4648 text of all of them; not covered: non-canonical but valid text (non-zero trailing bits), failing sinks/readers — the property is silent on them".into(),
        ]
    }

    fn sweep(&self, tier: Tier, seed: u64, sw: &mut Sweep) -> Result<(), (Case, Fail)> {
        // reference self-check + library on the RFC vectors
        for (plain, text) in RFC_VECTORS {
            let enc = ref_encode(plain.as_bytes());
            if enc != text.as_bytes() || ref_decode(text.as_bytes()).as_deref() != Some(plain.as_bytes()) {
                return Err((
                    Case::Encode { data: plain.as_bytes().to_vec(), pieces: vec![] },
                    Fail::new(
                        "harness/reference-selfcheck",
                        format!("reference codec disagrees with RFC 4648 vector {plain:?} -> {text:?}: {}", show(&enc)),
                    ),
                ));
            }
            sweep_one(sw, Case::Encode { data: plain.as_bytes().to_vec(), pieces: vec![] })?;
            sweep_one(sw, Case::Decode { data: plain.as_bytes().to_vec(), sched: vec![], dst: vec![80] })?;
        }
        // exhaustive short strings
        let one = vec![Piece { len: 1, all: false, flush: false }];
        let mut short: Vec<Vec<u8>> = vec![vec![]];
        short.extend((0..=255u8).map(|a| vec![a]));
        for a in 0..=255u8 {
            for b in 0..=255u8 {
                short.push(vec![a, b]);
            }
        }
        for d in short {
            sweep_one(sw, Case::Encode { data: d.clone(), pieces: vec![] })?;
            sweep_one(sw, Case::Encode { data: d.clone(), pieces: one.clone() })?;
            sweep_one(sw, Case::Decode { data: d.clone(), sched: vec![], dst: vec![80] })?;
            sweep_one(sw, Case::Decode { data: d, sched: vec![], dst: vec![1] })?;
        }
        let mut note = "all byte strings of length 0..=2".to_string();
        if tier == Tier::Thorough {
            for a in 0..=255u8 {
                for b in 0..=255u8 {
                    for c in 0..=255u8 {
                        let d = vec![a, b, c];
                        sweep_one(sw, Case::Encode { data: d.clone(), pieces: vec![] })?;
                        sweep_one(sw, Case::Decode { data: d, sched: vec![], dst: vec![3] })?;
                    }
                }
            }
            note = "all byte strings of length 0..=3".to_string();
        }
        // every length x write size / destination size
        let max_len = tier.pick(400usize, 1500usize);
        let mut sizes: Vec<Vec<Piece>> = vec![vec![]];
        sizes.push(vec![Piece { len: 0, all: false, flush: false }, Piece { len: 1, all: true, flush: true }]);
        for p in (1..=8u16).chain(47..=49).chain(63..=65) {
            sizes.push(vec![Piece { len: p, all: p % 2 == 0, flush: p % 5 == 0 }]);
        }
        for len in 0..=max_len {
            let d = pattern(seed, len);
            for s in &sizes {
                sweep_one(sw, Case::Encode { data: d.clone(), pieces: s.clone() })?;
            }
            for size in 1..=80u8 {
                sweep_one(sw, Case::Decode { data: d.clone(), sched: vec![], dst: vec![size] })?;
            }
        }
        sw.exhaustive_note = Some(format!(
            "{note} (encode whole / 1-byte writes, decode with destination 1 / 80); every length 0..={max_len} x {} write partitions x destination size 1..=80 on pseudo-random data, filling reader",
            sizes.len()
        ));
        sw.samples.push(serde_json::json!({"sweep": "length x destination-size", "len": 64, "dst": [1]}));
        *sw.labels.entry("sweep".into()).or_default() += sw.evaluations;
        Ok(())
    }
}
