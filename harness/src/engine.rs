//! Generic property-based-testing engine shared by every check.
//!
//! One `Property` = generator (proptest strategy) + oracle (`check`) + non-triviality
//! classifier.  The engine owns: sharding over threads, seeding, panic capture,
//! optional worker-subprocess isolation (for code that can abort), known-finding
//! suppression by signature, shrinking (proptest), replay files and the evidence file.

use proptest::strategy::{BoxedStrategy, Strategy, ValueTree};
use proptest::test_runner::{Config, RngSeed, TestCaseError, TestError, TestRunner};
use serde::{Serialize, de::DeserializeOwned};
use std::collections::{BTreeMap, HashSet};
use std::fmt::Debug;
use std::hash::{Hash, Hasher};
use std::io::{BufRead, BufReader, Write};
use std::panic::{AssertUnwindSafe, catch_unwind};
use std::path::{Path, PathBuf};
use std::process::{Child, ChildStdin, ChildStdout, Command, Stdio};
use std::sync::atomic::{AtomicBool, AtomicUsize, Ordering};
use std::sync::{Arc, Mutex};
use std::time::Instant;

/// Root of the verification tree (`/verif`); overridable for scratch copies.
pub fn verif_root() -> PathBuf {
    std::env::var_os("VERIF_ROOT")
        .map(PathBuf::from)
        .unwrap_or_else(|| PathBuf::from("/verif"))
}
pub const SHARDS: usize = 16;

#[derive(Clone, Copy, Debug, PartialEq, Eq)]
pub enum Tier {
    Quick,
    Thorough,
}

impl Tier {
    pub fn name(self) -> &'static str {
        match self {
            Tier::Quick => "quick",
            Tier::Thorough => "thorough",
        }
    }
    pub fn pick<T>(self, quick: T, thorough: T) -> T {
        match self {
            Tier::Quick => quick,
            Tier::Thorough => thorough,
        }
    }
}

/// A case that satisfied the oracle.
#[derive(Debug, Clone, Default, Serialize, serde::Deserialize)]
pub struct Pass {
    /// non-trivial by the property's stated rule
    pub nontrivial: bool,
    /// labels for the distribution histogram
    pub labels: Vec<String>,
}

impl Pass {
    pub fn new(nontrivial: bool) -> Self {
        Self {
            nontrivial,
            labels: Vec::new(),
        }
    }
    pub fn label(mut self, l: impl Into<String>) -> Self {
        self.labels.push(l.into());
        self
    }
    pub fn label_if(mut self, cond: bool, l: &str) -> Self {
        if cond {
            self.labels.push(l.to_string());
        }
        self
    }
}

/// A case that violated the oracle.  `sig` is the stable signature used for the
/// known-findings file: `<oracle>/<class>`; `msg` is for humans.
#[derive(Debug, Clone, Serialize, serde::Deserialize)]
pub struct Fail {
    pub sig: String,
    pub msg: String,
}

impl Fail {
    pub fn new(sig: impl Into<String>, msg: impl Into<String>) -> Self {
        Self {
            sig: sig.into(),
            msg: msg.into(),
        }
    }
}

pub type Outcome = Result<Pass, Fail>;

#[macro_export]
macro_rules! ensure {
    ($cond:expr, $sig:expr, $($arg:tt)*) => {
        if !($cond) {
            return Err($crate::engine::Fail::new($sig, format!($($arg)*)));
        }
    };
}

/// Result of an exhaustive / deterministic sweep run before the random search.
#[derive(Default)]
pub struct Sweep {
    pub evaluations: u64,
    pub nontrivial: u64,
    pub exhaustive_note: Option<String>,
    pub labels: BTreeMap<String, u64>,
    pub samples: Vec<serde_json::Value>,
}

pub trait Property: Sync + Send + 'static {
    type Case: Clone + Debug + Serialize + DeserializeOwned + Send + 'static;

    fn id(&self) -> &'static str;
    /// generator
    fn strategy(&self, tier: Tier) -> BoxedStrategy<Self::Case>;
    /// oracle; panics are caught by the engine and turned into `Fail{sig:"panic:…"}`
    fn check(&self, case: &Self::Case) -> Outcome;
    /// cases per shard (16 shards)
    fn cases(&self, tier: Tier) -> u32;
    /// generator + non-triviality rule, in words
    fn rule(&self) -> String;
    fn assumptions(&self) -> Vec<String>;
    /// run each case in a worker subprocess (code under test may abort)
    fn isolate(&self) -> bool {
        false
    }
    /// deterministic sweeps (exhaustive sub-spaces); Err = violation found
    fn sweep(&self, _tier: Tier, _seed: u64, _sweep: &mut Sweep) -> Result<(), (Self::Case, Fail)> {
        Ok(())
    }
    /// level reported in the evidence file
    fn level(&self) -> &'static str {
        "exploration"
    }
    /// max shrink iterations
    fn max_shrink_iters(&self) -> u32 {
        4096
    }
    /// isolated checks only: seconds a single case may take before the worker is killed
    fn case_timeout_s(&self) -> u64 {
        120
    }
    /// the property itself claims termination ("never fails to terminate", "returns a value
    /// or an error"): a case that does not finish twice in a row (second try with twice the
    /// time, in a fresh worker) is then a violation; otherwise it is inconclusive
    fn claims_termination(&self) -> bool {
        false
    }
    /// A failure (by signature) that the check has already confirmed by repetition INSIDE the
    /// case and whose trigger is a real race between threads that the harness does not own: a
    /// re-execution from scratch cannot be expected to hit the window again. Such a failure is
    /// re-executed more often than others, and if it still does not repeat it is reported all
    /// the same, with the case that showed it (its replay is then probabilistic).
    fn self_confirming(&self, _sig: &str) -> bool {
        false
    }
    /// coverage-guided stage of the thorough tier (libFuzzer through cargo-fuzz)
    fn fuzz(&self) -> Option<FuzzSpec> {
        None
    }
    /// structured decoding of libFuzzer's bytes into a case (total: None = input ignored).
    /// Default: the bytes are the entropy stream of the property's own generator
    /// (`case_from_entropy`), so every byte string decodes into a case of the generated domain
    fn case_from_bytes(&self, data: &[u8]) -> Option<Self::Case>
    where
        Self: Sized,
    {
        case_from_entropy(self, data)
    }
    /// length of the pseudo-random continuation appended to the fuzzer's bytes (must exceed the
    /// entropy the largest generated case draws; see `entropy_stats`)
    fn entropy_tail(&self) -> usize {
        1 << 14
    }
    /// generator whose entropy the coverage-guided stage mutates (default: the quick generator)
    fn fuzz_strategy(&self) -> BoxedStrategy<Self::Case> {
        self.strategy(Tier::Quick)
    }
    /// inverse of `case_from_bytes` where one exists: generated cases seed the fuzzer's corpus
    fn case_to_bytes(&self, _case: &Self::Case) -> Option<Vec<u8>> {
        None
    }
}

thread_local! {
    static ENTROPY_STRATEGY: std::cell::RefCell<Option<Box<dyn std::any::Any>>> = const { std::cell::RefCell::new(None) };
}

/// Generic structure-aware decoding for the coverage-guided stage: the fuzzer's bytes replace the
/// random number generator behind the property's proptest strategy (`RngAlgorithm::PassThrough`;
/// zeros once the bytes are used up). Every byte string therefore denotes a case of exactly the
/// domain the generated search draws from, a mutation of the bytes is a local mutation of the
/// case, and no second hand-written decoder has to be kept in step with the generator.
pub fn case_from_entropy<P: Property>(prop: &P, data: &[u8]) -> Option<P::Case> {
    use proptest::test_runner::{RngAlgorithm, TestRng};
    if data.is_empty() {
        return None;
    }
    ENTROPY_STRATEGY.with(|slot| {
        let mut slot = slot.borrow_mut();
        let cached = slot.as_ref().map(|b| b.is::<BoxedStrategy<P::Case>>()).unwrap_or(false);
        if !cached {
            *slot = Some(Box::new(prop.fuzz_strategy()));
        }
        let strategy = slot.as_ref()?.downcast_ref::<BoxedStrategy<P::Case>>()?;
        // The pass-through generator answers zeros once its bytes are used up, and rand's
        // uniform-integer rejection loop never accepts an all-zero stream: the fuzzer's bytes are
        // therefore followed by a pseudo-random tail that is a pure function of them (long enough
        // for the largest case of the generator, `entropy_tail`). The head of the case follows the
        // fuzzer's bytes one to one; whatever lies beyond them (and the second stage of a
        // `prop_flat_map`, which is handed the far half of the stream) varies with their hash.
        let tail = prop.entropy_tail();
        let mut buf = Vec::with_capacity(data.len() + tail + 8);
        buf.extend_from_slice(data);
        let mut x = 0xcbf2_9ce4_8422_2325u64;
        for b in data {
            x = (x ^ *b as u64).wrapping_mul(0x0100_0000_01b3);
        }
        x |= 1;
        while buf.len() < data.len() + tail {
            x ^= x << 13;
            x ^= x >> 7;
            x ^= x << 17;
            buf.extend_from_slice(&x.to_le_bytes());
        }
        let rng = TestRng::from_seed(RngAlgorithm::PassThrough, &buf);
        let mut runner = TestRunner::new_with_rng(
            Config { failure_persistence: None, max_local_rejects: 64, ..Config::default() },
            rng,
        );
        strategy.new_tree(&mut runner).ok().map(|t| t.current())
    })
}

/// Diagnostic (`snt-check <ID> --entropy-stats`): how many bytes of entropy the fuzz generator
/// draws per case (measured with proptest's recording generator), to size `entropy_tail`.
pub fn entropy_stats<P: Property>(prop: &P) -> i32 {
    use proptest::test_runner::{RngAlgorithm, TestRng};
    let strategy = prop.fuzz_strategy();
    let (mut max, mut sum, n) = (0usize, 0usize, 3000usize);
    for i in 0..n {
        let mut seed = [0u8; 32];
        seed[..8].copy_from_slice(&(i as u64 + 1).to_le_bytes());
        let rng = TestRng::from_seed(RngAlgorithm::Recorder, &seed);
        let mut runner = TestRunner::new_with_rng(Config { failure_persistence: None, ..Config::default() }, rng);
        let _ = strategy.new_tree(&mut runner).map(|t| t.current());
        let used = runner.bytes_used().len();
        max = max.max(used);
        sum += used;
    }
    // decoding self-test: pseudo-random byte strings must decode (and quickly)
    let t0 = Instant::now();
    let mut decoded = 0usize;
    let mut x = 0x1234_5678_9abc_def1u64;
    for i in 0..2000usize {
        let len = 1 + (i * 37) % 3000;
        let data: Vec<u8> = (0..len)
            .map(|_| {
                x ^= x << 13;
                x ^= x >> 7;
                x ^= x << 17;
                (x >> 32) as u8
            })
            .collect();
        if case_from_entropy(prop, &data).is_some() {
            decoded += 1;
        }
    }
    println!("{} decoded {decoded}/2000 pseudo-random entropy strings in {:.2}s", prop.id(), t0.elapsed().as_secs_f64());
    println!("{} entropy per case: mean {} max {} bytes over {} cases; tail configured {}", prop.id(), sum / n, max, n, prop.entropy_tail());
    0
}

/// Parameters of the coverage-guided stage
#[derive(Clone, Debug)]
pub struct FuzzSpec {
    /// binary target of the cargo-fuzz crate `<root>/fuzz`
    pub target: &'static str,
    /// parallel libFuzzer processes, each with its own corpus directory and seed
    pub jobs: usize,
    /// executions per process (fixed work, `-runs=N`)
    pub runs: u64,
    pub max_len: usize,
    /// generated cases written into every fresh corpus directory as seeds
    pub seeds: usize,
}

// ---------------------------------------------------------------------------------------
// panic capture

thread_local! {
    static LAST_PANIC: std::cell::RefCell<Option<(String, String)>> = const { std::cell::RefCell::new(None) };
    static QUIET: std::cell::Cell<bool> = const { std::cell::Cell::new(false) };
}

pub fn install_panic_hook() {
    let default = std::panic::take_hook();
    std::panic::set_hook(Box::new(move |info| {
        let quiet = QUIET.with(|q| q.get());
        if !quiet {
            default(info);
            return;
        }
        let msg = if let Some(s) = info.payload().downcast_ref::<&str>() {
            s.to_string()
        } else if let Some(s) = info.payload().downcast_ref::<String>() {
            s.clone()
        } else {
            "<non-string panic>".to_string()
        };
        let loc = info
            .location()
            .map(|l| format!("{}:{}", l.file(), l.line()))
            .unwrap_or_default();
        // function of the first surf_n_term frame (robust against line shifts)
        let bt = std::backtrace::Backtrace::force_capture().to_string();
        let mut func = String::new();
        if std::env::var_os("VERIF_DEBUG_BT").is_some() {
            eprintln!("{bt}");
        }
        // first frame whose source file is neither std/core, a registry crate nor this harness:
        // that is the library function that panicked: "<function>@<file>"
        let harness_src = concat!(env!("CARGO_MANIFEST_DIR"), "/src/");
        let mut last_sym = String::new();
        for line in bt.lines() {
            let line = line.trim();
            if let Some(path) = line.strip_prefix("at ") {
                let foreign = path.starts_with("/rustc/")
                    || path.contains("/.cargo/registry/")
                    || path.contains("/rustlib/")
                    || path.starts_with(harness_src)
                    || !path.starts_with('/');
                if !foreign && !last_sym.is_empty() {
                    let file = path.split(':').next().unwrap_or("");
                    let base = file.rsplit('/').next().unwrap_or(file);
                    // drop generic arguments from the symbol
                    let name = last_sym.split('<').next().unwrap_or(&last_sym).to_string();
                    let name = if name.is_empty() { last_sym.clone() } else { name };
                    func = format!("{name}@{base}");
                    break;
                }
            } else if let Some(idx) = line.find(": ") {
                last_sym = line[idx + 2..].to_string();
            }
        }
        LAST_PANIC.with(|p| *p.borrow_mut() = Some((format!("{func}|{msg}"), loc)));
    }));
}

fn normalize_panic_msg(msg: &str) -> String {
    // keep the stable part of a panic message: strip numbers that depend on the input
    let first = msg.lines().next().unwrap_or("");
    let mut out = String::new();
    let mut last_digit = false;
    for c in first.chars() {
        if c.is_ascii_digit() {
            if !last_digit {
                out.push('N');
            }
            last_digit = true;
        } else {
            out.push(c);
            last_digit = false;
        }
    }
    if out.len() > 120 {
        let mut end = 120;
        while !out.is_char_boundary(end) {
            end -= 1;
        }
        out.truncate(end);
    }
    out
}

/// Run `f`, converting a panic into a `Fail` with signature `panic:<function>|<message>`.
pub fn guard<T>(f: impl FnOnce() -> Result<T, Fail>) -> Result<T, Fail> {
    let prev = QUIET.with(|q| q.replace(true));
    let r = catch_unwind(AssertUnwindSafe(f));
    QUIET.with(|q| q.set(prev));
    match r {
        Ok(r) => r,
        Err(_) => {
            let (what, loc) = LAST_PANIC
                .with(|p| p.borrow_mut().take())
                .unwrap_or_else(|| ("?|?".to_string(), String::new()));
            let (func, msg) = what.split_once('|').unwrap_or(("", &what));
            // strip the hash suffix of the symbol
            let func = match func.rfind("::h") {
                Some(i) if func.len() - i == 19 => &func[..i],
                _ => func,
            };
            Err(Fail::new(
                format!("panic:{}|{}", func, normalize_panic_msg(msg)),
                format!("panic at {loc}: {msg}"),
            ))
        }
    }
}

/// Like `guard` but for code returning plain values: panics become Err(Fail).
pub fn guard_val<T>(f: impl FnOnce() -> T) -> Result<T, Fail> {
    guard(|| Ok(f()))
}

// ---------------------------------------------------------------------------------------
// known findings

#[derive(Debug, Clone)]
pub struct KnownFinding {
    pub property: String,
    pub sig: String,
    pub witness: Option<PathBuf>,
    pub what: String,
}

pub fn load_known_findings(id: &str) -> Vec<KnownFinding> {
    let path = verif_root().join("known_findings.txt");
    let Ok(text) = std::fs::read_to_string(path) else {
        return Vec::new();
    };
    let mut out = Vec::new();
    for line in text.lines() {
        let line = line.trim();
        let Some(rest) = line.strip_prefix("finding:") else {
            continue;
        };
        // finding: property=C01 sig=<sig> witness=<relpath> :: text
        let (head, what) = rest.split_once("::").unwrap_or((rest, ""));
        let mut property = String::new();
        let mut sig = String::new();
        let mut witness = None;
        for tok in head.split_whitespace() {
            if let Some(v) = tok.strip_prefix("property=") {
                property = v.to_string();
            } else if let Some(v) = tok.strip_prefix("sig=") {
                sig = v.to_string();
            } else if let Some(v) = tok.strip_prefix("witness=") {
                witness = Some(verif_root().join(v));
            }
        }
        if property == id && !sig.is_empty() {
            out.push(KnownFinding {
                property,
                sig,
                witness,
                what: what.trim().to_string(),
            });
        }
    }
    out
}

// ---------------------------------------------------------------------------------------
// worker protocol

#[derive(Serialize, serde::Deserialize)]
enum WorkerReply {
    Ok(Pass),
    Fail(Fail),
    /// the verdict of a case that leaves the worker unusable (a thread stuck in the code under
    /// test): the worker exits right after writing it
    FailAndExit(Fail),
}

/// Worker side, any thread: report the verdict of the case in flight and end the process (the
/// main thread is stuck in the code under test and holds the stdout lock, so the line is
/// written to the descriptor directly).
pub fn worker_fail_and_exit(f: Fail) -> ! {
    let mut line = serde_json::to_string(&WorkerReply::FailAndExit(f)).unwrap();
    line.push('\n');
    unsafe {
        libc::write(1, line.as_ptr() as *const libc::c_void, line.len());
        libc::_exit(0);
    }
}

/// Worker side: read one JSON case per line, answer one JSON line.
pub fn worker_main<P: Property>(prop: &P) -> i32 {
    let stdin = std::io::stdin();
    let stdout = std::io::stdout();
    let mut out = stdout.lock();
    for line in stdin.lock().lines() {
        let Ok(line) = line else { break };
        if line.is_empty() {
            continue;
        }
        let case: P::Case = match serde_json::from_str(&line) {
            Ok(c) => c,
            Err(e) => {
                let _ = writeln!(
                    out,
                    "{}",
                    serde_json::to_string(&WorkerReply::Fail(Fail::new(
                        "harness/bad-case",
                        e.to_string()
                    )))
                    .unwrap()
                );
                let _ = out.flush();
                continue;
            }
        };
        let reply = match guard(|| prop.check(&case)) {
            Ok(p) => WorkerReply::Ok(p),
            Err(f) => WorkerReply::Fail(f),
        };
        if writeln!(out, "{}", serde_json::to_string(&reply).unwrap()).is_err() {
            break;
        }
        let _ = out.flush();
    }
    0
}

struct WorkerHandle {
    child: Child,
    stdin: ChildStdin,
    stdout: BufReader<ChildStdout>,
    /// the worker announced that it exits after its last reply
    exited: bool,
}

impl WorkerHandle {
    fn spawn(id: &str) -> std::io::Result<Self> {
        let exe = std::env::current_exe()?;
        let mut child = Command::new(exe)
            .arg("--worker")
            .arg(id)
            .stdin(Stdio::piped())
            .stdout(Stdio::piped())
            .stderr(Stdio::null())
            .spawn()?;
        let stdin = child.stdin.take().unwrap();
        let stdout = BufReader::new(child.stdout.take().unwrap());
        Ok(Self {
            child,
            stdin,
            stdout,
            exited: false,
        })
    }

    /// Err(true) = timed out, Err(false) = worker died
    fn run(&mut self, json: &str, timeout_s: u64) -> Result<Outcome, bool> {
        use std::os::fd::AsRawFd;
        if writeln!(self.stdin, "{json}").is_err() || self.stdin.flush().is_err() {
            return Err(false);
        }
        // wait for the answer line with a deadline (the reply is written in one piece)
        if self.stdout.buffer().is_empty() {
            let fd = self.stdout.get_ref().as_raw_fd();
            let deadline = Instant::now() + std::time::Duration::from_secs(timeout_s);
            loop {
                let left = deadline.saturating_duration_since(Instant::now());
                if left.is_zero() {
                    return Err(true);
                }
                let mut pfd = libc::pollfd { fd, events: libc::POLLIN, revents: 0 };
                let ms = left.as_millis().min(1000) as i32;
                let r = unsafe { libc::poll(&mut pfd, 1, ms) };
                if r > 0 {
                    break;
                }
            }
        }
        let mut line = String::new();
        match self.stdout.read_line(&mut line) {
            Ok(0) | Err(_) => Err(false),
            Ok(_) => match serde_json::from_str::<WorkerReply>(&line) {
                Ok(WorkerReply::Ok(p)) => Ok(Ok(p)),
                Ok(WorkerReply::Fail(f)) => Ok(Err(f)),
                Ok(WorkerReply::FailAndExit(f)) => {
                    self.exited = true;
                    Ok(Err(f))
                }
                Err(_) => Err(false),
            },
        }
    }
}

impl Drop for WorkerHandle {
    fn drop(&mut self) {
        let _ = self.child.kill();
        let _ = self.child.wait();
    }
}

/// Executes one case either in-process or through a worker.
struct Executor<'a, P: Property> {
    prop: &'a P,
    worker: Option<WorkerHandle>,
    isolate: bool,
}

impl<'a, P: Property> Executor<'a, P> {
    fn new(prop: &'a P, isolate: bool) -> Self {
        Self {
            prop,
            worker: None,
            isolate,
        }
    }

    fn exec(&mut self, case: &P::Case) -> Outcome {
        if !self.isolate {
            return guard(|| self.prop.check(case));
        }
        let json = serde_json::to_string(case).expect("case serialises");
        let mut timeout = self.prop.case_timeout_s();
        for attempt in 0..2 {
            if self.worker.is_none() {
                match WorkerHandle::spawn(self.prop.id()) {
                    Ok(w) => self.worker = Some(w),
                    Err(e) => {
                        eprintln!("INCONCLUSIVE: cannot spawn worker: {e}");
                        std::process::exit(2);
                    }
                }
            }
            let w = self.worker.as_mut().unwrap();
            match w.run(&json, timeout) {
                Ok(outcome) => {
                    if w.exited {
                        self.worker = None;
                    }
                    return outcome;
                }
                Err(false) => {
                    // worker died while executing this case
                    let status = w
                        .child
                        .wait()
                        .map(|s| format!("{s}"))
                        .unwrap_or_else(|e| e.to_string());
                    self.worker = None;
                    return Err(Fail::new(
                        "abort/worker-died",
                        format!("worker process died while executing the case ({status})"),
                    ));
                }
                Err(true) => {
                    // no answer in time: kill the worker, try once more with twice the time
                    self.worker = None;
                    if attempt == 0 {
                        timeout *= 2;
                        continue;
                    }
                    return Err(if self.prop.claims_termination() {
                        Fail::new(
                            "terminate/case-did-not-finish",
                            format!(
                                "the case did not finish within {} s and, re-run in a fresh process, not within {} s either (other cases take milliseconds)",
                                timeout / 2,
                                timeout
                            ),
                        )
                    } else {
                        Fail::new("inconclusive/case-timeout", format!("case did not finish within {timeout} s twice"))
                    });
                }
            }
        }
        unreachable!()
    }
}

// ---------------------------------------------------------------------------------------
// evidence

#[derive(Default)]
struct Stats {
    evaluations: u64,
    nontrivial_keys: HashSet<u64>,
    labels: BTreeMap<String, u64>,
    excluded_known: BTreeMap<String, u64>,
    samples_nt: Vec<serde_json::Value>,
    samples_trivial: Vec<serde_json::Value>,
}

fn case_key<C: Serialize>(case: &C) -> (u64, String) {
    let s = serde_json::to_string(case).unwrap_or_default();
    let mut h = std::collections::hash_map::DefaultHasher::new();
    s.hash(&mut h);
    (h.finish(), s)
}

fn shorten(v: serde_json::Value) -> serde_json::Value {
    let s = v.to_string();
    if s.len() <= 1500 {
        v
    } else {
        let mut end = 1500;
        while !s.is_char_boundary(end) {
            end -= 1;
        }
        serde_json::Value::String(format!("{}…(+{} bytes)", &s[..end], s.len() - end))
    }
}


// ---------------------------------------------------------------------------------------
// coverage-guided stage (libFuzzer)

/// Entry of the cargo-fuzz targets: decode, run the property's oracle in-process, abort on a
/// failure whose signature is not a listed known finding.
pub fn fuzz_one<P: Property>(prop: &P, data: &[u8]) {
    static INIT: std::sync::Once = std::sync::Once::new();
    static KNOWN: std::sync::OnceLock<HashSet<String>> = std::sync::OnceLock::new();
    // libfuzzer-sys installs a panic hook that aborts; ours captures panics raised inside the
    // oracle (they become `Fail`s) and falls through to the aborting one otherwise
    INIT.call_once(install_panic_hook);
    let known = KNOWN.get_or_init(|| load_known_findings(prop.id()).into_iter().map(|k| k.sig).collect());
    let Some(case) = prop.case_from_bytes(data) else { return };
    if let Err(f) = guard(|| prop.check(&case)) {
        if known.contains(&f.sig) || f.sig.starts_with("inconclusive/") {
            return;
        }
        eprintln!("VERIF-FAIL property={} sig={} :: {}", prop.id(), f.sig, f.msg);
        std::process::abort();
    }
}

pub enum FuzzOutcome {
    /// the campaign ran: summary for the evidence file
    Ran(serde_json::Value),
    /// nightly toolchain / cargo-fuzz / build not usable: reason for the evidence file
    Unavailable(String),
    Violation(Vec<u8>),
    Inconclusive(String),
}

fn fuzz_stage<P: Property>(prop: &P, spec: &FuzzSpec, seed: u64) -> FuzzOutcome {
    let root = verif_root();
    let fuzz_dir = root.join("fuzz");
    let target_dir = root.join("target").join("fuzz");
    let started = Instant::now();
    if std::env::var("VERIF_FUZZ").as_deref() == Ok("0") {
        return FuzzOutcome::Unavailable("disabled by VERIF_FUZZ=0".into());
    }
    // the fuzz crate's lock file starts as a copy of the harness's (offline resolution)
    let lock = fuzz_dir.join("Cargo.lock");
    if !lock.exists() {
        let _ = std::fs::copy(root.join("harness").join("Cargo.lock"), &lock);
    }
    let build = Command::new("cargo")
        .args(["+nightly", "fuzz", "build", "-s", "none", "--fuzz-dir"])
        .arg(&fuzz_dir)
        .arg("--target-dir")
        .arg(&target_dir)
        .arg(spec.target)
        .env("CARGO_NET_OFFLINE", "true")
        .env_remove("CARGO_TARGET_DIR")
        .stdin(Stdio::null())
        .output();
    let build = match build {
        Ok(b) => b,
        Err(e) => return FuzzOutcome::Unavailable(format!("cargo +nightly fuzz build could not be started: {e}")),
    };
    if !build.status.success() {
        let err = String::from_utf8_lossy(&build.stderr);
        let tail: String = err.lines().rev().take(12).collect::<Vec<_>>().into_iter().rev().collect::<Vec<_>>().join(" | ");
        return FuzzOutcome::Unavailable(format!("cargo +nightly fuzz build failed: {tail}"));
    }
    let bin = target_dir.join("x86_64-unknown-linux-gnu").join("release").join(spec.target);
    if !bin.exists() {
        return FuzzOutcome::Unavailable(format!("fuzz binary not found at {}", bin.display()));
    }
    let build_s = started.elapsed().as_secs_f64();
    let runs: u64 = std::env::var("VERIF_FUZZ_RUNS").ok().and_then(|v| v.parse().ok()).unwrap_or(spec.runs);
    // seeds: generated cases that have a byte form
    let strategy = prop.strategy(Tier::Quick);
    let mut runner = det_runner(seed ^ 0xf022);
    let mut seeds: Vec<Vec<u8>> = Vec::new();
    let mut tries = 0;
    while seeds.len() < spec.seeds && tries < spec.seeds * 20 {
        tries += 1;
        let case = sample(&strategy, &mut runner);
        if let Some(b) = prop.case_to_bytes(&case) {
            if b.len() <= spec.max_len {
                seeds.push(b);
            }
        }
    }
    if seeds.is_empty() {
        // no byte form of generated cases (entropy-driven decoding): pseudo-random entropy
        // strings of mixed lengths, a pure function of the seed
        let mut x = seed.wrapping_mul(0x9e37_79b9_7f4a_7c15) ^ 0x5eed_5eed_5eed_5eed;
        let mut next = move || {
            x ^= x << 13;
            x ^= x >> 7;
            x ^= x << 17;
            x
        };
        for i in 0..spec.seeds {
            let len = match i % 4 {
                0 => 16 + (next() as usize) % 48,
                1 => 64 + (next() as usize) % 192,
                2 => 256 + (next() as usize) % 768,
                _ => spec.max_len / 2 + (next() as usize) % (spec.max_len / 2).max(1),
            }
            .min(spec.max_len);
            seeds.push((0..len).map(|_| (next() >> 24) as u8).collect());
        }
    }
    let work = root.join("target").join("fuzz-work").join(prop.id());
    let _ = std::fs::remove_dir_all(&work);
    let mut children = Vec::new();
    for job in 0..spec.jobs {
        let dir = work.join(format!("job{job}"));
        let corpus = dir.join("corpus");
        let arts = dir.join("artifacts");
        if std::fs::create_dir_all(&corpus).is_err() || std::fs::create_dir_all(&arts).is_err() {
            return FuzzOutcome::Inconclusive("cannot create the fuzz work directory".into());
        }
        for (i, s) in seeds.iter().enumerate() {
            let _ = std::fs::write(corpus.join(format!("seed{i:04}")), s);
        }
        let log = match std::fs::File::create(dir.join("log.txt")) {
            Ok(f) => f,
            Err(e) => return FuzzOutcome::Inconclusive(format!("cannot create fuzz log: {e}")),
        };
        // libFuzzer: seed 0 means "random"
        let s = (seed.wrapping_mul(64).wrapping_add(job as u64 + 1)) & 0x7fff_ffff;
        let child = Command::new(&bin)
            .arg(&corpus)
            .arg(format!("-runs={runs}"))
            .arg(format!("-seed={}", s.max(1)))
            .arg(format!("-max_len={}", spec.max_len))
            .arg("-len_control=0")
            .arg("-timeout=60")
            .arg("-rss_limit_mb=4096")
            .arg("-print_final_stats=1")
            .arg(format!("-artifact_prefix={}/", arts.display()))
            .env("VERIF_ROOT", &root)
            .env("VERIF_FUZZ_ID", prop.id())
            .stdin(Stdio::null())
            .stdout(Stdio::null())
            .stderr(Stdio::from(log))
            .spawn();
        match child {
            Ok(c) => children.push((job, dir, c)),
            Err(e) => return FuzzOutcome::Inconclusive(format!("cannot start the fuzz binary: {e}")),
        }
    }
    let mut executed = 0u64;
    let mut new_units = 0u64;
    let mut corpus_units = 0u64;
    let mut failures: Vec<(usize, PathBuf, String)> = Vec::new();
    for (job, dir, mut c) in children {
        let status = match c.wait() {
            Ok(s) => s,
            Err(e) => return FuzzOutcome::Inconclusive(format!("waiting for fuzz job {job}: {e}")),
        };
        let log = std::fs::read_to_string(dir.join("log.txt")).unwrap_or_default();
        for l in log.lines() {
            if let Some(v) = l.strip_prefix("stat::number_of_executed_units:") {
                executed += v.trim().parse::<u64>().unwrap_or(0);
            }
            if let Some(v) = l.strip_prefix("stat::new_units_added:") {
                new_units += v.trim().parse::<u64>().unwrap_or(0);
            }
        }
        corpus_units += std::fs::read_dir(dir.join("corpus")).map(|d| d.count() as u64).unwrap_or(0);
        if !status.success() {
            // artifacts: crash-*, timeout-*, oom-*, leak-*
            let mut arts: Vec<PathBuf> = std::fs::read_dir(dir.join("artifacts"))
                .map(|d| d.filter_map(|e| e.ok().map(|e| e.path())).collect())
                .unwrap_or_default();
            arts.sort();
            let why = log.lines().filter(|l| l.contains("VERIF-FAIL") || l.contains("ERROR: libFuzzer") || l.contains("panicked at")).take(3).collect::<Vec<_>>().join(" | ");
            match arts.into_iter().next() {
                // a unit that ran into libFuzzer's time or memory limit is not decoded again in
                // this process (it could stall the harness itself): inconclusive
                Some(a) if spec.target == "gen" && a.file_name().map(|n| { let n = n.to_string_lossy(); n.starts_with("timeout-") || n.starts_with("oom-") }).unwrap_or(false) => {
                    return FuzzOutcome::Inconclusive(format!("fuzz job {job}: a unit hit libFuzzer's time or memory limit ({}): {why}", a.display()));
                }
                Some(a) => failures.push((job, a, why)),
                None => return FuzzOutcome::Inconclusive(format!("fuzz job {job} ended with {status} without an artifact: {why}")),
            }
        }
    }
    if let Some((_, art, _)) = failures.into_iter().next() {
        return match std::fs::read(&art) {
            Ok(bytes) => FuzzOutcome::Violation(bytes),
            Err(e) => FuzzOutcome::Inconclusive(format!("cannot read artifact {}: {e}", art.display())),
        };
    }
    let _ = std::fs::remove_dir_all(&work);
    FuzzOutcome::Ran(serde_json::json!({
        "engine": "libFuzzer (cargo +nightly fuzz, sanitizer none, debug assertions and overflow checks on)",
        "target": spec.target,
        "jobs": spec.jobs,
        "runs_per_job": runs,
        "executions": executed,
        "max_len": spec.max_len,
        "seed_inputs_per_job": seeds.len(),
        "new_corpus_units_found": new_units,
        "final_corpus_units": corpus_units,
        "build_s": build_s,
        "wall_s": started.elapsed().as_secs_f64(),
        "decoding": if spec.target == "gen" {
            "entropy-driven: the fuzzer's bytes replace the random numbers behind the property's own proptest generator (RngAlgorithm::PassThrough of the vendored proptest, followed by a pseudo-random tail derived from them), so every input is a case of the generated domain"
        } else {
            "hand-written byte layout (Property::case_from_bytes), seeded with generated cases (case_to_bytes)"
        },
        "oracle": "the same Property::check as the generated search, run in-process on the case decoded from the fuzzer's bytes; a failure whose signature is not a listed known finding aborts the fuzz process",
    }))
}

pub struct RunResult {
    pub exit: i32,
}

fn write_replay<C: Serialize>(id: &str, case: &C, fail: &Fail) -> PathBuf {
    let dir = verif_root().join("replays").join(id);
    let _ = std::fs::create_dir_all(&dir);
    let (key, _) = case_key(case);
    let path = dir.join(format!("{key:016x}.json"));
    let doc = serde_json::json!({
        "property": id,
        "sig": fail.sig,
        "msg": fail.msg,
        "case": case,
    });
    let _ = std::fs::write(&path, serde_json::to_string_pretty(&doc).unwrap());
    path
}

pub fn read_replay<C: DeserializeOwned>(path: &Path) -> Result<C, String> {
    let text = std::fs::read_to_string(path).map_err(|e| format!("{}: {e}", path.display()))?;
    let v: serde_json::Value =
        serde_json::from_str(&text).map_err(|e| format!("{}: {e}", path.display()))?;
    let case = v.get("case").cloned().unwrap_or(v);
    serde_json::from_value(case).map_err(|e| format!("{}: {e}", path.display()))
}

fn json_files(dir: &Path) -> Vec<PathBuf> {
    let mut v: Vec<PathBuf> = std::fs::read_dir(dir)
        .map(|rd| {
            rd.filter_map(|e| e.ok())
                .map(|e| e.path())
                .filter(|p| p.extension().map(|e| e == "json").unwrap_or(false))
                .collect()
        })
        .unwrap_or_default();
    v.sort();
    v
}

pub fn replay_one<P: Property>(prop: &P, path: &Path) -> i32 {
    let case: P::Case = match read_replay(path) {
        Ok(c) => c,
        Err(e) => {
            eprintln!("INCONCLUSIVE: {e}");
            return 2;
        }
    };
    let mut ex = Executor::new(prop, prop.isolate());
    match ex.exec(&case) {
        Ok(p) => {
            println!(
                "REPLAY property={} file={} result=PASS nontrivial={} labels={:?}",
                prop.id(),
                path.display(),
                p.nontrivial,
                p.labels
            );
            0
        }
        Err(f) => {
            println!(
                "REPLAY property={} file={} result=FAIL sig={}\n  {}",
                prop.id(),
                path.display(),
                f.sig,
                f.msg
            );
            println!("VIOLATION property={} replay={}", prop.id(), path.display());
            1
        }
    }
}

pub fn run<P: Property>(prop: P, tier: Tier, seed: u64) -> RunResult {
    let started = Instant::now();
    let id = prop.id();
    let prop = Arc::new(prop);
    let known = load_known_findings(id);
    let known_sigs: HashSet<String> = known.iter().map(|k| k.sig.clone()).collect();
    let mut violations: Vec<(PathBuf, Fail)> = Vec::new();
    let mut known_lines: Vec<String> = Vec::new();
    let mut replayed = 0u64;

    // ---- tier 1: committed regression corpus (strict)
    {
        let mut ex = Executor::new(&*prop, prop.isolate());
        for path in json_files(&verif_root().join("corpus").join(id)) {
            let case: P::Case = match read_replay(&path) {
                Ok(c) => c,
                Err(e) => {
                    eprintln!("INCONCLUSIVE: bad corpus file {e}");
                    return RunResult { exit: 2 };
                }
            };
            replayed += 1;
            if let Err(f) = ex.exec(&case) {
                if !known_sigs.contains(&f.sig) {
                    violations.push((path.clone(), f));
                }
            }
        }
        // ---- tier 2: known findings, re-executed from their witnesses
        for k in &known {
            let Some(w) = &k.witness else {
                known_lines.push(format!(
                    "KNOWN-FINDING: property={} sig={} {} (class excluded by signature, no stored witness)",
                    id, k.sig, k.what
                ));
                continue;
            };
            let case: P::Case = match read_replay(w) {
                Ok(c) => c,
                Err(e) => {
                    eprintln!("INCONCLUSIVE: bad known-finding witness {e}");
                    return RunResult { exit: 2 };
                }
            };
            match ex.exec(&case) {
                Ok(_) => {} // gone: silent
                Err(f) if f.sig == k.sig => known_lines.push(format!(
                    "KNOWN-FINDING: property={} sig={} {} [witness {}]",
                    id,
                    k.sig,
                    k.what,
                    w.display()
                )),
                Err(f) => violations.push((w.clone(), f)),
            }
        }
    }

    // (sensitivity experiments only: VERIF_STAGE=fuzz skips the sweeps and the generated search
    // so that the coverage-guided stage is the only thing that can find a seeded change)
    let only_fuzz = std::env::var("VERIF_STAGE").as_deref() == Ok("fuzz");

    // ---- tier 3: deterministic sweeps
    let mut sweep = Sweep::default();
    if violations.is_empty() && !only_fuzz {
        let r = guard(|| match prop.sweep(tier, seed, &mut sweep) {
            Ok(()) => Ok(None),
            Err((case, fail)) => Ok(Some((case, fail))),
        });
        match r {
            Ok(None) => {}
            Ok(Some((case, fail))) => {
                if !known_sigs.contains(&fail.sig) {
                    let path = write_replay(id, &case, &fail);
                    violations.push((path, fail));
                }
            }
            Err(fail) => {
                // a panic escaped the sweep itself
                let path = write_replay(id, &serde_json::json!({"sweep": true}), &fail);
                violations.push((path, fail));
            }
        }
    }

    // ---- tier 4: generated search, 16 shards
    let stats = Arc::new(Mutex::new(Stats::default()));
    let min_failed = Arc::new(AtomicUsize::new(usize::MAX));
    let mut shard_failures: Vec<Option<(P::Case, Fail)>> = (0..SHARDS).map(|_| None).collect();
    if violations.is_empty() && !only_fuzz {
        let cases = prop.cases(tier);
        let mut handles = Vec::new();
        for shard in 0..SHARDS {
            let prop = prop.clone();
            let stats = stats.clone();
            let min_failed = min_failed.clone();
            let known_sigs = known_sigs.clone();
            handles.push(
                std::thread::Builder::new()
                    .stack_size(64 << 20)
                    .name(format!("shard{shard}"))
                    .spawn(move || -> Option<(P::Case, Fail)> {
                        let mut seed_bytes = [0u8; 8];
                        seed_bytes.copy_from_slice(
                            &(seed
                                .wrapping_mul(0x9E37_79B9_7F4A_7C15)
                                .wrapping_add((shard as u64 + 1).wrapping_mul(0xD1B5_4A32_D192_ED03)))
                            .to_le_bytes(),
                        );
                        let cfg = Config {
                            cases,
                            failure_persistence: None,
                            rng_seed: RngSeed::Fixed(u64::from_le_bytes(seed_bytes)),
                            max_shrink_iters: prop.max_shrink_iters(),
                            max_global_rejects: 1_000_000,
                            max_local_rejects: 1_000_000,
                            ..Config::default()
                        };
                        let mut runner = TestRunner::new(cfg);
                        let strategy = prop.strategy(tier);
                        let ex = std::cell::RefCell::new(Executor::new(&*prop, prop.isolate()));
                        let failed = AtomicBool::new(false);
                        let local = std::cell::RefCell::new(Stats::default());
                        // first and most recent failure seen by this shard (kept for the case
                        // that the shrunk value does not fail again: timing-dependent code)
                        let first_fail = std::cell::RefCell::new(None);
                        let last_fail = std::cell::RefCell::new(None);
                        let result = runner.run(&strategy, |case| {
                            if min_failed.load(Ordering::Relaxed) < shard {
                                // a lower shard already failed: stop quickly
                                return Ok(());
                            }
                            let outcome = ex.borrow_mut().exec(&case);
                            let counting = !failed.load(Ordering::Relaxed);
                            let mut local = local.borrow_mut();
                            match outcome {
                                Ok(pass) => {
                                    if counting {
                                        local.evaluations += 1;
                                        for l in &pass.labels {
                                            *local.labels.entry(l.clone()).or_default() += 1;
                                        }
                                        if pass.nontrivial {
                                            let (key, _) = case_key(&case);
                                            if local.nontrivial_keys.insert(key)
                                                && local.samples_nt.len() < 2
                                            {
                                                local.samples_nt.push(shorten(
                                                    serde_json::to_value(&case).unwrap_or_default(),
                                                ));
                                            }
                                        } else if local.samples_trivial.is_empty() {
                                            local.samples_trivial.push(shorten(
                                                serde_json::to_value(&case).unwrap_or_default(),
                                            ));
                                        }
                                    }
                                    Ok(())
                                }
                                Err(f) if known_sigs.contains(&f.sig) => {
                                    if counting {
                                        local.evaluations += 1;
                                        *local.excluded_known.entry(f.sig.clone()).or_default() += 1;
                                    }
                                    Ok(())
                                }
                                Err(f) if f.sig.starts_with("inconclusive/") => {
                                    // environment trouble (watchdog, pty exhaustion ...): never a violation
                                    eprintln!("INCONCLUSIVE: {}: {}", f.sig, f.msg);
                                    std::process::exit(2);
                                }
                                Err(f) => {
                                    if counting {
                                        local.evaluations += 1;
                                    }
                                    failed.store(true, Ordering::Relaxed);
                                    if first_fail.borrow().is_none() {
                                        *first_fail.borrow_mut() = Some((case.clone(), f.clone()));
                                    }
                                    *last_fail.borrow_mut() = Some((case.clone(), f.clone()));
                                    Err(TestCaseError::fail(f.sig))
                                }
                            }
                        });
                        // merge stats
                        let local = local.into_inner();
                        let mut ex = ex.into_inner();
                        {
                            let mut s = stats.lock().unwrap();
                            s.evaluations += local.evaluations;
                            s.nontrivial_keys.extend(local.nontrivial_keys);
                            for (k, v) in local.labels {
                                *s.labels.entry(k).or_default() += v;
                            }
                            for (k, v) in local.excluded_known {
                                *s.excluded_known.entry(k).or_default() += v;
                            }
                            if s.samples_nt.len() < 4 {
                                s.samples_nt.extend(local.samples_nt);
                            }
                            if s.samples_trivial.is_empty() {
                                s.samples_trivial.extend(local.samples_trivial);
                            }
                        }
                        match result {
                            Ok(()) => None,
                            Err(TestError::Fail(_, case)) => {
                                min_failed.fetch_min(shard, Ordering::Relaxed);
                                // final verdict on the shrunk case
                                // (a failure that does not repeat is retried: the smallest
                                // value that failed during shrinking, then the original one,
                                // three times each; only a repeatable failure is a verdict)
                                let mut verdict = None;
                                let candidates: Vec<_> = std::iter::once((case.clone(), None))
                                    .chain(last_fail.into_inner().map(|(c, f)| (c, Some(f))))
                                    .chain(first_fail.borrow().clone().map(|(c, f)| (c, Some(f))))
                                    .collect();
                                'outer: for (c, _) in &candidates {
                                    for _ in 0..3 {
                                        match ex.exec(c) {
                                            Err(f) if known_sigs.contains(&f.sig) => {}
                                            Err(f) => {
                                                verdict = Some((c.clone(), f));
                                                break 'outer;
                                            }
                                            Ok(_) => {}
                                        }
                                    }
                                }
                                if verdict.is_none() {
                                    let ff = first_fail.borrow().clone();
                                    if let Some((c, f)) = ff {
                                        if prop.self_confirming(&f.sig) {
                                            for _ in 0..40 {
                                                if let Err(f2) = ex.exec(&c) {
                                                    if !known_sigs.contains(&f2.sig) && !f2.sig.starts_with("inconclusive/") {
                                                        verdict = Some((c.clone(), f2));
                                                        break;
                                                    }
                                                }
                                            }
                                            if verdict.is_none() {
                                                eprintln!("note: {} was confirmed inside the case but did not repeat in 49 re-executions (a race between threads); reported with the case that showed it", f.sig);
                                                let msg = format!("{} [confirmed by repetition inside the case; did not repeat in 49 re-executions from scratch: the trigger is a race between threads, replaying the file reproduces it only with some probability]", f.msg);
                                                verdict = Some((c, Fail::new(f.sig, msg)));
                                            }
                                        }
                                    }
                                }
                                Some(verdict.unwrap_or_else(|| {
                                    let (c, f) = first_fail
                                        .into_inner()
                                        .expect("a failure was recorded");
                                    eprintln!(
                                        "NOT-REPEATABLE: sig={} :: {}\n  case: {}",
                                        f.sig,
                                        f.msg,
                                        serde_json::to_string(&c).unwrap_or_default()
                                    );
                                    (
                                        c,
                                        Fail::new(
                                            "harness/flaky",
                                            format!("a failure ({}) did not repeat in 9 re-executions of the failing cases", f.sig),
                                        ),
                                    )
                                }))
                            }
                            Err(TestError::Abort(reason)) => {
                                eprintln!("INCONCLUSIVE: proptest aborted: {reason}");
                                std::process::exit(2);
                            }
                        }
                    })
                    .expect("spawn shard"),
            );
        }
        for (shard, h) in handles.into_iter().enumerate() {
            match h.join() {
                Ok(r) => shard_failures[shard] = r,
                Err(_) => {
                    eprintln!("INCONCLUSIVE: shard {shard} crashed in the harness itself");
                    return RunResult { exit: 2 };
                }
            }
        }
        if let Some((case, fail)) = shard_failures.into_iter().flatten().next() {
            if fail.sig == "harness/flaky" {
                eprintln!("INCONCLUSIVE: {}", fail.msg);
                return RunResult { exit: 2 };
            }
            let path = write_replay(id, &case, &fail);
            violations.push((path, fail));
        }
    }

    // ---- tier 5 (thorough only): coverage-guided campaign on the same oracle
    let mut fuzz_report: Option<serde_json::Value> = None;
    if violations.is_empty() && tier == Tier::Thorough {
        if let Some(spec) = prop.fuzz() {
            match fuzz_stage(&*prop, &spec, seed) {
                FuzzOutcome::Ran(v) => fuzz_report = Some(v),
                FuzzOutcome::Unavailable(why) => {
                    eprintln!("note: coverage-guided stage skipped: {why}");
                    fuzz_report = Some(serde_json::json!({"skipped": why}));
                }
                FuzzOutcome::Inconclusive(why) => {
                    eprintln!("INCONCLUSIVE: coverage-guided stage: {why}");
                    return RunResult { exit: 2 };
                }
                FuzzOutcome::Violation(bytes) => match prop.case_from_bytes(&bytes) {
                    None => {
                        eprintln!("INCONCLUSIVE: the fuzzer's artifact does not decode into a case");
                        return RunResult { exit: 2 };
                    }
                    Some(case) => {
                        // the verdict comes from re-executing the case the usual way
                        let mut ex = Executor::new(&*prop, prop.isolate());
                        match ex.exec(&case) {
                            Ok(_) => {
                                eprintln!("INCONCLUSIVE: the input that stopped the fuzzer passes when re-executed");
                                return RunResult { exit: 2 };
                            }
                            Err(f) if known_sigs.contains(&f.sig) => {
                                eprintln!("INCONCLUSIVE: the fuzzer stopped on a listed known finding ({})", f.sig);
                                return RunResult { exit: 2 };
                            }
                            Err(f) if f.sig.starts_with("inconclusive/") => {
                                eprintln!("INCONCLUSIVE: {}: {}", f.sig, f.msg);
                                return RunResult { exit: 2 };
                            }
                            Err(f) => {
                                let path = write_replay(id, &case, &f);
                                violations.push((path, f));
                            }
                        }
                    }
                },
            }
        }
    }

    // ---- evidence
    let stats = Arc::try_unwrap(stats)
        .map(|m| m.into_inner().unwrap())
        .unwrap_or_default();
    let mut labels = stats.labels.clone();
    for (k, v) in &sweep.labels {
        *labels.entry(k.clone()).or_default() += v;
    }
    let mut samples = sweep.samples.clone();
    samples.extend(stats.samples_nt.iter().take(4).cloned());
    samples.extend(stats.samples_trivial.iter().take(1).cloned());
    if samples.is_empty() {
        samples.push(serde_json::json!("no case executed (violation in replay tier)"));
    }
    let evaluations = stats.evaluations + sweep.evaluations + replayed;
    let distinct_nontrivial = stats.nontrivial_keys.len() as u64 + sweep.nontrivial;
    let mut coverage = serde_json::json!({
        "evaluations": evaluations,
        "distinct_nontrivial": distinct_nontrivial,
        "rule": prop.rule(),
        "samples": samples,
        "labels": labels,
        "generated_cases": stats.evaluations,
        "sweep_evaluations": sweep.evaluations,
        "replayed_corpus_files": replayed,
        "excluded_known": stats.excluded_known,
        "shards": SHARDS,
        "cases_per_shard": prop.cases(tier),
        "isolated_in_worker_process": prop.isolate(),
    });
    if let Some(f) = &fuzz_report {
        coverage["coverage_guided_stage"] = f.clone();
        if let Some(n) = f.get("executions").and_then(|v| v.as_u64()) {
            coverage["evaluations"] = serde_json::json!(evaluations + n);
        }
    }
    if let Some(note) = &sweep.exhaustive_note {
        coverage["exhaustive"] = serde_json::json!(true);
        coverage["exhaustive_scope"] = serde_json::json!(note);
    }
    let evidence = serde_json::json!({
        "property_id": id,
        "tier": tier.name(),
        "seed": seed,
        "level": prop.level(),
        "coverage": coverage,
        "assumptions": prop.assumptions(),
        "wall_s": started.elapsed().as_secs_f64(),
        "violations": violations.len(),
        "known_findings_reproduced": known_lines,
    });
    let ev_dir = verif_root().join("evidence");
    let _ = std::fs::create_dir_all(&ev_dir);
    let ev_path = ev_dir.join(format!("{id}.json"));
    if let Err(e) = std::fs::write(&ev_path, serde_json::to_string_pretty(&evidence).unwrap()) {
        eprintln!("INCONCLUSIVE: cannot write evidence: {e}");
        return RunResult { exit: 2 };
    }

    // ---- report
    for l in &known_lines {
        println!("{l}");
    }
    println!(
        "{} {}: evaluations={} distinct_nontrivial={} excluded_known={:?} wall={:.1}s",
        id,
        tier.name(),
        evaluations,
        distinct_nontrivial,
        stats.excluded_known,
        started.elapsed().as_secs_f64()
    );
    if violations.is_empty() {
        RunResult { exit: 0 }
    } else {
        for (path, fail) in &violations {
            println!("FAILURE sig={}\n  {}", fail.sig, fail.msg.replace('\n', "\n  "));
            println!("VIOLATION property={} replay={}", id, path.display());
        }
        RunResult { exit: 1 }
    }
}

/// helper for strategies: sample once (used by sweeps that want random values)
pub fn sample<T: Debug>(strategy: &BoxedStrategy<T>, runner: &mut TestRunner) -> T {
    strategy.new_tree(runner).expect("strategy").current()
}

pub fn det_runner(seed: u64) -> TestRunner {
    TestRunner::new(Config {
        failure_persistence: None,
        rng_seed: RngSeed::Fixed(seed),
        ..Config::default()
    })
}
