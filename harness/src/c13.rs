//! C13 — colour quantisation: bounded palette, valid indices, exact nearest-colour search.
//!
//! Three sub-cases share one `Case` enum:
//!  * `Image`  — `Image::quantize` on generated images (alpha, background, cropped views,
//!    transposed / strided views of the backing buffer, both dithering settings, requested
//!    sizes 1,2,7,8,9,16,255,256,1000 …).  A case is a short HISTORY of quantisations on one
//!    thread: 0-2 prelude quantisations (another picture, or the picture under test with another
//!    background / palette size / dither flag) and then the picture under test.  Every image
//!    case runs on a thread of its own, so the history of the thread is exactly the case's
//!    history; every quantisation of the history is held to the whole oracle,
//!  * `Lookup` — `ColorPalette::find` on generated palettes of 1..=512 opaque colours against
//!    a brute-force minimum of the squared Euclidean RGB distance,
//!  * `Octree` — `OcTree::{insert, prune_until, build_palette, find}`.
//!
//! All oracles are brute force and written from the property text, ties are never resolved:
//! only distances are compared, never indices.

use crate::engine::*;
use proptest::collection::vec;
use proptest::prelude::*;
use serde::{Deserialize, Serialize};
use std::collections::{BTreeSet, HashMap, HashSet};
use std::sync::Arc;
use surf_n_term::image::OcTree;
use surf_n_term::{Color, ColorPalette, Image, Position, RGBA, Shape, Size, Surface};

pub struct C13;

type Rgb = [u8; 3];

/// requested palette sizes named by the property plan
const PSIZES: [usize; 9] = [1, 2, 7, 8, 9, 16, 255, 256, 1000];

// ---------------------------------------------------------------------------------------
// case

#[derive(Clone, Debug, Serialize, Deserialize)]
pub enum Layout {
    /// pixel i (row-major in the backing image) = pool[idx[i] % pool.len()]
    Indexed(Vec<u16>),
    /// pixel i = pool[i % pool.len()]
    Sequential,
    /// pixel i = pool[mix(i, salt) % pool.len()] (fixed integer hash of the pixel number)
    Hashed(u32),
    /// every pixel is pool[0] except that pool[k+1] occupies the single pixel
    /// `positions[k] % area` (rare colours: a sampler that skips pixels loses them)
    Rare(Vec<u32>),
}

#[derive(Clone, Debug, Serialize, Deserialize)]
pub struct ImageCase {
    /// backing image width / height
    pub w: usize,
    pub h: usize,
    /// colour pool (r, g, b, a)
    pub pool: Vec<[u8; 4]>,
    pub layout: Layout,
    /// cropped view rows r0..r1, columns c0..c1 of the backing image
    pub crop: Option<[usize; 4]>,
    /// requested palette size (>= 1)
    pub psize: usize,
    pub dither: bool,
    /// background; `None` = library default, only used when every pixel is opaque
    pub bg: Option<[u8; 4]>,
    /// the image is a strided and/or transposed view of the (cropped) backing buffer
    #[serde(default)]
    pub strides: Option<Strides>,
    /// quantisations performed on the same thread before the picture under test (at most 2)
    #[serde(default)]
    pub prelude: Vec<Prelude>,
}

/// Every `rows`-th row and every `cols`-th column (each clamped to 1..=4) of the cropped region,
/// then optionally transposed (rows of the image are columns of the buffer: `row_stride` 1 or
/// `cols`, `col_stride` a multiple of the backing width).  `{1, 1, true}` is built with the
/// library's own `Image::new(view.transpose())`, everything else with `Image::from_parts` and
/// an explicit `Shape`.
#[derive(Clone, Copy, Debug, PartialEq, Eq, Serialize, Deserialize)]
pub struct Strides {
    pub rows: u8,
    pub cols: u8,
    pub transposed: bool,
}

/// An earlier quantisation on the thread that quantises the picture under test.
#[derive(Clone, Debug, Serialize, Deserialize)]
pub enum Prelude {
    /// another picture: `w x h` (clamped to 1..=512 x 1..=16) pixels, pixel i = 24 bits of
    /// `mix(i, salt)` (practically all distinct), opaque unless `translucent` (then about half
    /// of the pixels carry a pseudo-random alpha)
    Other {
        w: usize,
        h: usize,
        salt: u32,
        translucent: bool,
        psize: usize,
        dither: bool,
        bg: Option<[u8; 4]>,
    },
    /// the picture under test itself (the same `Image` object, or with `copy` an equal picture
    /// in a fresh row-major buffer); `None` = the parameter of the case
    Same {
        copy: bool,
        psize: Option<usize>,
        dither: Option<bool>,
        bg: Option<[u8; 4]>,
    },
}

#[derive(Clone, Debug, Serialize, Deserialize)]
pub struct LookupCase {
    /// palette, opaque colours, duplicates allowed
    pub palette: Vec<Rgb>,
    /// explicit queries
    pub queries: Vec<Rgb>,
    /// queries near palette members: member index (mod len) + offset, clamped per channel
    pub near: Vec<(u16, [i8; 3])>,
    /// additionally query every palette member and its +-1 neighbours
    pub members: bool,
}

#[derive(Clone, Debug, Serialize, Deserialize)]
pub struct OctreeCase {
    /// colours inserted first (duplicates allowed)
    pub colors: Vec<Rgb>,
    pub n: usize,
    /// colours inserted after the first prune (may be empty)
    pub more: Vec<Rgb>,
    pub n2: usize,
}

#[derive(Clone, Debug, Serialize, Deserialize)]
pub enum Case {
    Image(ImageCase),
    Lookup(LookupCase),
    Octree(OctreeCase),
}

// ---------------------------------------------------------------------------------------
// helpers

#[inline]
fn d2(a: Rgb, b: Rgb) -> i32 {
    let dr = a[0] as i32 - b[0] as i32;
    let dg = a[1] as i32 - b[1] as i32;
    let db = a[2] as i32 - b[2] as i32;
    dr * dr + dg * dg + db * db
}

/// brute-force minimal squared Euclidean RGB distance
#[inline]
fn min_d2(pal: &[Rgb], q: Rgb) -> i32 {
    let mut best = i32::MAX;
    for p in pal {
        let d = d2(*p, q);
        if d < best {
            best = d;
        }
    }
    best
}

fn rgba4(c: [u8; 4]) -> RGBA {
    RGBA::new(c[0], c[1], c[2], c[3])
}

fn opaque(c: Rgb) -> RGBA {
    RGBA::new(c[0], c[1], c[2], 255)
}

fn mix(i: u64, salt: u32) -> u64 {
    let mut z = i
        .wrapping_add((salt as u64) << 32 | salt as u64)
        .wrapping_add(0x9E37_79B9_7F4A_7C15);
    z = (z ^ (z >> 30)).wrapping_mul(0xBF58_476D_1CE4_E5B9);
    z = (z ^ (z >> 27)).wrapping_mul(0x94D0_49BB_1331_11EB);
    z ^ (z >> 31)
}

impl ImageCase {
    fn pixel(&self, i: usize) -> [u8; 4] {
        let n = self.pool.len();
        match &self.layout {
            Layout::Indexed(idx) if !idx.is_empty() => self.pool[idx[i % idx.len()] as usize % n],
            Layout::Indexed(_) | Layout::Sequential => self.pool[i % n],
            Layout::Hashed(salt) => self.pool[(mix(i as u64, *salt) % n as u64) as usize],
            Layout::Rare(positions) => {
                let area = (self.w * self.h).max(1);
                match positions.iter().take(n.saturating_sub(1)).position(|p| *p as usize % area == i) {
                    Some(k) => self.pool[k + 1],
                    None => self.pool[0],
                }
            }
        }
    }
}

fn psize_label(p: usize) -> String {
    if PSIZES.contains(&p) {
        format!("psize={p}")
    } else {
        "psize=other".to_string()
    }
}

// ---------------------------------------------------------------------------------------
// oracle: image quantisation

/// Run `f` on a thread of its own (fresh thread-local state of the library).
fn on_fresh_thread<T: Send>(f: impl FnOnce() -> T + Send) -> Result<T, Fail> {
    std::thread::scope(|s| {
        let h = std::thread::Builder::new()
            .stack_size(16 << 20)
            .name("c13-case".into())
            .spawn_scoped(s, f)
            .map_err(|e| Fail::new("inconclusive/cannot-spawn-thread", format!("{e}")))?;
        h.join()
            .map_err(|_| Fail::new("harness/case-thread-panicked", "the oracle itself panicked".to_string()))
    })
}

/// one quantisation of a case's history
struct Step {
    img: Image,
    /// the pixels the image shows, row-major
    visible: Vec<RGBA>,
    psize: usize,
    dither: bool,
    bg: Option<[u8; 4]>,
    descr: String,
    /// the image is the case's non-row-contiguous view of the backing buffer
    noncontig: bool,
}

struct StepInfo {
    k: usize,
    distinct: usize,
    subsampled: bool,
    lossless_required: bool,
    has_alpha: bool,
}

/// which quantisations of the history are executed
#[derive(Clone, Copy, PartialEq, Eq)]
enum Sel {
    All,
    /// only step `.0`; with `.1` its picture is first copied into a fresh row-major buffer
    Only(usize, bool),
}

struct Geometry {
    height: usize,
    width: usize,
    start: usize,
    row_stride: usize,
    col_stride: usize,
    cropped: bool,
}

fn contiguous_image(px: &[RGBA], height: usize, width: usize) -> Image {
    Image::from_parts(Arc::from(px.to_vec()), Shape::from(Size::new(height, width)))
}

/// The picture under test: library image, the pixels it shows (row-major) and its geometry.
fn build_view(c: &ImageCase, contiguous: bool) -> Result<(Image, Vec<RGBA>, Geometry), Fail> {
    let (w, h) = (c.w, c.h);
    let backing: Vec<RGBA> = (0..w * h).map(|i| rgba4(c.pixel(i))).collect();
    // normalise the crop (monotone clamps, so shrunk cases stay valid)
    let (r0, r1, c0, c1) = match c.crop {
        None => (0, h, 0, w),
        Some([r0, r1, c0, c1]) => {
            let r0 = r0.min(h - 1);
            let c0 = c0.min(w - 1);
            (r0, r1.clamp(r0 + 1, h), c0, c1.clamp(c0 + 1, w))
        }
    };
    let cropped = (r0, r1, c0, c1) != (0, h, 0, w);
    let (sr, sc, tr) = match c.strides {
        None => (1, 1, false),
        Some(s) => ((s.rows as usize).clamp(1, 4), (s.cols as usize).clamp(1, 4), s.transposed),
    };
    let (mut height, mut width) = ((r1 - r0).div_ceil(sr), (c1 - c0).div_ceil(sc));
    let (mut row_stride, mut col_stride) = (w * sr, sc);
    if tr {
        std::mem::swap(&mut height, &mut width);
        std::mem::swap(&mut row_stride, &mut col_stride);
    }
    let start = r0 * w + c0;
    let visible: Vec<RGBA> = (0..height)
        .flat_map(|r| (0..width).map(move |col| (r, col)))
        .map(|(r, col)| backing[start + r * row_stride + col * col_stride])
        .collect();
    let geo = Geometry { height, width, start, row_stride, col_stride, cropped };
    if contiguous {
        return Ok((contiguous_image(&visible, height, width), visible, geo));
    }
    let full = Image::from_parts(Arc::from(backing), Shape::from(Size::new(h, w)));
    let plain = if c.crop.is_some() {
        guard_val(|| full.crop(r0..r1, c0..c1))?
    } else {
        full.clone()
    };
    ensure!(
        plain.height() == r1 - r0 && plain.width() == c1 - c0,
        "image/crop-view-size",
        "crop rows {r0}..{r1} cols {c0}..{c1} of a {h}x{w} image has size {:?}",
        plain.size()
    );
    let img = match c.strides {
        None => plain,
        // module hand-off of the library: `Image::new` keeps the shape of the surface
        Some(_) if sr == 1 && sc == 1 && tr => guard_val(|| Image::new(plain.transpose()))?,
        Some(_) => Image::from_parts(
            full.data().into(),
            Shape {
                start,
                end: start + (height - 1) * row_stride + (width - 1) * col_stride + 1,
                width,
                height,
                row_stride,
                col_stride,
            },
        ),
    };
    ensure!(
        img.height() == height && img.width() == width,
        "image/view-size",
        "view (crop rows {r0}..{r1} cols {c0}..{c1}, strides {:?}) of a {h}x{w} image has size {:?}, expected {height}x{width}",
        c.strides,
        img.size()
    );
    Ok((img, visible, geo))
}

/// The whole oracle for one quantisation.
fn check_step(st: &Step) -> Result<StepInfo, Fail> {
    let (vh, vw) = (st.img.height(), st.img.width());
    let visible = &st.visible;
    let descr = &st.descr;
    let has_alpha = visible.iter().any(|p| p.to_rgba()[3] < 255);
    // `None` background is only passed when no pixel needs compositing
    let bg_arg: Option<RGBA> = match st.bg {
        Some(b) => Some(rgba4(b)),
        None if has_alpha => Some(RGBA::new(0, 0, 0, 255)),
        None => None,
    };
    // expected composited image (row-major over the view)
    let comp: Vec<Rgb> = visible
        .iter()
        .map(|p| {
            if p.to_rgba()[3] < 255 {
                bg_arg.expect("bg present when alpha").blend_over(*p).to_rgb()
            } else {
                p.to_rgb()
            }
        })
        .collect();

    let out = guard_val(|| st.img.quantize(st.psize, st.dither, bg_arg))?;
    let Some((pal, q)) = out else {
        return Err(Fail::new(
            "image/none-for-nonempty",
            format!("quantize returned None for a non-empty image: {descr}"),
        ));
    };
    let cols: Vec<Rgb> = pal.colors().iter().map(|c| c.to_rgb()).collect();
    let k = cols.len();
    ensure!(
        pal.size() == k && k >= 1,
        "image/palette-empty",
        "palette size() = {}, colors().len() = {k}: {descr}",
        pal.size()
    );
    ensure!(
        k <= st.psize.max(8),
        "image/palette-too-large",
        "palette has {k} colours, allowed max(requested, 8) = {}: {descr}",
        st.psize.max(8)
    );
    ensure!(
        q.height() == vh && q.width() == vw,
        "image/index-surface-size",
        "index surface is {:?}, image is {vh}x{vw}: {descr}",
        q.size()
    );

    let distinct: HashSet<Rgb> = comp.iter().copied().collect();
    let subsampled = (vh * vw) / (st.psize * 100) >= 2;
    let lossless_required = distinct.len() <= st.psize && !subsampled;
    let mut cache: HashMap<Rgb, i32> = HashMap::new();
    for r in 0..vh {
        for col in 0..vw {
            let Some(&i) = q.get(Position::new(r, col)) else {
                return Err(Fail::new(
                    "image/index-surface-size",
                    format!("index surface has no entry at ({r},{col}): {descr}"),
                ));
            };
            ensure!(
                i < k,
                "image/index-out-of-range",
                "index {i} at ({r},{col}) but the palette has {k} colours: {descr}"
            );
            let want = comp[r * vw + col];
            if !st.dither {
                let best = *cache.entry(want).or_insert_with(|| min_d2(&cols, want));
                let got = d2(cols[i], want);
                ensure!(
                    got == best,
                    "image/not-nearest",
                    "pixel ({r},{col}) composited {want:?} mapped to palette[{i}]={:?} at squared distance {got}, minimum is {best}: {descr}",
                    cols[i]
                );
            }
            if lossless_required {
                ensure!(
                    cols[i] == want,
                    if st.dither { "image/lossless/dither" } else { "image/lossless/nodither" },
                    "{} distinct colours fit the requested {} and the image is not subsampled, but pixel ({r},{col}) composited {want:?} became palette[{i}]={:?}: {descr}",
                    distinct.len(),
                    st.psize,
                    cols[i]
                );
            }
        }
    }
    Ok(StepInfo {
        k,
        distinct: distinct.len(),
        subsampled,
        lossless_required,
        has_alpha,
    })
}

/// Executes the selected quantisations of the case's history on the current thread.
/// Err = (index of the failing step, that step shows the case's non-contiguous view, failure).
fn run_history(c: &ImageCase, sel: Sel) -> Result<Pass, (usize, bool, Fail)> {
    let contiguous = matches!(sel, Sel::Only(_, true));
    let (img, visible, geo) = build_view(c, contiguous).map_err(|f| (usize::MAX, false, f))?;
    let (vh, vw) = (geo.height, geo.width);
    let noncontig = geo.col_stride != 1 && vw >= 2 && !contiguous;
    let view_descr = format!(
        "view {vh}x{vw} (backing {}x{}, crop {:?}, start {} row_stride {} col_stride {}{})",
        c.h,
        c.w,
        c.crop,
        geo.start,
        geo.row_stride,
        geo.col_stride,
        match c.strides {
            Some(s) if contiguous => format!(", {s:?} copied into a row-major buffer"),
            Some(s) => format!(", {s:?}"),
            None => String::new(),
        }
    );
    let preludes: Vec<&Prelude> = c.prelude.iter().take(2).collect();
    let n = preludes.len() + 1;
    let mut steps: Vec<Step> = Vec::with_capacity(n);
    for p in &preludes {
        steps.push(match p {
            Prelude::Other { w, h, salt, translucent, psize, dither, bg } => {
                let (pw, ph) = ((*w).clamp(1, 512), (*h).clamp(1, 16));
                let px: Vec<RGBA> = (0..pw * ph)
                    .map(|i| {
                        let z = mix(i as u64, *salt);
                        let a = if *translucent && (z >> 24) & 1 == 1 { (z >> 32) as u8 } else { 255 };
                        RGBA::new(z as u8, (z >> 8) as u8, (z >> 16) as u8, a)
                    })
                    .collect();
                Step {
                    img: contiguous_image(&px, ph, pw),
                    visible: px,
                    psize: (*psize).max(1),
                    dither: *dither,
                    bg: *bg,
                    descr: format!(
                        "another picture {ph}x{pw} (pixel i = mix(i, {salt}){}) psize={} dither={} bg={:?}",
                        if *translucent { ", partly translucent" } else { "" },
                        (*psize).max(1),
                        dither,
                        bg
                    ),
                    noncontig: false,
                }
            }
            Prelude::Same { copy, psize, dither, bg } => {
                let psize = psize.unwrap_or(c.psize).max(1);
                let dither = dither.unwrap_or(c.dither);
                let bg = bg.or(c.bg);
                Step {
                    img: if *copy { contiguous_image(&visible, vh, vw) } else { img.clone() },
                    visible: visible.clone(),
                    psize,
                    dither,
                    bg,
                    descr: format!(
                        "{} {view_descr} psize={psize} dither={dither} bg={bg:?}",
                        if *copy { "an equal picture in a fresh row-major buffer:" } else { "the same image object:" }
                    ),
                    noncontig: noncontig && !*copy,
                }
            }
        });
    }
    steps.push(Step {
        img,
        visible,
        psize: c.psize,
        dither: c.dither,
        bg: c.bg,
        descr: format!("{view_descr} psize={} dither={} bg={:?}", c.psize, c.dither, c.bg),
        noncontig,
    });

    let mut last = None;
    let mut done: Vec<String> = Vec::new();
    for (k, st) in steps.iter().enumerate() {
        if let Sel::Only(only, _) = sel {
            if only != k {
                continue;
            }
        }
        let info = check_step(st).map_err(|f| {
            let msg = if done.is_empty() {
                format!("{} [first quantisation on a fresh thread]", f.msg)
            } else {
                format!(
                    "{} [quantisation {} of {n} on this thread; quantised before it, in order: {}]",
                    f.msg,
                    k + 1,
                    done.join(" | ")
                )
            };
            (k, st.noncontig, Fail::new(f.sig, msg))
        })?;
        done.push(st.descr.clone());
        last = Some(info);
    }
    let Some(info) = last else {
        return Err((usize::MAX, false, Fail::new("harness/bad-case", "no step selected".to_string())));
    };

    // labels describe the picture under test (the last step) and the history before it
    let same_other_bg = preludes.last().is_some_and(|p| match p {
        Prelude::Same { psize, bg: Some(b), .. } => psize.is_none_or(|p| p == c.psize) && Some(*b) != c.bg,
        _ => false,
    });
    let lossy = info.distinct > info.k;
    Ok(Pass::new(lossy)
        .label("image")
        .label(if c.dither { "image/dither" } else { "image/nodither" })
        .label(format!("image/{}", psize_label(c.psize)))
        .label_if(lossy, "image/lossy(distinct>palette)")
        .label_if(info.distinct > c.psize.max(8) && !info.subsampled, "image/pruned")
        .label_if(info.subsampled, "image/subsampled")
        .label_if(info.lossless_required, "image/lossless-checked")
        .label_if(info.lossless_required && info.distinct >= 2, "image/lossless-checked>=2colours")
        .label_if(geo.cropped, "image/cropped")
        .label_if(info.has_alpha, "image/alpha")
        .label_if(c.bg.is_none(), "image/bg=default")
        .label_if(matches!(c.bg, Some(b) if b[3] < 255), "image/bg=translucent")
        .label_if(info.k == c.psize.max(8), "image/palette=max")
        .label_if(vh * vw > 4096, "image/large")
        .label_if(matches!(c.strides, Some(s) if s.transposed), "image/view=transposed")
        .label_if(matches!(c.strides, Some(s) if s.rows.clamp(1, 4) > 1 || s.cols.clamp(1, 4) > 1), "image/view=strided")
        .label_if(noncontig, "image/view=rows-not-contiguous(col_stride>1,width>=2)")
        .label_if(noncontig && c.strides.is_some_and(|s| s.rows == 1 && s.cols == 1), "image/view=Image::new(transpose)")
        .label_if(noncontig && info.lossless_required && info.distinct >= 2, "image/view=rows-not-contiguous+lossless-checked>=2colours")
        .label_if(n > 1, "image/history(prelude>=1)")
        .label_if(n > 2, "image/history(prelude=2)")
        .label_if(preludes.iter().any(|p| matches!(p, Prelude::Other { .. })), "image/history/other-picture-before")
        .label_if(preludes.iter().any(|p| matches!(p, Prelude::Other { dither: true, .. })), "image/history/other-picture-dithered-before")
        .label_if(preludes.iter().any(|p| matches!(p, Prelude::Same { .. })), "image/history/same-picture-before")
        .label_if(preludes.iter().any(|p| matches!(p, Prelude::Same { copy: true, .. })), "image/history/equal-copy-before")
        .label_if(same_other_bg, "image/history/same-picture-same-psize-other-bg-just-before")
        .label_if(same_other_bg && info.has_alpha, "image/history/same-picture-same-psize-other-bg-just-before+alpha")
        .label_if(same_other_bg && info.has_alpha && info.lossless_required, "image/history/same-picture-same-psize-other-bg-just-before+alpha+lossless-checked")
        .label_if(n > 1 && c.dither && info.lossless_required && info.distinct >= 2, "image/history+dither+lossless-checked>=2colours"))
}

/// `image/<clause>` -> `image/<class>/<clause>`; other signatures (panics) are kept
fn reclass(f: Fail, class: &str, note: String) -> Fail {
    let sig = match f.sig.strip_prefix("image/") {
        Some(rest) => format!("image/{class}/{rest}"),
        None => f.sig.clone(),
    };
    Fail::new(sig, format!("{} — {note}", f.msg))
}

fn check_image(c: &ImageCase) -> Outcome {
    ensure!(
        c.w >= 1 && c.h >= 1 && !c.pool.is_empty() && c.psize >= 1,
        "harness/bad-case",
        "outside the domain: {:?}",
        (c.w, c.h, c.pool.len(), c.psize)
    );
    // the case's history is the whole history of the thread that executes it
    let (k, noncontig, f) = match on_fresh_thread(|| run_history(c, Sel::All))? {
        Ok(pass) => return Ok(pass),
        Err(e) => e,
    };
    if k == usize::MAX || f.sig.starts_with("inconclusive/") || f.sig.starts_with("harness/") {
        return Err(f);
    }
    // differential diagnosis (only ever reached on a failure): which class does it belong to?
    if k > 0 {
        // the same quantisation as the first one of a fresh thread
        match on_fresh_thread(|| run_history(c, Sel::Only(k, false)))? {
            Ok(_) => {
                return Err(reclass(
                    f,
                    "depends-on-earlier-quantisation",
                    "the same quantisation alone, as the first one of a fresh thread, satisfies every clause: the result depends on what the thread quantised before".to_string(),
                ));
            }
            Err((_, _, g)) if g.sig.starts_with("inconclusive/") => return Err(g),
            Err(_) => {}
        }
    }
    if noncontig {
        // the same picture copied into a row-major buffer
        match on_fresh_thread(|| run_history(c, Sel::Only(k, true)))? {
            Ok(_) => {
                return Err(reclass(
                    f,
                    "non-contiguous-view",
                    "the same pixels copied into a fresh row-major buffer satisfy every clause: the result depends on the memory layout of the view (col_stride != 1)".to_string(),
                ));
            }
            Err((_, _, g)) if g.sig.starts_with("inconclusive/") => return Err(g),
            Err(_) => {}
        }
    }
    Err(f)
}

// ---------------------------------------------------------------------------------------
// oracle: palette lookup

fn lookup_queries(c: &LookupCase) -> Vec<Rgb> {
    let n = c.palette.len();
    let mut qs: Vec<Rgb> = c.queries.clone();
    for (m, off) in &c.near {
        let p = c.palette[*m as usize % n];
        let mut q = p;
        for ch in 0..3 {
            q[ch] = (p[ch] as i32 + off[ch] as i32).clamp(0, 255) as u8;
        }
        qs.push(q);
    }
    if c.members {
        for p in &c.palette {
            qs.push(*p);
            for ch in 0..3 {
                for delta in [-1i32, 1] {
                    let mut q = *p;
                    q[ch] = (p[ch] as i32 + delta).clamp(0, 255) as u8;
                    qs.push(q);
                }
            }
            for delta in [-1i32, 1] {
                let mut q = *p;
                for ch in 0..3 {
                    q[ch] = (p[ch] as i32 + delta).clamp(0, 255) as u8;
                }
                qs.push(q);
            }
        }
    }
    qs
}

fn palette_class(pal: &[Rgb]) -> &'static str {
    let distinct: BTreeSet<Rgb> = pal.iter().copied().collect();
    if distinct.len() < pal.len() {
        "dups"
    } else {
        "distinct"
    }
}

/// one query against brute force; `pc` = `palette.colors()`
fn check_find(
    input: &[Rgb],
    pc: &[RGBA],
    q: Rgb,
    found: (usize, RGBA),
    class: &str,
) -> Result<(), Fail> {
    let (i, col) = found;
    ensure!(
        i < pc.len(),
        "lookup/index-out-of-range",
        "find({q:?}) returned index {i}, palette has {} colours",
        pc.len()
    );
    ensure!(
        pc[i] == col,
        "lookup/index-colour-mismatch",
        "find({q:?}) returned (index {i}, colour {:?}) but colors()[{i}] = {:?}",
        col.to_rgba(),
        pc[i].to_rgba()
    );
    let best = min_d2(input, q);
    let got = d2(col.to_rgb(), q);
    ensure!(
        got == best,
        format!("lookup/not-nearest/{class}"),
        "find({q:?}) returned palette[{i}]={:?} at squared distance {got}; brute-force minimum over the {} palette colours is {best}",
        col.to_rgb(),
        input.len()
    );
    Ok(())
}

fn check_lookup(c: &LookupCase) -> Outcome {
    ensure!(
        !c.palette.is_empty(),
        "harness/bad-case",
        "empty palette is outside the domain"
    );
    let colors: Vec<RGBA> = c.palette.iter().map(|p| opaque(*p)).collect();
    let Some(pal) = guard_val(|| ColorPalette::new(colors))? else {
        return Err(Fail::new(
            "lookup/none-for-nonempty",
            format!("ColorPalette::new returned None for {} colours", c.palette.len()),
        ));
    };
    let class = palette_class(&c.palette);
    let qs = lookup_queries(c);
    let found: Vec<(usize, RGBA)> =
        guard_val(|| qs.iter().map(|q| pal.find(opaque(*q))).collect())?;
    let pc = pal.colors();
    let mut exact = 0usize;
    for (q, f) in qs.iter().zip(found) {
        check_find(&c.palette, pc, *q, f, class)
            .map_err(|f| Fail::new(f.sig, format!("{} (palette {:?})", f.msg, c.palette)))?;
        if f.1.to_rgb() == *q {
            exact += 1;
        }
    }
    let n = c.palette.len();
    Ok(Pass::new(n >= 2)
        .label("lookup")
        .label(format!("lookup/{class}"))
        .label(match n {
            1 => "lookup/size=1",
            2..=8 => "lookup/size=2..8",
            9..=64 => "lookup/size=9..64",
            65..=256 => "lookup/size=65..256",
            257..=511 => "lookup/size=257..511",
            _ => "lookup/size=512",
        })
        .label_if(exact < qs.len(), "lookup/has-inexact-queries")
        .label_if(c.members, "lookup/members+-1"))
}

// ---------------------------------------------------------------------------------------
// oracle: octree pruning and palette indices

fn check_octree_stage(
    tree: &mut OcTree,
    inserted: &[Rgb],
    n: usize,
    stage: &str,
) -> Result<(usize, bool), Fail> {
    guard_val(|| tree.prune_until(n))?;
    let pal = guard_val(|| tree.build_palette())?;
    let len = pal.len();
    let limit = n.max(8);
    ensure!(
        len >= 1,
        format!("octree/no-leaves{stage}"),
        "prune_until({n}) after inserting {} colours left an empty palette",
        inserted.len()
    );
    ensure!(
        len <= limit,
        format!("octree/too-many-leaves{stage}"),
        "prune_until({n}) left {len} leaves, allowed max(n, 8) = {limit} ({} colours inserted)",
        inserted.len()
    );
    // indices handed out by build_palette: each leaf reachable through `find` of some
    // inserted colour, so the indices seen must be exactly 0..len and agree with the palette
    let mut seen = vec![false; len];
    let mut all_found = true;
    for col in inserted {
        match guard_val(|| tree.find(opaque(*col)))? {
            None => all_found = false,
            Some((i, c)) => {
                ensure!(
                    i < len,
                    format!("octree/index-out-of-range{stage}"),
                    "OcTree::find({col:?}) returned index {i}, build_palette returned {len} colours (prune_until({n}))"
                );
                ensure!(
                    pal[i] == c,
                    format!("octree/index-colour-mismatch{stage}"),
                    "OcTree::find({col:?}) returned (index {i}, {:?}) but build_palette()[{i}] = {:?} (prune_until({n}))",
                    c.to_rgba(),
                    pal[i].to_rgba()
                );
                seen[i] = true;
            }
        }
    }
    let missing: Vec<usize> = (0..len).filter(|i| !seen[*i]).collect();
    ensure!(
        missing.is_empty(),
        format!("octree/indices-not-onto{stage}"),
        "build_palette returned {len} colours but no leaf carries the indices {missing:?} (prune_until({n}), {} colours inserted)",
        inserted.len()
    );
    Ok((len, all_found))
}

fn check_octree(c: &OctreeCase) -> Outcome {
    ensure!(
        !c.colors.is_empty() && c.n >= 1 && c.n2 >= 1,
        "harness/bad-case",
        "outside the domain"
    );
    let mut tree = guard_val(|| {
        let mut t = OcTree::new();
        for col in &c.colors {
            t.insert(opaque(*col));
        }
        t
    })?;
    let distinct: BTreeSet<Rgb> = c.colors.iter().copied().collect();
    let (len, all_found) = check_octree_stage(&mut tree, &c.colors, c.n, "")
        .map_err(|f| Fail::new(f.sig, format!("{}; case {:?}", f.msg, c)))?;
    let pruned = distinct.len() > c.n.max(8);
    let mut pass = Pass::new(pruned)
        .label("octree")
        .label(format!("octree/{}", psize_label(c.n)))
        .label_if(pruned, "octree/pruned")
        .label_if(len < c.n.max(8) && pruned, "octree/pruned-below-limit")
        .label_if(len == 1 && distinct.len() > 1, "octree/collapsed-to-1")
        .label_if(!all_found, "octree/some-colours-dropped")
        .label_if(distinct.len() < c.colors.len(), "octree/repeated-colours");
    if !c.more.is_empty() {
        guard_val(|| {
            for col in &c.more {
                tree.insert(opaque(*col));
            }
        })?;
        let mut all = c.colors.clone();
        all.extend(c.more.iter().copied());
        check_octree_stage(&mut tree, &all, c.n2, "/after-reinsert")
            .map_err(|f| Fail::new(f.sig, format!("{}; case {:?}", f.msg, c)))?;
        pass = pass.label("octree/reinsert-stage");
    }
    Ok(pass)
}

// ---------------------------------------------------------------------------------------
// generators

#[derive(Clone, Debug)]
enum Model {
    Uniform,
    /// all colours share the high bits of `base`
    Clustered(Rgb, u32),
    /// several clusters
    Multi(Vec<Rgb>, u32),
    /// only one channel varies
    Collinear(usize, Rgb),
    /// every channel from a small set of levels
    Lattice(Vec<u8>),
    /// a handful of colours repeated
    Few(Vec<Rgb>),
}

fn model_strategy() -> BoxedStrategy<Model> {
    let levels: Vec<Vec<u8>> = vec![
        vec![0, 255],
        vec![0, 128, 255],
        vec![0, 95, 135, 175, 215, 255],
        vec![0, 1, 2, 3],
        vec![126, 127, 128, 129],
        vec![0, 127, 128, 255],
    ];
    prop_oneof![
        4 => Just(Model::Uniform),
        3 => (any::<Rgb>(), 1u32..=4).prop_map(|(b, bits)| Model::Clustered(b, bits)),
        2 => (vec(any::<Rgb>(), 2..=4), 1u32..=3).prop_map(|(b, bits)| Model::Multi(b, bits)),
        2 => (0usize..3, any::<Rgb>()).prop_map(|(a, f)| Model::Collinear(a, f)),
        2 => proptest::sample::select(levels).prop_map(Model::Lattice),
        2 => vec(any::<Rgb>(), 1..=4).prop_map(Model::Few),
    ]
    .boxed()
}

fn apply_model(model: &Model, dup: bool, raw: Vec<Rgb>, sel: Vec<u8>) -> Vec<Rgb> {
    let low = |base: Rgb, bits: u32, r: Rgb| -> Rgb {
        let m = ((1u32 << bits) - 1) as u8;
        [
            (base[0] & !m) | (r[0] & m),
            (base[1] & !m) | (r[1] & m),
            (base[2] & !m) | (r[2] & m),
        ]
    };
    let mut out: Vec<Rgb> = raw
        .iter()
        .zip(sel.iter())
        .map(|(r, s)| match model {
            Model::Uniform => *r,
            Model::Clustered(base, bits) => low(*base, *bits, *r),
            Model::Multi(bases, bits) => low(bases[*s as usize % bases.len()], *bits, *r),
            Model::Collinear(axis, fixed) => {
                let mut c = *fixed;
                c[*axis] = r[0];
                c
            }
            Model::Lattice(l) => [
                l[r[0] as usize % l.len()],
                l[r[1] as usize % l.len()],
                l[r[2] as usize % l.len()],
            ],
            Model::Few(cs) => cs[*s as usize % cs.len()],
        })
        .collect();
    if dup {
        // about a quarter of the entries become exact copies of an earlier entry
        for i in 1..out.len() {
            if sel[i] >= 192 {
                let j = (raw[i][1] as usize * 256 + raw[i][2] as usize) % i;
                out[i] = out[j];
            }
        }
    }
    out
}

/// exactly `n` colours drawn from one of the colour models
fn rgb_set(n: usize) -> BoxedStrategy<Vec<Rgb>> {
    let n = n.max(1);
    (
        model_strategy(),
        prop::bool::weighted(0.3),
        vec(any::<Rgb>(), n),
        vec(any::<u8>(), n),
    )
        .prop_map(|(m, dup, raw, sel)| apply_model(&m, dup, raw, sel))
        .boxed()
}

fn psize_strategy() -> BoxedStrategy<usize> {
    prop_oneof![
        12 => proptest::sample::select(PSIZES.to_vec()),
        1 => 1usize..=64,
        1 => 65usize..=1200,
    ]
    .boxed()
}

fn bg_strategy() -> BoxedStrategy<Option<[u8; 4]>> {
    prop_oneof![
        2 => Just(None),
        5 => any::<Rgb>().prop_map(|c| Some([c[0], c[1], c[2], 255])),
        1 => Just(Some([0, 0, 0, 255])),
        1 => Just(Some([255, 255, 255, 255])),
        2 => any::<[u8; 4]>().prop_map(Some),
        1 => any::<Rgb>().prop_map(|c| Some([c[0], c[1], c[2], 0])),
    ]
    .boxed()
}

fn alpha_strategy() -> BoxedStrategy<u8> {
    prop_oneof![
        5 => Just(255u8),
        2 => Just(0u8),
        3 => any::<u8>(),
        1 => Just(254u8),
        1 => Just(1u8),
    ]
    .boxed()
}

/// (w, h) for a requested size `p`; the last class sits on the sampling threshold 200*p
fn dims_strategy(p: usize, tier: Tier) -> BoxedStrategy<(usize, usize)> {
    let t = 200 * p;
    let small = prop_oneof![
        2 => (1usize..=4, 1usize..=4),
        3 => (1usize..=16, 1usize..=16),
        5 => (1usize..=48, 1usize..=48),
    ];
    // boundary of the sampling rule: area just below / at / above 200*p
    let wmax = match t {
        0..=4096 => 64usize,
        _ => 640,
    };
    let wmin = (t / 640).max(3).min(wmax);
    let boundary = (wmin..=wmax, 0usize..=2).prop_map(move |(w, dh)| {
        let h0 = (t / w).max(1);
        (w, (h0 + dh).saturating_sub(1).max(1))
    });
    // strictly inside the window where a sampler with half the threshold would already skip
    // pixels: 100*p <= area < 200*p (the library must still look at every pixel here)
    let window = (wmin..=wmax, any::<u16>()).prop_map(move |(w, f)| {
        let target = 100 * p + ((f as usize * 100 * p) >> 16);
        (w, (target / w).max(1))
    });
    // a wide backing image just tall enough that a narrow column window SPANS more than 200*p
    // backing pixels although the window itself holds far fewer than 100*p (the sampling rule
    // is about the view's own area)
    let wide = (64usize..=400, 1usize..=6).prop_map(move |(w, dh)| (w, t / w + dh));
    let wide_weight = if p <= 64 { 2 } else { 0 };
    let big_weight = match (tier, t > 4096) {
        (_, false) => 2,
        (Tier::Quick, true) => if t > 60_000 { 0 } else { 1 },
        (Tier::Thorough, true) => 1,
    };
    if big_weight == 0 {
        small.boxed()
    } else if t > 4096 {
        prop_oneof![40 => small, big_weight => boundary, big_weight => window, wide_weight => wide].boxed()
    } else {
        prop_oneof![8 => small, big_weight => boundary, big_weight => window, wide_weight => wide].boxed()
    }
}

fn image_strategy(tier: Tier) -> BoxedStrategy<ImageCase> {
    psize_strategy()
        .prop_flat_map(move |p| (Just(p), dims_strategy(p, tier)))
        .prop_flat_map(|(p, (w, h))| {
            let area = w * h;
            let cap = 4096usize;
            let fit = p.min(cap);
            let many_hi = area.max(p + 1).min(cap);
            let many_lo = (p + 1).min(many_hi);
            let pool_len = prop_oneof![
                2 => 1usize..=fit,
                1 => Just(fit),
                1 => Just((p + 1).min(cap)),
                3 => many_lo..=many_hi,
                3 => Just(area.clamp(1, cap)),
            ];
            (Just((p, w, h)), pool_len)
        })
        .prop_flat_map(|((p, w, h), pool_len)| {
            let area = w * h;
            let rare = vec(any::<u32>(), pool_len.saturating_sub(1).min(64)).prop_map(Layout::Rare);
            let layout = if area <= 4096 {
                prop_oneof![
                    5 => vec(0u16..(pool_len as u16).max(1), area).prop_map(Layout::Indexed),
                    2 => Just(Layout::Sequential),
                    1 => any::<u32>().prop_map(Layout::Hashed),
                    3 => rare,
                ]
                .boxed()
            } else {
                prop_oneof![
                    1 => Just(Layout::Sequential),
                    3 => any::<u32>().prop_map(Layout::Hashed),
                    2 => rare,
                ]
                .boxed()
            };
            let alphas = prop_oneof![
                1 => Just(vec![255u8; pool_len]),
                1 => vec(alpha_strategy(), pool_len),
            ];
            // narrow column window over all rows of a wide backing image
            let narrow_weight = if w >= 64 { 12 } else { 0 };
            let crop = prop_oneof![
                7 => Just(None),
                3 => (0..h, 0..w).prop_flat_map(move |(r0, c0)| {
                    ((r0 + 1)..=h, (c0 + 1)..=w)
                        .prop_map(move |(r1, c1)| Some([r0, r1, c0, c1]))
                }),
                narrow_weight => (0..w.saturating_sub(4).max(1), 1usize..=4, 0usize..=1)
                    .prop_map(move |(c0, cw, r0)| Some([r0.min(h - 1), h, c0, (c0 + cw).min(w)])),
            ];
            // non-row-major views of the (cropped) backing buffer: 16 cases of 100
            let strides = prop_oneof![
                84 => Just(None),
                6 => Just(Some(Strides { rows: 1, cols: 1, transposed: true })),
                10 => (1u8..=3, 1u8..=3, any::<bool>())
                    .prop_map(|(rows, cols, transposed)| Some(Strides { rows, cols, transposed })),
            ];
            // history of the thread before the picture under test: 25 cases of 100
            let other = (
                prop_oneof![3 => 24usize..=300, 1 => 1usize..=24],
                1usize..=6,
                any::<u32>(),
                prop::bool::weighted(0.25),
                prop_oneof![
                    4 => proptest::sample::select(vec![1usize, 2, 8, 16, 256]),
                    1 => psize_strategy(),
                ],
                prop::bool::weighted(0.8),
                bg_strategy(),
            )
                .prop_map(|(w, h, salt, translucent, psize, dither, bg)| Prelude::Other {
                    w,
                    h,
                    salt,
                    translucent,
                    psize,
                    dither,
                    bg,
                });
            let same = (
                any::<bool>(),
                proptest::option::weighted(0.3, psize_strategy()),
                proptest::option::weighted(0.5, any::<bool>()),
                prop_oneof![1 => Just(None), 3 => bg_strategy()],
            )
                .prop_map(|(copy, psize, dither, bg)| Prelude::Same { copy, psize, dither, bg });
            // the picture under test is only quantised an extra time when it is small
            let one = if area <= 4096 {
                prop_oneof![1 => other, 1 => same].boxed()
            } else {
                other.boxed()
            };
            let prelude = prop_oneof![
                75 => Just(Vec::new()),
                17 => vec(one.clone(), 1),
                8 => vec(one, 2),
            ];
            (
                rgb_set(pool_len),
                alphas,
                layout,
                crop,
                any::<bool>(),
                bg_strategy(),
                strides,
                prelude,
            )
                .prop_map(move |(rgb, alphas, layout, crop, dither, bg, strides, prelude)| {
                    let pool: Vec<[u8; 4]> = rgb
                        .iter()
                        .zip(alphas.iter())
                        .map(|(c, a)| [c[0], c[1], c[2], *a])
                        .collect();
                    let opaque_pool = pool.iter().all(|c| c[3] == 255);
                    // the library default background is only used when nothing is composited
                    let bg = if bg.is_none() && !opaque_pool {
                        Some([0, 0, 0, 255])
                    } else {
                        bg
                    };
                    ImageCase {
                        w,
                        h,
                        pool,
                        layout,
                        crop,
                        psize: p,
                        dither,
                        bg,
                        strides,
                        prelude,
                    }
                })
        })
        .boxed()
}

fn len_strategy(max: usize) -> BoxedStrategy<usize> {
    prop_oneof![
        1 => Just(1usize),
        2 => 2usize..=4usize.min(max).max(2),
        2 => 1usize..=16usize.min(max),
        2 => 1usize..=64usize.min(max),
        3 => 1usize..=max,
        1 => Just(max),
    ]
    .boxed()
}

fn lookup_strategy() -> BoxedStrategy<LookupCase> {
    len_strategy(512)
        .prop_flat_map(|n| {
            (
                rgb_set(n),
                vec(any::<Rgb>(), 0..=192),
                vec(
                    (
                        0u16..(n as u16),
                        prop_oneof![
                            3 => [-3i8..=3, -3i8..=3, -3i8..=3],
                            1 => [-40i8..=40, -40i8..=40, -40i8..=40],
                        ],
                    ),
                    0..=192,
                ),
                prop::bool::weighted(0.75),
            )
        })
        .prop_map(|(palette, queries, near, members)| LookupCase {
            palette,
            queries,
            near,
            members,
        })
        .boxed()
}

fn octree_strategy() -> BoxedStrategy<OctreeCase> {
    let len = prop_oneof![
        2 => 1usize..=12,
        3 => 1usize..=64,
        4 => 1usize..=600,
        1 => 600usize..=1500,
    ];
    (len, psize_strategy(), psize_strategy())
        .prop_flat_map(|(len, n, n2)| {
            let more = prop_oneof![
                3 => Just(Vec::<Rgb>::new()),
                1 => (1usize..=64).prop_flat_map(rgb_set),
            ];
            (rgb_set(len), Just(n), more, Just(n2))
        })
        .prop_map(|(colors, n, more, n2)| OctreeCase {
            colors,
            n,
            more,
            n2,
        })
        .boxed()
}

// ---------------------------------------------------------------------------------------
// exhaustive sweep over all 2^24 queries for fixed palettes

fn xterm256() -> Vec<Rgb> {
    let base16: [Rgb; 16] = [
        [0, 0, 0],
        [205, 0, 0],
        [0, 205, 0],
        [205, 205, 0],
        [0, 0, 238],
        [205, 0, 205],
        [0, 205, 205],
        [229, 229, 229],
        [127, 127, 127],
        [255, 0, 0],
        [0, 255, 0],
        [255, 255, 0],
        [92, 92, 255],
        [255, 0, 255],
        [0, 255, 255],
        [255, 255, 255],
    ];
    let mut v: Vec<Rgb> = base16.to_vec();
    let lv = [0u8, 95, 135, 175, 215, 255];
    for r in lv {
        for g in lv {
            for b in lv {
                v.push([r, g, b]);
            }
        }
    }
    for k in 0..24u8 {
        let g = 8 + 10 * k;
        v.push([g, g, g]);
    }
    v
}

fn fixed_palettes(tier: Tier, seed: u64) -> Vec<(String, Vec<Rgb>)> {
    let mut out: Vec<(String, Vec<Rgb>)> = Vec::new();
    out.push(("ansi-16".into(), xterm256()[..16].to_vec()));
    if tier == Tier::Quick {
        return out;
    }
    out.push(("xterm-256 (with duplicate entries)".into(), xterm256()));
    out.push(("single colour".into(), vec![[17, 99, 200]]));
    out.push(("two identical colours".into(), vec![[128, 128, 128], [128, 128, 128]]));
    // grey ramp, every level twice: collinear + duplicates, 512 entries
    out.push((
        "grey ramp x2 (512, collinear, duplicates)".into(),
        (0..512u32).map(|i| [(i / 2) as u8; 3]).collect(),
    ));
    // 8x8x8 block of neighbouring colours: clustered, 512 entries
    out.push((
        "8x8x8 block at (124,124,124) (512, clustered)".into(),
        (0..512u32)
            .map(|i| [124 + (i & 7) as u8, 124 + ((i >> 3) & 7) as u8, 124 + ((i >> 6) & 7) as u8])
            .collect(),
    ));
    // 4x4x4 lattice, each point twice
    out.push((
        "4x4x4 lattice x2 (128, ties everywhere)".into(),
        (0..128u32)
            .map(|i| {
                let j = i / 2;
                [(j & 3) as u8 * 85, ((j >> 2) & 3) as u8 * 85, ((j >> 4) & 3) as u8 * 85]
            })
            .collect(),
    ));
    // generated palettes (seeded by the run seed)
    let mut runner = det_runner(seed ^ 0xC13C_13C1_3C13);
    for n in [3usize, 64, 255, 512] {
        let p = sample(&rgb_set(n), &mut runner);
        out.push((format!("generated, {n} colours"), p));
    }
    out
}

fn sweep_palette(name: &str, palette: &[Rgb], sw: &mut Sweep) -> Result<(), (Case, Fail)> {
    let mk_case = |q: Rgb| {
        Case::Lookup(LookupCase {
            palette: palette.to_vec(),
            queries: vec![q],
            near: Vec::new(),
            members: false,
        })
    };
    let colors: Vec<RGBA> = palette.iter().map(|p| opaque(*p)).collect();
    let pal = match guard_val(|| ColorPalette::new(colors)) {
        Ok(Some(p)) => p,
        Ok(None) => {
            return Err((
                mk_case([0, 0, 0]),
                Fail::new("lookup/none-for-nonempty", format!("palette {name}")),
            ));
        }
        Err(f) => return Err((mk_case([0, 0, 0]), f)),
    };
    let class = palette_class(palette);
    const THREADS: u32 = 16;
    const TOTAL: u32 = 1 << 24;
    let chunk = TOTAL / THREADS;
    let pal_ref = &pal;
    let results: Vec<Option<(Rgb, Fail)>> = std::thread::scope(|s| {
        let handles: Vec<_> = (0..THREADS)
            .map(|t| {
                s.spawn(move || -> Option<(Rgb, Fail)> {
                    let pc = pal_ref.colors();
                    for v in (t * chunk)..((t + 1) * chunk) {
                        let q: Rgb = [(v >> 16) as u8, (v >> 8) as u8, v as u8];
                        let found = match guard_val(|| pal_ref.find(opaque(q))) {
                            Ok(f) => f,
                            Err(f) => return Some((q, f)),
                        };
                        if let Err(f) = check_find(palette, pc, q, found, class) {
                            return Some((q, f));
                        }
                    }
                    None
                })
            })
            .collect();
        handles
            .into_iter()
            .map(|h| h.join().expect("sweep thread"))
            .collect()
    });
    if let Some((q, f)) = results.into_iter().flatten().next() {
        return Err((
            mk_case(q),
            Fail::new(f.sig, format!("{} (exhaustive sweep, palette {name}: {:?})", f.msg, palette)),
        ));
    }
    sw.evaluations += TOTAL as u64;
    if palette.len() >= 2 {
        sw.nontrivial += TOTAL as u64;
    }
    *sw.labels.entry(format!("sweep/2^24-queries/{name}")).or_default() += TOTAL as u64;
    Ok(())
}

// ---------------------------------------------------------------------------------------

impl Property for C13 {
    type Case = Case;

    fn fuzz(&self) -> Option<FuzzSpec> {
        // entropy-driven target: libFuzzer's bytes replace the generator's random numbers
        Some(FuzzSpec { target: "gen", jobs: 8, runs: 35_000, max_len: 16384, seeds: 64 })
    }

    fn entropy_tail(&self) -> usize {
        1 << 19
    }

    fn id(&self) -> &'static str {
        "C13"
    }

    fn strategy(&self, tier: Tier) -> BoxedStrategy<Case> {
        prop_oneof![
            10 => image_strategy(tier).prop_map(Case::Image),
            3 => lookup_strategy().prop_map(Case::Lookup),
            3 => octree_strategy().prop_map(Case::Octree),
        ]
        .boxed()
    }

    fn check(&self, case: &Case) -> Outcome {
        match case {
            Case::Image(c) => check_image(c),
            Case::Lookup(c) => check_lookup(c),
            Case::Octree(c) => check_octree(c),
        }
    }

    fn cases(&self, tier: Tier) -> u32 {
        tier.pick(8_000, 120_000)
    }

    fn rule(&self) -> String {
        "three sub-cases (weights 10:3:3). IMAGE: requested size from {1,2,7,8,9,16,255,256,1000} (plus 1..=1200 at low weight); view 1x1..48x48 or an area on the sampling threshold 200*requested (-1 row / exact / +1 row; up to ~200k px in thorough); pixels = pool[layout(i)], pool of 1..=4096 RGBA colours drawn from {uniform, clustered in the low 1-4 bits, multi-cluster, single-axis collinear, lattice levels, few colours} with optional exact duplicates, pool length chosen relative to the requested size (<= requested, = requested, requested+1, many, = area); alpha all-opaque or mixed {255,0,any,254,1}; background none/opaque/translucent/alpha 0; 30% cropped views of a larger backing image, among them narrow column windows (1-4 columns, all rows) of a wide backing image (64-400 columns) whose span in the backing buffer exceeds the sampling threshold while their own area is far below it; in 16 cases of 100 the image is a view of the (cropped) backing buffer that is not row-major: the library's own `Image::new(view.transpose())` (6 of 100: row_stride 1, col_stride = backing width) or `Image::from_parts` with an explicit Shape taking every 1st-3rd row and every 1st-3rd column, transposed or not (10 of 100); dithering on/off. HISTORY: every image case is executed on a thread of its own and is a history of 1-3 quantisations on that thread: in 25 cases of 100 the picture under test is preceded by one (17) or two (8) other quantisations — another picture (24-300, rarely 1-24, columns x 1-6 rows of practically distinct pseudo-random colours, a quarter of them partly translucent, requested size mostly from {1,2,8,16,256}, dithering on in 8 of 10, any background) or, when the backing image has at most 4096 pixels, the picture under test itself (the same Image object or an equal picture in a fresh row-major buffer) with another background (3 of 4), another requested size (3 of 10) and/or another dither flag; every quantisation of the history is held to the whole image oracle. LOOKUP: palette of 1..=512 opaque colours from the same models (duplicates, collinear, clustered, lattice), queries = up to 192 uniform 24-bit + up to 192 near a member (+-3 / +-40 per channel) + (75%) every member and its 8 neighbours at +-1 (each axis and the diagonal). OCTREE: 1..=1500 colours from the same models, prune_until(n) with n as above, then (25%) 1..=64 more insertions and a second prune_until. SWEEP: every one of the 2^24 query colours against fixed palettes (quick: ANSI 16; thorough: + xterm-256, single, two identical, grey ramp x2 (512), 8x8x8 block (512), 4x4x4 lattice x2, and 4 generated palettes of 3/64/255/512 colours). \
         non-trivial = image: more distinct composited colours than palette entries (quantisation is lossy); lookup: palette has >= 2 entries; octree: more distinct colours than max(n,8) (pruning happens)".into()
    }

    fn assumptions(&self) -> Vec<String> {
        vec![
            "compositing is trusted: the expected colour of a pixel with alpha < 255 is `bg.blend_over(pixel)` of the rasterize dependency, opaque pixels are taken as they are; distances use the RGB channels only (palette entries are compared by RGB, alpha of a translucent background is ignored)".into(),
            "`bg = None` is only passed when every visible pixel is opaque (the default background is not part of the property); otherwise an explicit background is passed".into(),
            "an image counts as subsampled iff height*width / (requested*100) >= 2 (integer division, sizes of the cropped view) — the library's sampling rule; exact reproduction is only demanded when not subsampled and the number of distinct composited RGB colours <= requested size".into(),
            "with dithering only palette bounds, index validity and (when required) exact reproduction are checked; nearest-colour mapping of the original pixel is not demanded".into(),
            "ties are never resolved: a lookup is correct iff the squared distance of the returned colour equals the brute-force minimum over the supplied palette, and colors()[index] equals the returned colour".into(),
            "OcTree leaf count is observed as build_palette().len(); index bijection is observed through OcTree::find of the inserted colours (every index in 0..len is returned for some inserted colour, each returned index < len and palette[index] == returned colour); find returning None for a pruned colour is allowed".into(),
            "requested palette sizes above 1200 and images above ~210k pixels are not generated".into(),
            "an image is whatever `Image::new` / `Image::from_parts` / `Image::crop` hand out: a buffer plus a Shape (start, height, width, row_stride, col_stride — public fields, the crate documents that elements are addressed through `Shape::offset` only); the pixel at (row, col) is data[start + row*row_stride + col*col_stride]. Transposed (`Surface::transpose`, kept by `Image::new`) and strided shapes are therefore images like cropped views ('for all images … cropped views') and every clause applies to the pixels they show; `Shape::end` is set to the offset of the last pixel + 1 as the library's own view/transpose do".into(),
            "the statement quantifies over images, requested sizes, dither settings and backgrounds, not over what the calling thread did before: the result of a quantisation must satisfy every clause whatever was quantised earlier on the same thread (another picture, or the same / an equal picture with another background, size or dither flag). Each image case runs on a fresh thread, so its 0-2 prelude quantisations are the complete history; preludes are themselves checked with the whole oracle".into(),
            "classification of a failure (only evaluated after a clause has failed, never turns a pass into a failure): if the failing quantisation is not the first of its thread and the identical quantisation alone on a fresh thread satisfies every clause, the signature becomes image/depends-on-earlier-quantisation/<clause>; otherwise, if the image is a view with col_stride != 1 and the same pixels copied into a row-major buffer satisfy every clause, it becomes image/non-contiguous-view/<clause>; otherwise the clause's own signature is reported".into(),
        ]
    }

    fn sweep(&self, tier: Tier, seed: u64, sw: &mut Sweep) -> Result<(), (Case, Fail)> {
        let pals = fixed_palettes(tier, seed);
        for (name, p) in &pals {
            sweep_palette(name, p, sw)?;
        }
        sw.exhaustive_note = Some(format!(
            "ColorPalette::find against brute force for all 2^24 query colours x {} fixed palettes ({})",
            pals.len(),
            pals.iter().map(|(n, _)| n.as_str()).collect::<Vec<_>>().join("; ")
        ));
        sw.samples.push(serde_json::json!({"sweep": "all 2^24 queries", "palette": pals[0].1}));
        Ok(())
    }
}
