//! C17 — wake-ups and signals are never lost and the tty is restored on every exit path.
//!
//! Sessions on a pseudo-terminal, one terminal per worker PROCESS (signal dispositions are
//! process wide).  The harness owns the schedule: wakes (from other threads), tty input and
//! signals are placed at named points inside `UnixTerminal::poll` through the verif hook, so
//! "a wake exactly between select returning and the waker pipe being read" is a generated
//! value, not luck.  Backlog rounds add the history "a burst was read by one poll, only part of
//! its events was taken, then the window changes": arrival order across sources is judged
//! there, and only there, because the construction fixes it.  Storm rounds are the one place
//! where the schedule is NOT owned: threads wake in a tight loop, truly in parallel with the
//! polls, to reach windows between two statements of the poll loop that have no hook point; only
//! the outcome is judged (a request issued after everything earlier was consumed is delivered).
//! After the rounds the terminal object is released through a generated
//! exit path and the tty is inspected.

use crate::engine::*;
use crate::pty::{Peer, Pty, termios_eq, termios_show};
use proptest::prelude::*;
use serde::{Deserialize, Serialize};
use std::cell::{Cell, RefCell};
use std::io::Write;
use std::rc::Rc;
use std::sync::Arc;
use std::sync::atomic::{AtomicBool, Ordering};
use std::time::{Duration, Instant};
use surf_n_term::unix_verif_hooks::{self, Point};
use surf_n_term::{
    Error, KeyName, SystemTerminal, Terminal, TerminalAction, TerminalEvent, TerminalWaker,
};

pub struct C17;

#[derive(Clone, Copy, Debug, PartialEq, Eq, Serialize, Deserialize)]
pub enum Timeout {
    Zero,
    Ms50,
    Infinite,
}

#[derive(Clone, Copy, Debug, PartialEq, Eq, Serialize, Deserialize)]
pub enum Place {
    /// before poll is called
    BeforePoll,
    /// at schedule point `point` (index into POINTS) of loop iteration `iter` (0-based)
    At { point: u8, iter: u8 },
}

#[derive(Clone, Debug, Serialize, Deserialize)]
pub enum What {
    /// `threads` concurrent wake calls from other threads
    Wake { threads: u8 },
    /// the peer types these characters (printable ASCII)
    Input(String),
    /// raise(SIGWINCH)
    Winch,
    /// two window-size signals, the second one placed (through the point hook) right after the
    /// terminal has answered the size request caused by the first and before the terminal
    /// object has read that answer; only different from `Winch` in sessions that take the size
    /// from escape sequences
    WinchTwice,
}

#[derive(Clone, Debug, Serialize, Deserialize)]
pub struct Round {
    pub what: What,
    pub place: Place,
    pub timeout: Timeout,
    /// bytes of output queued before the poll (0 = none); the peer is stalled while > 4096
    pub pending_output: usize,
    /// (finite timeouts, pending_output > 4096) the peer stays stalled until the events of this
    /// round have been delivered: they must be delivered while output is still pending
    #[serde(default)]
    pub hold_stall: bool,
    /// the call under test is `Terminal::position()` instead of `poll(timeout)`: it polls
    /// internally until the terminal has answered, and must not lose what arrives meanwhile
    #[serde(default)]
    pub position: Option<PosRound>,
    /// (wake rounds) as soon as the poll under test has returned -- before any further poll is
    /// entered -- one more wake request is issued: it must be delivered by the following polls
    /// even though the previous request has just been delivered
    #[serde(default)]
    pub wake_again: bool,
    /// the round is a "backlog" round instead: the peer types a burst, the application takes
    /// only some of its key events, then the window changes (`what`, `pending_output`,
    /// `hold_stall`, `position`, `wake_again` are not used; `place` says where the signal is
    /// raised, `timeout` is the timeout of the polls around it)
    #[serde(default)]
    pub backlog: Option<Backlog>,
    /// the round is a "storm" round instead: several threads issue wake requests in a tight
    /// loop, truly in parallel with the polls of the main thread (nothing is placed through the
    /// hook); `pending_output` (<= 4096) is the only other field used
    #[serde(default)]
    pub storm: Option<Storm>,
}

/// Wake requests that race with the polls which consume earlier ones: 2-4 threads call `wake()`
/// in a tight loop while the main thread polls with zero / short timeouts and takes the Wake
/// events.  The storm is fixed work: every thread issues at least its number of calls and keeps
/// calling until the main thread has completed `polls` polls.  When all threads have been joined
/// and the polls have gone quiet, ONE more request is issued from another thread: it cannot
/// coalesce with anything (every earlier Wake has been consumed), so it must be delivered.
#[derive(Clone, Debug, Serialize, Deserialize)]
pub struct Storm {
    /// one entry per waking thread (2-4): the least number of wake calls it issues
    pub calls: Vec<u16>,
    /// polls of the main thread while the threads are calling
    pub polls: u16,
    /// every `short_every`-th of those polls has a timeout of `short_us` microseconds, the others
    /// a zero timeout (0 = all zero)
    pub short_every: u8,
    pub short_us: u16,
}

/// Input that was read from the tty (and decoded) by a poll that has returned, part of it not
/// yet taken by the application, when an event of another source -- a window-size signal --
/// arrives: what was received earlier must still be delivered first.
#[derive(Clone, Debug, Serialize, Deserialize)]
pub struct Backlog {
    /// characters the peer types as ONE burst (one write on the master side), at least 3
    pub burst: String,
    /// how many of their key events the application takes (one poll each) before the window
    /// changes; at least one stays queued inside the terminal object
    pub take: u8,
    /// bytes of output queued before the first poll (the burst then arrives while output is
    /// pending; 0 = none)
    #[serde(default)]
    pub output_first: usize,
    /// bytes of output the application queues after those polls and before the window-size
    /// signal ("draws a frame"; 0 = none): the signal arrives while output is pending
    #[serde(default)]
    pub output: usize,
}

#[derive(Clone, Debug, Serialize, Deserialize)]
pub struct PosRound {
    /// the terminal answers the cursor position request this late
    pub delay_ms: u16,
    /// cursor position it reports (1-based)
    pub at: (u8, u8),
    /// characters the user types right behind the answer (same write)
    pub post: String,
}

#[derive(Clone, Copy, Debug, PartialEq, Eq, Serialize, Deserialize)]
pub enum Exit {
    Drop,
    /// drop with this many bytes of output still queued
    DropPending(usize),
    /// Terminal::run whose handler returns an error at step k
    RunErr(u8),
    /// Terminal::run whose handler quits at step k
    RunQuit(u8),
    /// Terminal::run_render whose handler returns an error at step k
    RenderErr(u8),
    /// termination signal (0 TERM, 1 INT, 2 QUIT) while polling, then drop
    Signal(u8),
    /// the master side is closed before the terminal object is dropped
    MasterClosed,
    /// drop while the front chunk of the output queue is partly transmitted: the peer is
    /// stalled, `big` bytes are written, flushed and polled, `small` more bytes are written and
    /// flushed, the peer resumes and the terminal object is dropped at once
    DropBackpressure { big: usize, small: usize },
    /// a termination signal (0 TERM, 1 INT, 2 QUIT) arrives while the terminal object is being
    /// released: raised at schedule point `point` of the first poll iteration inside drop
    SignalInDispose { which: u8, point: u8 },
    /// an application that cleans up after itself: mouse reporting on and cursor hidden
    /// (delivered), later a frame of `frame` bytes is written and flushed, the application's own
    /// cursor-visible / mouse-off commands are queued behind it, optionally one more poll, drop.
    /// Judged by the state the terminal ends in (last set/reset of each mode it received).
    DropAfterOwnCleanup { frame: u16, poll_after: bool },
}

#[derive(Clone, Debug, Serialize, Deserialize)]
pub struct Case {
    pub rounds: Vec<Round>,
    pub exit: Exit,
    /// the pty reports no pixel size through ioctl and the peer answers the size request
    /// `CSI 18 t CSI 14 t`: the terminal object then learns its size from escape sequences,
    /// and a SIGWINCH makes it ask the terminal instead of calling ioctl
    #[serde(default)]
    pub size_by_escape: bool,
}

const POINTS: [Point; 7] = [
    Point::LoopStart,
    Point::BeforeSelect,
    Point::AfterSelect,
    Point::BeforeSignals,
    Point::BeforeWakerRead,
    Point::BeforeTtyRead,
    Point::LoopEnd,
];

fn inc(msg: impl Into<String>) -> Fail {
    Fail::new("inconclusive/pty-session", msg.into())
}

struct HookGuard;
impl Drop for HookGuard {
    fn drop(&mut self) {
        unix_verif_hooks::set_point_hook(None);
    }
}

fn do_wakes(waker: &TerminalWaker, threads: u8) {
    let handles: Vec<_> = (0..threads.max(1))
        .map(|_| {
            let w = waker.clone();
            std::thread::spawn(move || {
                let _ = w.wake();
            })
        })
        .collect();
    for h in handles {
        let _ = h.join();
    }
}

#[derive(Debug)]
struct MyErr;
impl From<Error> for MyErr {
    fn from(_: Error) -> Self {
        MyErr
    }
}

struct Session {
    pty: Pty,
    peer: Peer,
    before: libc::termios,
}

fn contains(hay: &[u8], needle: &[u8]) -> bool {
    hay.windows(needle.len()).any(|w| w == needle)
}

/// state of the modes the closing sequence is about, as the terminal ends up with them: the
/// last set (`h`) / reset (`l`) of each DEC private mode in everything it received
fn final_mode(received: &[u8], mode: &str) -> Option<bool> {
    let on = format!("\x1b[?{mode}h").into_bytes();
    let off = format!("\x1b[?{mode}l").into_bytes();
    let last = |needle: &[u8]| received.windows(needle.len()).rposition(|w| w == needle);
    match (last(&on), last(&off)) {
        (None, None) => None,
        (Some(_), None) => Some(true),
        (None, Some(_)) => Some(false),
        (Some(a), Some(b)) => Some(a > b),
    }
}

/// bytes waiting in the tty's input buffer (typed by the peer, not yet read by anybody),
/// observed through the harness's own handle on the slave side
fn tty_input_queued(pty: &Pty) -> Option<usize> {
    use std::os::fd::AsRawFd;
    let mut n: libc::c_int = 0;
    let r = unsafe { libc::ioctl(pty.slave.as_raw_fd(), libc::FIONREAD, &mut n) };
    if r == 0 && n >= 0 { Some(n as usize) } else { None }
}

fn typed_chars(events: &[TerminalEvent]) -> String {
    events
        .iter()
        .filter_map(|e| match e {
            TerminalEvent::Key(k) if k.mode.is_empty() => match k.name {
                KeyName::Char(c) if c != '~' => Some(c),
                _ => None,
            },
            _ => None,
        })
        .collect()
}

/// A backlog round (see `Backlog`).  Returns whether the signal was raised strictly inside a poll.
///
/// Order between the window-size signal and typed characters is demanded only where it is fixed
/// by construction: the whole burst was in the tty's input buffer before the first poll
/// (FIONREAD), that poll returned the first character's key event, and the input buffer was
/// empty afterwards -- so every character of the burst had been read by a poll that returned
/// before the signal was raised.  Anything else (bytes that travel slowly, a read that takes
/// less than the burst) makes the round an ordinary input + signal round without order verdict.
fn backlog_round(
    ri: usize,
    round: &Round,
    bl: &Backlog,
    case: &Case,
    sess: &Session,
    term: &mut SystemTerminal,
    labels: &mut Vec<&'static str>,
) -> Result<bool, Fail> {
    use std::os::fd::AsRawFd;
    let poll_err = |ri: usize, e: Error| Fail::new("session/poll-error", format!("round {ri} (backlog): poll failed: {e:?}"));
    let chars: Vec<char> = bl.burst.chars().collect();
    if chars.len() < 2 {
        labels.push("backlog-round-skipped");
        return Ok(false);
    }
    let take = (bl.take.max(1) as usize).min(chars.len() - 1);
    let timeout = match round.timeout {
        Timeout::Zero => Duration::ZERO,
        // (a poll without timeout adds nothing here: every poll of this round has something
        // to return for)
        Timeout::Ms50 | Timeout::Infinite => Duration::from_millis(50),
    };
    labels.push("backlog-round");
    // whatever the previous rounds left behind is theirs
    for _ in 0..64 {
        match term.poll(Some(Duration::ZERO)) {
            Ok(Some(_)) => {}
            Ok(None) => break,
            Err(e) => return Err(poll_err(ri, e)),
        }
    }
    let clean = tty_input_queued(&sess.pty) == Some(0);
    if bl.output_first > 0 {
        term.write_all(&vec![b','; bl.output_first]).map_err(|e| Fail::new("session/write-error", format!("{e:?}")))?;
        labels.push("output-pending");
    }
    // the burst: one write; wait (bounded) until all of it is in the tty's input buffer
    let bytes = bl.burst.as_bytes();
    let written = unsafe { libc::write(sess.pty.master.as_raw_fd(), bytes.as_ptr() as *const libc::c_void, bytes.len()) };
    if written != bytes.len() as isize {
        return Err(inc(format!("typing the burst: write returned {written}")));
    }
    let t0 = Instant::now();
    let mut arrived = false;
    while clean && t0.elapsed() < Duration::from_secs(2) {
        if tty_input_queued(&sess.pty) == Some(bytes.len()) {
            arrived = true;
            break;
        }
        std::thread::sleep(Duration::from_micros(100));
    }
    let mut events: Vec<TerminalEvent> = Vec::new();
    // first poll: reads the burst, delivers its first key
    match term.poll(Some(timeout)) {
        Ok(Some(ev)) => events.push(ev),
        Ok(None) => {}
        Err(e) => return Err(poll_err(ri, e)),
    }
    let first_is_key = matches!(events.first(), Some(TerminalEvent::Key(k)) if k.mode.is_empty() && k.name == KeyName::Char(chars[0]));
    // all of the burst has been taken out of the tty by that poll
    let established = arrived && first_is_key && tty_input_queued(&sess.pty) == Some(0);
    // the application takes some more of the keys
    for _ in 1..take {
        match term.poll(Some(Duration::ZERO)) {
            Ok(Some(ev)) => events.push(ev),
            Ok(None) => {}
            Err(e) => return Err(poll_err(ri, e)),
        }
    }
    // ... and draws
    if bl.output > 0 {
        term.write_all(&vec![b';'; bl.output]).map_err(|e| Fail::new("session/write-error", format!("{e:?}")))?;
        labels.push("output-pending");
    }
    let output_pending = bl.output > 0 || term.frames_pending() > 0;
    // the window changes: before the next poll or at a point inside it
    let before_signal = events.len();
    let fired = Rc::new(Cell::new(false));
    let _guard = HookGuard;
    match round.place {
        Place::BeforePoll => {
            unsafe {
                libc::raise(libc::SIGWINCH);
            }
            fired.set(true);
        }
        Place::At { point, iter } => {
            let target = POINTS[point as usize % POINTS.len()];
            let iters = Rc::new(Cell::new(0u32));
            let fired2 = fired.clone();
            unix_verif_hooks::set_point_hook(Some(Box::new(move |p| {
                if p == Point::LoopStart {
                    iters.set(iters.get() + 1);
                }
                if !fired2.get() && p == target && iters.get() == iter as u32 + 1 {
                    fired2.set(true);
                    unsafe {
                        libc::raise(libc::SIGWINCH);
                    }
                }
            })));
        }
    }
    let r = term.poll(Some(timeout));
    unix_verif_hooks::set_point_hook(None);
    let inside = matches!(round.place, Place::At { .. }) && fired.get();
    match r {
        Ok(Some(ev)) => events.push(ev),
        Ok(None) => {}
        Err(e) => return Err(poll_err(ri, e)),
    }
    if !fired.get() {
        // the point was not reached (nothing made that poll enter its loop that far)
        unsafe {
            libc::raise(libc::SIGWINCH);
        }
        fired.set(true);
    }
    // drain
    let t0 = Instant::now();
    loop {
        match term.poll(Some(Duration::ZERO)) {
            Ok(Some(ev)) => events.push(ev),
            Ok(None) => {
                if term.frames_pending() == 0 || t0.elapsed() > Duration::from_secs(10) {
                    break;
                }
            }
            Err(e) => return Err(poll_err(ri, e)),
        }
    }
    // bounded 2 s for what travels through the pty: typed characters that were slow, and (size
    // taken from escape sequences) the size request and its answer
    let t1 = Instant::now();
    while t1.elapsed() < Duration::from_secs(2)
        && (typed_chars(&events).chars().count() < chars.len() || !events.iter().any(|e| matches!(e, TerminalEvent::Resize(_))))
    {
        match term.poll(Some(Duration::from_millis(10))) {
            Ok(Some(ev)) => events.push(ev),
            Ok(None) => {}
            Err(e) => return Err(poll_err(ri, e)),
        }
    }
    while let Ok(Some(ev)) = term.poll(Some(Duration::ZERO)) {
        events.push(ev);
    }
    if case.size_by_escape {
        labels.push("winch-answered-by-escape-sequence");
    }
    let typed = typed_chars(&events);
    ensure!(
        typed == bl.burst,
        "input/lost-or-reordered",
        "round {ri} ({:?}): the peer typed {:?} as one burst but the events carry {:?}; events {:?}",
        round,
        bl.burst,
        typed,
        events
    );
    ensure!(
        events.iter().any(|e| matches!(e, TerminalEvent::Resize(_))),
        "signal/winch-lost",
        "round {ri} ({:?}): SIGWINCH raised but no Resize event was delivered; events {:?}",
        round,
        events
    );
    ensure!(
        !events.iter().any(|e| matches!(e, TerminalEvent::Wake)),
        "wake/spurious",
        "round {ri}: Wake event without a wake call"
    );
    if !established {
        labels.push("backlog-not-established");
        return Ok(inside);
    }
    // arrival order: every character of the burst was received (read from the tty by a poll that
    // had returned) before the signal was raised, so their key events precede the Resize event
    let last_key = events
        .iter()
        .rposition(|e| matches!(e, TerminalEvent::Key(k) if k.mode.is_empty() && matches!(k.name, KeyName::Char(c) if c != '~')));
    let first_resize = events.iter().position(|e| matches!(e, TerminalEvent::Resize(_)));
    if let (Some(k), Some(r)) = (last_key, first_resize) {
        if r < before_signal {
            // a Resize delivered before the signal of this round was raised is not of this round
            labels.push("backlog-not-established");
            return Ok(inside);
        }
        ensure!(
            r > k,
            "order/winch-overtakes-input-received-earlier",
            "round {ri} ({:?}): the peer typed {:?} as one burst; all {} bytes were in the tty's input buffer before the first poll and none was left after it, so that poll had read them all; it delivered the first key, the application took {take} key event(s){}, and only then SIGWINCH was raised ({}). The Resize event was delivered before key event(s) of characters received before the signal: events in delivery order {:?} (the first {before_signal} were delivered before the signal)",
            round,
            bl.burst,
            bytes.len(),
            if output_pending { " and queued output" } else { "" },
            if inside { "inside the next poll, through the point hook" } else { "between two polls" },
            events
        );
    }
    labels.push("winch-behind-input-still-queued");
    if output_pending {
        labels.push("winch-behind-input-still-queued-with-output-pending");
    }
    Ok(inside)
}

struct StopOnDrop(Arc<AtomicBool>);
impl Drop for StopOnDrop {
    fn drop(&mut self) {
        self.0.store(true, Ordering::SeqCst);
    }
}

/// A storm round (see `Storm`).
///
/// Verdicts: (a) all calls completed and the polls delivered no Wake at all; (b) more Wake events
/// than calls; (c) the request issued after the storm -- all threads joined, zero-timeout polls
/// quiet, so every earlier request has been consumed and it has nothing to coalesce with -- is not
/// delivered by a poll with a 2 s timeout, and a second request followed by a second such poll is
/// not delivered either.  A miss that does not repeat is inconclusive.
fn storm_round(
    ri: usize,
    round: &Round,
    st: &Storm,
    term: &mut SystemTerminal,
    waker: &TerminalWaker,
    labels: &mut Vec<&'static str>,
) -> Result<(), Fail> {
    let poll_err = |e: Error| Fail::new("session/poll-error", format!("round {ri} (storm): poll failed: {e:?}"));
    let n = st.calls.len().min(4);
    if n == 0 {
        labels.push("storm-round-skipped");
        return Ok(());
    }
    // whatever the previous rounds left behind is theirs
    for _ in 0..64 {
        match term.poll(Some(Duration::ZERO)) {
            Ok(Some(_)) => {}
            Ok(None) => break,
            Err(e) => return Err(poll_err(e)),
        }
    }
    let pending = round.pending_output.min(4096);
    if pending > 0 {
        term.write_all(&vec![b':'; pending]).map_err(|e| Fail::new("session/write-error", format!("{e:?}")))?;
        labels.push("output-pending");
    }
    labels.push("wake-storm");
    let barrier = Arc::new(std::sync::Barrier::new(n + 1));
    let stop = Arc::new(AtomicBool::new(false));
    let reached = Arc::new(std::sync::atomic::AtomicUsize::new(0));
    let stop_guard = StopOnDrop(stop.clone());
    let handles: Vec<_> = (0..n)
        .map(|i| {
            let w = waker.clone();
            let min = st.calls[i].max(1) as u64;
            let (barrier, stop, reached) = (barrier.clone(), stop.clone(), reached.clone());
            std::thread::spawn(move || {
                barrier.wait();
                let (mut issued, mut errors) = (0u64, 0u64);
                loop {
                    if w.wake().is_err() {
                        errors += 1;
                    }
                    issued += 1;
                    if issued == min {
                        reached.fetch_add(1, Ordering::SeqCst);
                    }
                    if issued >= min && stop.load(Ordering::Relaxed) {
                        break;
                    }
                }
                (issued, errors)
            })
        })
        .collect();
    barrier.wait();
    let t0 = Instant::now();
    let mut wakes = 0u64;
    let mut polls = 0u32;
    loop {
        let short = st.short_every > 0 && polls % st.short_every as u32 == st.short_every as u32 - 1;
        let timeout = if short { Duration::from_micros(st.short_us as u64) } else { Duration::ZERO };
        match term.poll(Some(timeout)) {
            Ok(Some(TerminalEvent::Wake)) => wakes += 1,
            Ok(_) => {}
            Err(e) => return Err(poll_err(e)),
        }
        polls += 1;
        if polls >= st.polls.max(1) as u32 && reached.load(Ordering::SeqCst) == n {
            break;
        }
        if t0.elapsed() > Duration::from_secs(10) {
            return Err(inc("storm round: the waking threads did not get their calls done within 10 s"));
        }
    }
    drop(stop_guard);
    let (mut issued, mut errors) = (0u64, 0u64);
    for h in handles {
        match h.join() {
            Ok((i, e)) => {
                issued += i;
                errors += e;
            }
            Err(_) => return Err(inc("storm round: a waking thread panicked")),
        }
    }
    let during = wakes;
    // every call has returned: what they requested is in the pipe or has been delivered; poll
    // until the polls have gone quiet (two in a row without an event, nothing left to write)
    let t1 = Instant::now();
    let mut quiet = 0;
    while quiet < 2 {
        match term.poll(Some(Duration::ZERO)) {
            Ok(Some(TerminalEvent::Wake)) => {
                wakes += 1;
                quiet = 0;
            }
            Ok(Some(_)) => quiet = 0,
            Ok(None) => {
                if term.frames_pending() == 0 || t1.elapsed() > Duration::from_secs(10) {
                    quiet += 1;
                }
            }
            Err(e) => return Err(poll_err(e)),
        }
    }
    if errors > 0 {
        labels.push("storm-wake-call-returned-error");
    }
    ensure!(
        wakes >= 1,
        "wake/lost",
        "round {ri} ({:?}): {n} threads completed {issued} wake calls while the main thread polled {polls} times, but neither those polls nor the following ones delivered a Wake event",
        round
    );
    ensure!(
        wakes <= issued,
        "wake/more-events-than-requests",
        "round {ri} (storm): {wakes} Wake events for {issued} wake calls"
    );
    if wakes >= 2 {
        labels.push("wake-storm-several-deliveries");
    }
    // one more request, issued when every earlier one has been consumed
    let mut misses = 0u32;
    loop {
        do_wakes(waker, 1);
        let t2 = Instant::now();
        let mut got = 0u64;
        loop {
            let left = Duration::from_secs(2).saturating_sub(t2.elapsed());
            match term.poll(Some(left)) {
                Ok(Some(TerminalEvent::Wake)) => {
                    got += 1;
                    break;
                }
                Ok(Some(_)) => {}
                Ok(None) => break,
                Err(e) => return Err(poll_err(e)),
            }
            if left.is_zero() {
                break;
            }
        }
        while let Ok(Some(ev)) = term.poll(Some(Duration::ZERO)) {
            if matches!(ev, TerminalEvent::Wake) {
                got += 1;
            }
        }
        ensure!(
            got <= 1 + misses as u64,
            "wake/more-events-than-requests",
            "round {ri} (storm): {got} Wake events for {} wake call(s) issued after the storm had been consumed",
            1 + misses
        );
        if got >= 1 {
            break;
        }
        misses += 1;
        ensure!(
            misses < 2,
            "wake/lost-after-concurrent-requests",
            "round {ri} ({:?}): {n} threads issued {issued} wake requests in a tight loop while the main thread polled {polls} times ({during} Wake events taken meanwhile, {wakes} in all); the threads were joined and zero-timeout polls returned nothing any more, so every earlier request had been consumed. A further wake request from another thread then completed, but poll(2 s) timed out without a Wake event; a second request followed by a second poll(2 s) was not delivered either: the request is lost, not coalesced",
            round
        );
    }
    if misses > 0 {
        // (the byte of a completed request is in the pipe before the poll is entered; a miss that
        // does not repeat is not a verdict)
        return Err(inc("storm round: the request after the storm was delivered only after a retry"));
    }
    labels.push("wake-after-storm-delivered");
    Ok(())
}

fn run_session(case: &Case) -> Result<(Pass, bool), Fail> {
    let pty = Pty::open().map_err(|e| inc(format!("cannot open pty: {e}")))?;
    let before = pty.termios().map_err(|e| inc(format!("tcgetattr: {e}")))?;
    let peer = Peer::spawn(&pty);
    if case.size_by_escape {
        pty.set_winsize_px(24, 80, 0, 0);
        *peer.state.size_reply.lock().unwrap() = Some((24, 80, 480, 800));
    }
    let sess = Session { pty, peer, before };
    let mut term = SystemTerminal::open(&sess.pty.slave_path)
        .map_err(|e| Fail::new("session/open-error", format!("SystemTerminal::open failed: {e:?}")))?;

    // handshake leftovers
    while let Ok(Some(_)) = term.poll(Some(Duration::ZERO)) {}
    let waker = term.waker();
    let mut rescue_used = false;
    let mut labels: Vec<&'static str> = Vec::new();
    let mut inside_poll = false;
    if case.size_by_escape {
        let by_escape = term.size().map(|s| s.pixels.height == 480 && s.pixels.width == 800).unwrap_or(false);
        if by_escape && sess.peer.state.size_answered.load(Ordering::SeqCst) > 0 {
            labels.push("size-taken-from-escape-sequences");
        } else {
            return Err(inc("the terminal object did not fall back to escape sequences for its size"));
        }
    }

    for (ri, round) in case.rounds.iter().enumerate() {
        if let Some(bl) = &round.backlog {
            if backlog_round(ri, round, bl, case, &sess, &mut term, &mut labels)? {
                inside_poll = true;
            }
            continue;
        }
        if let Some(st) = &round.storm {
            storm_round(ri, round, st, &mut term, &waker, &mut labels)?;
            continue;
        }
        // `WinchTwice` has a meaning of its own only where SIGWINCH is answered by asking the
        // terminal; there the first signal precedes a poll with a finite timeout, nothing else
        // is going on, and the second signal is placed by the hook below
        let twice = matches!(round.what, What::WinchTwice) && case.size_by_escape && round.position.is_none();
        let round_norm = match (&round.what, twice) {
            (What::WinchTwice, true) => Round {
                what: What::WinchTwice,
                place: Place::BeforePoll,
                timeout: Timeout::Ms50,
                pending_output: 0,
                hold_stall: false,
                position: None,
                wake_again: false,
                backlog: None,
                storm: None,
            },
            (What::WinchTwice, false) => Round { what: What::Winch, ..round.clone() },
            _ => round.clone(),
        };
        let round = &round_norm;
        // optional pending output
        // (with the size taken from escape sequences a SIGWINCH is answered by asking the terminal:
        // question and answer need the other end to read, so such a round cannot hold the stall)
        let held = round.hold_stall
            && round.pending_output > 4096
            && round.timeout != Timeout::Infinite
            && round.position.is_none()
            && !(case.size_by_escape && matches!(round.what, What::Winch | What::WinchTwice));
        if let Some(pr) = &round.position {
            let st = &sess.peer.state;
            st.cpr_row.store(pr.at.0.max(2) as usize, Ordering::SeqCst);
            st.cpr_col.store(pr.at.1.max(1) as usize, Ordering::SeqCst);
            st.reply_delay_ms.store(pr.delay_ms as usize, Ordering::SeqCst);
            *st.reply_suffix.lock().unwrap() = pr.post.clone().into_bytes();
        }
        if round.pending_output > 0 {
            if round.pending_output > 4096 && round.position.is_none() {
                // the peer stops draining for 30 ms (it eventually drains: assumption of the
                // property), or -- held stall -- until this round's events have been delivered
                sess.peer.state.stalled.store(true, Ordering::Relaxed);
                if !held {
                    let st = sess.peer.state.clone();
                    std::thread::spawn(move || {
                        std::thread::sleep(Duration::from_millis(30));
                        st.stalled.store(false, Ordering::Relaxed);
                    });
                }
            }
            let data = vec![b'.'; round.pending_output];
            term.write_all(&data).map_err(|e| Fail::new("session/write-error", format!("{e:?}")))?;
            labels.push("output-pending");
        }
        let fired = Rc::new(Cell::new(false));
        let fired_flag = Arc::new(AtomicBool::new(false));
        let action: Rc<RefCell<Box<dyn FnMut()>>> = {
            let waker = waker.clone();
            let master_input = match &round.what {
                What::Input(s) => Some(s.clone().into_bytes()),
                _ => None,
            };
            let what = round.what.clone();
            let master_fd = {
                use std::os::fd::AsRawFd;
                sess.pty.master.as_raw_fd()
            };
            Rc::new(RefCell::new(Box::new(move || match &what {
                What::Wake { threads } => do_wakes(&waker, *threads),
                What::Input(_) => {
                    let b = master_input.as_ref().unwrap();
                    unsafe {
                        libc::write(master_fd, b.as_ptr() as *const libc::c_void, b.len());
                    }
                }
                What::Winch | What::WinchTwice => unsafe {
                    libc::raise(libc::SIGWINCH);
                },
            })))
        };
        let _guard = HookGuard;
        match round.place {
            Place::BeforePoll => {
                (action.borrow_mut())();
                fired.set(true);
                fired_flag.store(true, Ordering::SeqCst);
            }
            Place::At { point, iter } => {
                let target = POINTS[point as usize % POINTS.len()];
                let iters = Rc::new(Cell::new(0u32));
                let fired2 = fired.clone();
                let fired_flag2 = fired_flag.clone();
                let action2 = action.clone();
                unix_verif_hooks::set_point_hook(Some(Box::new(move |p| {
                    if p == Point::LoopStart {
                        iters.set(iters.get() + 1);
                    }
                    if !fired2.get() && p == target && iters.get() == iter as u32 + 1 {
                        fired2.set(true);
                        (action2.borrow_mut())();
                        fired_flag2.store(true, Ordering::SeqCst);
                    }
                })));
            }
        }
        let second_winch = Arc::new(AtomicBool::new(false));
        if twice {
            let st = sess.peer.state.clone();
            let base = st.size_answered.load(Ordering::SeqCst);
            let iters = Rc::new(Cell::new(0u32));
            let second = second_winch.clone();
            unix_verif_hooks::set_point_hook(Some(Box::new(move |p| {
                if p == Point::LoopStart {
                    iters.set(iters.get() + 1);
                }
                // from the second iteration on (the first one has seen the signal and queued the
                // size request): once the terminal has answered, and before this iteration's
                // select, the window changes again
                if p == Point::BeforeSelect && iters.get() >= 2 && !second.load(Ordering::SeqCst) {
                    let t0 = Instant::now();
                    while st.size_answered.load(Ordering::SeqCst) == base && t0.elapsed() < Duration::from_millis(20) {
                        std::thread::sleep(Duration::from_micros(200));
                    }
                    if st.size_answered.load(Ordering::SeqCst) > base {
                        // let the answer travel to the slave side
                        std::thread::sleep(Duration::from_millis(3));
                        second.store(true, Ordering::SeqCst);
                        unsafe {
                            libc::raise(libc::SIGWINCH);
                        }
                    }
                }
            })));
        }
        // the poll under test
        let timeout = match (round.timeout, &round.position) {
            // position() polls without timeout
            (_, Some(_)) => None,
            (Timeout::Zero, _) => Some(Duration::ZERO),
            (Timeout::Ms50, _) => Some(Duration::from_millis(50)),
            (Timeout::Infinite, _) => None,
        };
        // a poll without timeout must be guaranteed something to return for: if the action is
        // placed inside the poll it fires there; a rescue wake after 3 s tells a lost wake-up
        // from a hang
        let done = Arc::new(AtomicBool::new(false));
        let rescued = Arc::new(AtomicBool::new(false));
        let rescue = if timeout.is_none() {
            let (done, rescued) = (done.clone(), rescued.clone());
            let fired_flag = fired_flag.clone();
            let round_dbg = format!("{round:?}");
            let what_sig = match (&round.what, &round.position) {
                (_, Some(_)) => "position/cannot-be-ended",
                (What::Wake { .. }, _) => "wake/poll-cannot-be-ended",
                (What::Input(_), _) => "input/poll-cannot-be-ended",
                (What::Winch | What::WinchTwice, _) => "signal/winch-poll-cannot-be-ended",
            };
            let master_fd = {
                use std::os::fd::AsRawFd;
                sess.pty.master.as_raw_fd()
            };
            Some(std::thread::spawn(move || {
                let t0 = Instant::now();
                while t0.elapsed() < Duration::from_secs(3) {
                    if done.load(Ordering::Relaxed) {
                        return;
                    }
                    std::thread::sleep(Duration::from_millis(2));
                }
                // stage 1: end the poll by other means than the mechanism under test:
                // the peer types a character
                rescued.store(true, Ordering::Relaxed);
                unsafe {
                    libc::write(master_fd, b"~".as_ptr() as *const libc::c_void, 1);
                }
                // stage 2: not even typed input ends this poll: the thread inside it is lost, the
                // verdict is reported from here and the worker process ends
                while t0.elapsed() < Duration::from_secs(6) {
                    if done.load(Ordering::Relaxed) {
                        return;
                    }
                    std::thread::sleep(Duration::from_millis(5));
                }
                if fired_flag.load(Ordering::SeqCst) {
                    worker_fail_and_exit(Fail::new(
                        what_sig,
                        format!("round {ri} ({round_dbg}): poll(None) did not return within 6 s although the calls that must end it had completed, and a character typed by the peer after 3 s did not end it either"),
                    ));
                }
                worker_fail_and_exit(inc("poll(None) could not be ended and its trigger had not fired"));
            }))
        } else {
            None
        };
        let mut events: Vec<TerminalEvent> = Vec::new();
        let mut reported = None;
        let first = match &round.position {
            None => term.poll(timeout),
            Some(_) => term.position().map(|p| {
                reported = Some(p);
                None
            }),
        };
        done.store(true, Ordering::Relaxed);
        if let Some(h) = rescue {
            let _ = h.join();
        }
        unix_verif_hooks::set_point_hook(None);
        if !held {
            sess.peer.state.stalled.store(false, Ordering::Relaxed);
        }
        if round.position.is_some() {
            let st = &sess.peer.state;
            st.cpr_row.store(0, Ordering::SeqCst);
            st.reply_delay_ms.store(0, Ordering::SeqCst);
        }
        if matches!(round.place, Place::At { .. }) && fired.get() {
            inside_poll = true;
        }
        match first {
            Ok(Some(ev)) => events.push(ev),
            Ok(None) => {}
            Err(e) => {
                return Err(Fail::new("session/poll-error", format!("round {ri}: poll failed: {e:?}")));
            }
        }
        // a second request between two polls (no poll has been entered since the one above)
        let mut wake_again_base: Option<usize> = None;
        if round.wake_again && matches!(round.what, What::Wake { .. }) && round.position.is_none() && fired.get() && !held {
            wake_again_base = Some(events.iter().filter(|e| matches!(e, TerminalEvent::Wake)).count());
            do_wakes(&waker, 1);
            labels.push("wake-again-right-after-delivery");
        }
        if rescued.load(Ordering::Relaxed) {
            rescue_used = true;
            if fired.get() {
                let what = match (&round.what, &round.position) {
                    // position() returns when the terminal has answered, nothing else ends it
                    (_, Some(_)) => "position/did-not-return",
                    (What::Wake { .. }, _) => "wake/lost-poll-did-not-return",
                    (What::Input(_), _) => "input/poll-did-not-return",
                    (What::Winch | What::WinchTwice, _) => "signal/winch-poll-did-not-return",
                };
                return Err(Fail::new(
                    what,
                    format!("round {ri} ({:?}): poll(None) did not return within 3 s after the calls that must end it had completed; only a character typed by the rescue thread ended it", round),
                ));
            }
        }
        // if the placement point was never reached, perform the action now (next poll sees it)
        if !fired.get() {
            (action.borrow_mut())();
            fired.set(true);
        }
        // held stall: the peer does not drain, so output stays pending; the events of this round
        // must be delivered all the same by polls with a finite timeout (typed bytes get the
        // same 2 s to travel through the kernel as below)
        if held {
            let satisfied = |events: &[TerminalEvent]| match &round.what {
                What::Wake { .. } => events.iter().any(|e| matches!(e, TerminalEvent::Wake)),
                What::Input(s) => {
                    events
                        .iter()
                        .filter(|e| matches!(e, TerminalEvent::Key(k) if k.mode.is_empty() && matches!(k.name, KeyName::Char(c) if c != '~')))
                        .count()
                        >= s.chars().count()
                }
                What::Winch | What::WinchTwice => events.iter().any(|e| matches!(e, TerminalEvent::Resize(_))),
            };
            let t0 = Instant::now();
            let mut polls = 0u32;
            while !satisfied(&events) {
                if t0.elapsed() > Duration::from_secs(2) {
                    if term.frames_pending() > 0 {
                        sess.peer.state.stalled.store(false, Ordering::Relaxed);
                        let what = match round.what {
                            What::Wake { .. } => "wake/not-delivered-while-output-pending",
                            What::Input(_) => "input/not-delivered-while-output-pending",
                            What::Winch | What::WinchTwice => "signal/winch-not-delivered-while-output-pending",
                        };
                        return Err(Fail::new(
                            what,
                            format!(
                                "round {ri} ({:?}): output is pending (the terminal does not drain it) and {polls} polls with a zero timeout over 2 s did not deliver the event(s) of this round; events so far {:?}",
                                round, events
                            ),
                        ));
                    }
                    break;
                }
                polls += 1;
                match term.poll(Some(Duration::ZERO)) {
                    Ok(Some(ev)) => events.push(ev),
                    Ok(None) => {}
                    Err(e) => {
                        return Err(Fail::new("session/poll-error", format!("round {ri}: poll failed with output pending: {e:?}")));
                    }
                }
            }
            if satisfied(&events) && term.frames_pending() > 0 {
                labels.push("delivered-while-output-still-pending");
            }
            sess.peer.state.stalled.store(false, Ordering::Relaxed);
        }
        // drain: everything that happened must surface in the current or the next polls.
        // Wake bytes, signal bytes and tty input are already in their pipes when the calls
        // that produced them have returned, so a zero timeout is enough.
        let t0 = Instant::now();
        loop {
            match term.poll(Some(Duration::ZERO)) {
                Ok(Some(ev)) => events.push(ev),
                Ok(None) => {
                    if term.frames_pending() == 0 || t0.elapsed() > Duration::from_secs(10) {
                        break;
                    }
                }
                Err(e) => {
                    return Err(Fail::new("session/poll-error", format!("round {ri}: poll failed while draining: {e:?}")));
                }
            }
        }
        // one more zero poll after the queue drained
        while let Ok(Some(ev)) = term.poll(Some(Duration::ZERO)) {
            events.push(ev);
        }
        // bytes typed on the master side travel through a kernel work queue before the slave
        // can read them: give them a bounded time to arrive (2 s), then they count as lost
        let post = round.position.as_ref().map(|p| p.post.as_str()).unwrap_or("");
        let expect_typed: String = match &round.what {
            What::Input(s) => format!("{s}{post}"),
            _ => post.to_string(),
        };
        if let Some(pr) = &round.position {
            // (what position() returns is not part of this property; `CSI 1;n R` is ambiguous
            // with a modified F3 key anyway, so row 1 is never reported)
            let want = surf_n_term::Position::new(pr.at.0.max(2) as usize - 1, pr.at.1.max(1) as usize - 1);
            if reported == Some(want) {
                labels.push("position-call-returned-the-reported-position");
            }
            labels.push("position-call");
            if pr.delay_ms >= 1000 {
                labels.push("position-call-answered-after-1s");
            }
        }
        if !expect_typed.is_empty() {
            let s = &expect_typed;
            let typed_count = |events: &[TerminalEvent]| {
                events
                    .iter()
                    .filter(|e| matches!(e, TerminalEvent::Key(k) if k.mode.is_empty() && matches!(k.name, KeyName::Char(c) if c != '~')))
                    .count()
            };
            let t1 = Instant::now();
            while typed_count(&events) < s.chars().count() && t1.elapsed() < Duration::from_secs(2) {
                match term.poll(Some(Duration::from_millis(10))) {
                    Ok(Some(ev)) => events.push(ev),
                    Ok(None) => {}
                    Err(e) => {
                        return Err(Fail::new("session/poll-error", format!("round {ri}: poll failed while draining: {e:?}")));
                    }
                }
            }
        }
        let wakes = events.iter().filter(|e| matches!(e, TerminalEvent::Wake)).count();
        if !post.is_empty() && !matches!(round.what, What::Input(_)) {
            let typed: String = events
                .iter()
                .filter_map(|e| match e {
                    TerminalEvent::Key(k) if k.mode.is_empty() => match k.name {
                        KeyName::Char(c) if c != '~' => Some(c),
                        _ => None,
                    },
                    _ => None,
                })
                .collect();
            ensure!(
                typed == post,
                "input/lost-or-reordered",
                "round {ri} ({:?}): the peer typed {:?} behind its answer to the position request but the events carry {:?}; events {:?}",
                round,
                post,
                typed,
                events
            );
        }
        match &round.what {
            What::Wake { threads } => {
                let calls = (*threads).max(1) as usize;
                ensure!(
                    wakes >= 1,
                    "wake/lost",
                    "round {ri} ({:?}): {calls} wake call(s) completed but no Wake event was delivered by the current or the following polls; events {:?}",
                    round,
                    events
                );
                let calls = calls + wake_again_base.is_some() as usize;
                if let Some(base) = wake_again_base {
                    ensure!(
                        wakes > base,
                        "wake/lost-after-previous-delivery",
                        "round {ri} ({:?}): the poll under test returned having delivered {base} Wake event(s); a further wake request issued right afterwards (before any other poll) completed, but the following polls delivered no further Wake event; events {:?}",
                        round,
                        events
                    );
                }
                ensure!(
                    wakes <= calls,
                    "wake/more-events-than-requests",
                    "round {ri}: {wakes} Wake events for {calls} wake calls"
                );
                labels.push("wake");
                if *threads >= 2 {
                    labels.push("concurrent-wakes");
                }
            }
            What::Input(_) => {
                let s = &expect_typed;
                let typed: String = events
                    .iter()
                    .filter_map(|e| match e {
                        TerminalEvent::Key(k) if k.mode.is_empty() => match k.name {
                            KeyName::Char(c) if c != '~' => Some(c),
                            _ => None,
                        },
                        _ => None,
                    })
                    .collect();
                ensure!(
                    typed == *s,
                    "input/lost-or-reordered",
                    "round {ri} ({:?}): the peer typed {:?} but the events carry {:?}; events {:?}",
                    round,
                    s,
                    typed,
                    events
                );
                ensure!(wakes == 0, "wake/spurious", "round {ri}: Wake event without a wake call");
                labels.push("input");
                if !post.is_empty() {
                    labels.push("typed-around-the-answer-to-position");
                }
            }
            What::Winch | What::WinchTwice => {
                let want = if twice { 2 } else { 1 };
                if twice {
                    if second_winch.load(Ordering::SeqCst) {
                        labels.push("second-winch-between-answer-and-read");
                        inside_poll = true;
                    } else {
                        // the hook had no opportunity: the second signal simply follows
                        unsafe {
                            libc::raise(libc::SIGWINCH);
                        }
                    }
                }
                if case.size_by_escape {
                    // the terminal object asks the terminal for its size; the question and the
                    // answer travel through the pty: bounded 2 s, as for typed characters
                    let t1 = Instant::now();
                    while events.iter().filter(|e| matches!(e, TerminalEvent::Resize(_))).count() < want && t1.elapsed() < Duration::from_secs(2) {
                        match term.poll(Some(Duration::from_millis(10))) {
                            Ok(Some(ev)) => events.push(ev),
                            Ok(None) => {}
                            Err(e) => {
                                return Err(Fail::new("session/poll-error", format!("round {ri}: poll failed while draining: {e:?}")));
                            }
                        }
                    }
                    labels.push("winch-answered-by-escape-sequence");
                }
                let resizes = events.iter().filter(|e| matches!(e, TerminalEvent::Resize(_))).count();
                ensure!(
                    resizes >= want || !twice,
                    "signal/second-winch-lost",
                    "round {ri} ({:?}): two window-size signals, the second one raised after the terminal had answered the size request of the first ({}); only {resizes} Resize event(s) were delivered within 2 s; events {:?}",
                    round,
                    if second_winch.load(Ordering::SeqCst) { "before the terminal object read that answer" } else { "after the poll" },
                    events
                );
                ensure!(
                    resizes >= 1,
                    "signal/winch-lost",
                    "round {ri} ({:?}): SIGWINCH raised but no Resize event was delivered; events {:?}",
                    round,
                    events
                );
                ensure!(wakes == 0, "wake/spurious", "round {ri}: Wake event without a wake call");
                labels.push("winch");
            }
        }
    }

    // ---- exit path
    let da1_before = sess.peer.state.da1_answered.load(Ordering::Relaxed);
    let mut expect_epilogue = true;
    let mut own_cleanup = false;
    let mut signal_in_dispose: Option<Rc<Cell<bool>>> = None;
    match case.exit {
        Exit::DropAfterOwnCleanup { frame, poll_after } => {
            use surf_n_term::{DecMode, TerminalCommand};
            let exec = |term: &mut SystemTerminal, cmd: TerminalCommand| {
                term.execute(cmd).map_err(|e| Fail::new("session/execute-error", format!("{e:?}")))
            };
            for mode in [DecMode::MouseReport, DecMode::MouseSGR, DecMode::MouseMotions] {
                exec(&mut term, TerminalCommand::DecModeSet { enable: true, mode })?;
            }
            exec(&mut term, TerminalCommand::visible_cursor_set(false))?;
            let t0 = Instant::now();
            loop {
                term.poll(Some(Duration::ZERO)).map_err(|e| Fail::new("session/poll-error", format!("{e:?}")))?;
                if term.frames_pending() == 0 {
                    break;
                }
                if t0.elapsed() > Duration::from_secs(10) {
                    return Err(inc("output queue did not drain before the exit path"));
                }
            }
            term.write_all(&vec![b'F'; frame as usize]).map_err(|e| Fail::new("session/write-error", format!("{e:?}")))?;
            term.flush().map_err(|e| Fail::new("session/write-error", format!("{e:?}")))?;
            exec(&mut term, TerminalCommand::visible_cursor_set(true))?;
            for mode in [DecMode::MouseMotions, DecMode::MouseSGR, DecMode::MouseReport] {
                exec(&mut term, TerminalCommand::DecModeSet { enable: false, mode })?;
            }
            if poll_after {
                term.poll(Some(Duration::ZERO)).map_err(|e| Fail::new("session/poll-error", format!("{e:?}")))?;
            }
            own_cleanup = true;
            expect_epilogue = false;
            labels.push("application-cleans-up-itself-before-drop");
            if term.frames_pending() > 0 {
                labels.push("drop-with-pending-output");
            }
        }
        Exit::Drop => {}
        Exit::DropPending(n) => {
            term.write_all(&vec![b'#'; n]).map_err(|e| Fail::new("session/write-error", format!("{e:?}")))?;
            labels.push("drop-with-pending-output");
        }
        Exit::RunErr(k) | Exit::RunQuit(k) => {
            let quit = matches!(case.exit, Exit::RunQuit(_));
            let mut step = 0u8;
            let r: Result<u8, MyErr> = term.run(Some(Duration::ZERO), |term, _ev| {
                step += 1;
                let _ = write!(term, "step{step}");
                if step > k {
                    if quit { Ok(TerminalAction::Quit(step)) } else { Err(MyErr) }
                } else {
                    Ok(TerminalAction::Sleep(Duration::ZERO))
                }
            });
            ensure!(
                r.is_ok() == quit,
                "exit/run-result",
                "Terminal::run returned {:?} for a handler that {}",
                r,
                if quit { "quits" } else { "fails" }
            );
            labels.push("run-handler-exit");
        }
        Exit::RenderErr(k) => {
            let mut step = 0u8;
            let r: Result<(), MyErr> = term.run_render(|_term, _ev, mut view| {
                use surf_n_term::{Cell, Face, SurfaceMut};
                step += 1;
                view.fill(Cell::new_char(Face::default(), (b'a' + step % 20) as char));
                if step > k { Err(MyErr) } else { Ok(TerminalAction::Sleep(Duration::ZERO)) }
            });
            ensure!(r.is_err(), "exit/run-result", "run_render returned Ok for a failing handler");
            labels.push("render-handler-error");
        }
        Exit::Signal(which) => {
            let sig = [libc::SIGTERM, libc::SIGINT, libc::SIGQUIT][which as usize % 3];
            unsafe {
                libc::raise(sig);
            }
            let mut got_quit = false;
            for _ in 0..3 {
                match term.poll(Some(Duration::ZERO)) {
                    Err(Error::Quit) => {
                        got_quit = true;
                        break;
                    }
                    Err(e) => return Err(Fail::new("signal/wrong-error", format!("termination signal surfaced as {e:?}"))),
                    Ok(_) => {}
                }
            }
            ensure!(
                got_quit,
                "signal/termination-not-reported",
                "signal {sig} raised but neither the current nor the next polls returned Error::Quit"
            );
            labels.push("termination-signal");
        }
        Exit::MasterClosed => {
            expect_epilogue = false;
        }
        Exit::DropBackpressure { big, small } => {
            let st = &sess.peer.state;
            st.stalled.store(true, Ordering::SeqCst);
            // let the peer reach its stalled state, then fill the tty
            std::thread::sleep(Duration::from_millis(1));
            term.write_all(&vec![b'B'; big]).map_err(|e| Fail::new("session/write-error", format!("{e:?}")))?;
            term.flush().map_err(|e| Fail::new("session/write-error", format!("{e:?}")))?;
            term.poll(Some(Duration::ZERO)).map_err(|e| Fail::new("session/poll-error", format!("{e:?}")))?;
            term.write_all(&vec![b's'; small]).map_err(|e| Fail::new("session/write-error", format!("{e:?}")))?;
            term.flush().map_err(|e| Fail::new("session/write-error", format!("{e:?}")))?;
            term.poll(Some(Duration::ZERO)).map_err(|e| Fail::new("session/poll-error", format!("{e:?}")))?;
            if term.frames_pending() > 1 {
                labels.push("drop-with-chunk-in-flight");
            }
            st.stalled.store(false, Ordering::SeqCst);
        }
        Exit::SignalInDispose { which, point } => {
            let sig = [libc::SIGTERM, libc::SIGINT, libc::SIGQUIT][which as usize % 3];
            let target = POINTS[point as usize % POINTS.len()];
            let fired = Rc::new(Cell::new(false));
            let fired2 = fired.clone();
            unix_verif_hooks::set_point_hook(Some(Box::new(move |p| {
                if !fired2.get() && p == target {
                    fired2.set(true);
                    unsafe {
                        libc::raise(sig);
                    }
                }
            })));
            signal_in_dispose = Some(fired);
        }
    }
    let _hook_guard = HookGuard;
    let Session { pty, peer, before } = sess;
    let received_before_drop = peer.received_len();
    if case.exit == Exit::MasterClosed {
        // stop the peer, close the master, then release the terminal
        drop(peer);
        let Pty { master, slave_path: _, slave } = pty;
        drop(master);
        let t0 = Instant::now();
        drop(term);
        if t0.elapsed() > Duration::from_secs(5) {
            return Err(Fail::new("exit/drop-hangs", format!("drop took {:?} with the master side closed", t0.elapsed())));
        }
        let after = unsafe {
            use std::os::fd::AsRawFd;
            let mut t: libc::termios = std::mem::zeroed();
            if libc::tcgetattr(slave.as_raw_fd(), &mut t) != 0 {
                // the pty is gone with its master; nothing left to compare
                return Ok((finish(labels, inside_poll, true), rescue_used));
            }
            t
        };
        ensure!(
            termios_eq(&before, &after),
            "restore/termios-differs",
            "after drop (master closed first) the line settings are {} but were {} when opened",
            termios_show(&after),
            termios_show(&before)
        );
        return Ok((finish(labels, inside_poll, true), rescue_used));
    }
    let t0 = Instant::now();
    drop(term);
    let drop_time = t0.elapsed();
    unix_verif_hooks::set_point_hook(None);
    if let Some(fired) = signal_in_dispose {
        if fired.get() {
            labels.push("termination-signal-during-release");
        }
    }
    ensure!(
        drop_time < Duration::from_secs(5),
        "exit/drop-hangs",
        "drop took {:?} although the peer answers the final sync request",
        drop_time
    );
    // everything written before the final sync request has been written once drop returned;
    // wait for the peer to have seen the DA1 request
    let t1 = Instant::now();
    let seen_final_request = || {
        let received = peer.received();
        contains(&received[received_before_drop.min(received.len())..], b"\x1b[c")
    };
    while !(peer.state.da1_answered.load(Ordering::SeqCst) != da1_before && seen_final_request())
        && t1.elapsed() < Duration::from_secs(2)
    {
        std::thread::sleep(Duration::from_micros(300));
    }
    let after = pty.termios().map_err(|e| inc(format!("tcgetattr: {e}")))?;
    ensure!(
        termios_eq(&before, &after),
        "restore/termios-differs",
        "after the terminal object was released ({:?}) the line settings are {} but were {} when it was opened",
        case.exit,
        termios_show(&after),
        termios_show(&before)
    );
    if own_cleanup {
        // the application enabled mouse reporting and hid the cursor: whatever it queued
        // itself and whatever of that was discarded at release, the terminal must end up with
        // mouse reporting off and the cursor visible
        let received = peer.received();
        for (mode, want_on, what) in [
            ("1003", false, "mouse motion reporting"),
            ("1006", false, "SGR mouse mode"),
            ("1000", false, "mouse reporting"),
            ("25", true, "cursor visibility"),
        ] {
            let state = final_mode(&received, mode);
            ensure!(
                state == Some(want_on),
                "restore/terminal-left-in-application-mode",
                "exit {:?}: the application had switched mouse reporting on and the cursor off; after the terminal object was released the last thing the tty received for {what} (DEC mode {mode}) is {:?} (true = set); bytes received during release: {:?}",
                case.exit,
                state,
                String::from_utf8_lossy(&received[received_before_drop.min(received.len())..]).escape_debug().to_string()
            );
        }
    }
    if expect_epilogue {
        let received = peer.received();
        let tail = &received[received_before_drop.min(received.len())..];
        for (needle, what) in [
            (&b"\x1b[?1003l"[..], "mouse motion reporting off"),
            (&b"\x1b[?1006l"[..], "SGR mouse mode off"),
            (&b"\x1b[?1000l"[..], "mouse reporting off"),
            (&b"\x1b[?25h"[..], "cursor visible"),
        ] {
            ensure!(
                contains(tail, needle),
                "restore/closing-sequence-missing",
                "exit {:?}: the closing sequence ({what}, {:?}) was not delivered to the tty; bytes after the last application output: {:?}",
                case.exit,
                String::from_utf8_lossy(needle).escape_debug().to_string(),
                String::from_utf8_lossy(tail).escape_debug().to_string()
            );
        }
    }
    drop(peer);
    drop(pty);
    Ok((finish(labels, inside_poll, false), rescue_used))
}

fn finish(labels: Vec<&'static str>, inside_poll: bool, master_closed: bool) -> Pass {
    let mut p = Pass::new(
        inside_poll
            || labels.contains(&"drop-with-pending-output")
            || labels.contains(&"output-pending")
            || labels.contains(&"termination-signal-during-release")
            || labels.contains(&"drop-with-chunk-in-flight")
            || labels.contains(&"position-call")
            || labels.contains(&"wake-storm")
            || labels.contains(&"winch-behind-input-still-queued"),
    )
        .label_if(inside_poll, "placed-inside-poll")
        .label_if(master_closed, "master-closed-first");
    let mut seen = std::collections::BTreeSet::new();
    for l in labels {
        if seen.insert(l) {
            p = p.label(l);
        }
    }
    p
}

impl Property for C17 {
    type Case = Case;

    fn id(&self) -> &'static str {
        "C17"
    }

    fn self_confirming(&self, sig: &str) -> bool {
        // a storm's final request was missed twice in a row (2 s each) inside the round
        sig == "wake/lost-after-concurrent-requests"
    }

    fn isolate(&self) -> bool {
        // signal dispositions are process wide: one terminal per process
        true
    }

    fn strategy(&self, _tier: Tier) -> BoxedStrategy<Case> {
        let what = prop_oneof![
            5 => (1u8..=3).prop_map(|threads| What::Wake { threads }),
            3 => "[a-z0-9]{1,6}".prop_map(What::Input),
            2 => Just(What::Winch),
            1 => Just(What::WinchTwice),
        ];
        let place = prop_oneof![
            1 => Just(Place::BeforePoll),
            6 => (0u8..7, 0u8..3).prop_map(|(point, iter)| Place::At { point, iter }),
        ];
        let timeout = prop_oneof![3 => Just(Timeout::Zero), 2 => Just(Timeout::Ms50), 2 => Just(Timeout::Infinite)];
        let pending = prop_oneof![4 => Just(0usize), 2 => 1usize..2000, 1 => 5000usize..40000];
        let pos_round = proptest::option::weighted(
            0.1,
            (
                prop_oneof![4 => Just(0u16), 4 => 1u16..60, 2 => 200u16..400, 1 => Just(1200u16)],
                (2u8..=50, 1u8..=120),
                prop_oneof![2 => Just(String::new()), 1 => "[a-z0-9]{1,3}"],
            )
                .prop_map(|(delay_ms, at, post)| PosRound { delay_ms, at, post }),
        );
        // backlog rounds: a burst of 3-8 characters, the application takes 1-3 of its key events
        // (always leaving at least one queued), optionally output before the first poll and --
        // three times out of four -- output queued ("a frame drawn") before the window changes
        let backlog = proptest::option::weighted(
            0.12,
            (
                "[a-z0-9]{3,8}",
                0u8..3,
                prop_oneof![3 => Just(0usize), 1 => 1usize..3000],
                prop_oneof![1 => Just(0usize), 2 => 1usize..2000, 1 => 5000usize..40000],
            )
                .prop_map(|(burst, sel, output_first, output)| {
                    let n = burst.chars().count();
                    let take = 1 + sel % (n as u8 - 1).min(3);
                    Backlog { burst, take, output_first, output }
                }),
        );
        // storm rounds: 2-4 threads, each at least 200-3000 wake calls in a tight loop, kept up
        // until the main thread has polled 50-400 times (zero timeout; optionally every 2nd-5th
        // poll 50-500 us)
        let storm = proptest::option::weighted(
            0.15,
            (
                proptest::collection::vec(200u16..=3000, 2..=4),
                50u16..=400,
                prop_oneof![2 => Just(0u8), 1 => 2u8..=5],
                50u16..=500,
            )
                .prop_map(|(calls, polls, short_every, short_us)| Storm { calls, polls, short_every, short_us }),
        );
        let round = (what, place, timeout, pending, any::<bool>(), pos_round, proptest::bool::weighted(0.3), backlog, storm).prop_map(|(what, place, timeout, pending_output, hold, position, wake_again, backlog, storm)| {
            if backlog.is_some() {
                // the fields a backlog round does not use are given their neutral values
                let timeout = if timeout == Timeout::Infinite { Timeout::Ms50 } else { timeout };
                return Round { what: What::Winch, place, timeout, pending_output: 0, hold_stall: false, position: None, wake_again: false, backlog, storm: None };
            }
            if storm.is_some() {
                return Round {
                    what: What::Wake { threads: 1 },
                    place: Place::BeforePoll,
                    timeout: Timeout::Zero,
                    pending_output: if pending_output > 4096 { 0 } else { pending_output },
                    hold_stall: false,
                    position: None,
                    wake_again: false,
                    backlog: None,
                    storm,
                };
            }
            // position(): the requests must reach a terminal that reads; typed characters keep
            // their order of arrival only if those of the action are typed before the request
            let (place, timeout, pending_output) = match &position {
                Some(pr) => (
                    match (&what, place) {
                        (What::Input(_), _) if !pr.post.is_empty() => Place::BeforePoll,
                        (_, Place::At { point, .. }) => Place::At { point, iter: 0 },
                        (_, p) => p,
                    },
                    Timeout::Infinite,
                    pending_output.min(4096),
                ),
                None => (place, timeout, pending_output),
            };
            // a poll without timeout blocks in its first select unless output is pending: its
            // trigger must be placed where that poll can reach it
            let place = match (timeout, place) {
                (Timeout::Infinite, Place::At { point, .. }) if pending_output == 0 => Place::At { point: point % 2, iter: 0 },
                (Timeout::Infinite, Place::At { point, .. }) => Place::At { point, iter: 0 },
                (_, p) => p,
            };
            let hold_stall = hold && pending_output > 4096 && timeout != Timeout::Infinite;
            Round { what, place, timeout, pending_output, hold_stall, position, wake_again, backlog: None, storm: None }
        });
        let exit = prop_oneof![
            3 => Just(Exit::Drop),
            2 => (1usize..30000).prop_map(Exit::DropPending),
            2 => (0u8..4).prop_map(Exit::RunErr),
            1 => (0u8..4).prop_map(Exit::RunQuit),
            2 => (0u8..3).prop_map(Exit::RenderErr),
            2 => (0u8..3).prop_map(Exit::Signal),
            2 => (0u8..3, 0u8..7).prop_map(|(which, point)| Exit::SignalInDispose { which, point }),
            2 => (20_000usize..200_000, 1usize..3000).prop_map(|(big, small)| Exit::DropBackpressure { big, small }),
            1 => Just(Exit::MasterClosed),
            2 => (0u16..3000, any::<bool>()).prop_map(|(frame, poll_after)| Exit::DropAfterOwnCleanup { frame, poll_after }),
        ];
        (proptest::collection::vec(round, 0..5), exit, proptest::bool::weighted(0.25))
            .prop_map(|(rounds, exit, size_by_escape)| Case { rounds, exit, size_by_escape })
            .boxed()
    }

    fn check(&self, case: &Case) -> Outcome {
        let (pass, rescue_used) = run_session(case)?;
        if rescue_used {
            // an infinite poll that needed the rescue wake although nothing was lost according
            // to the event oracle: timing trouble, not a verdict
            return Err(inc("poll(None) needed the rescue wake"));
        }
        Ok(pass)
    }

    fn cases(&self, tier: Tier) -> u32 {
        tier.pick(400, 8000)
    }

    fn max_shrink_iters(&self) -> u32 {
        200
    }

    fn rule(&self) -> String {
        "session = real SystemTerminal on a pseudo-terminal (one per worker process) with a scripted peer; 0-4 rounds, each: {1-3 concurrent wake calls from other threads | the peer types 1-6 characters | raise(SIGWINCH)} placed before the poll or at one of 7 named points (loop start, before/after select, before signal processing, before the waker read, before the tty read, loop end) of loop iteration 0-2 of a poll with timeout 0 / 50 ms / none, optionally with 1-40000 bytes of output pending (above 4096 the peer is stalled, for 30 ms or -- finite timeouts, half of those rounds -- until the round's events have been delivered, which zero-timeout polls must achieve within 2 s although the output stays pending); then drained with zero-timeout polls. One round in ten calls Terminal::position() instead of poll: the peer answers the cursor position request after 0 / 1-59 / 200-399 / 1200 ms, optionally typing 1-3 characters in the same write as its answer; nothing that arrived meanwhile may be lost or reordered. In 30% of the wake rounds one more wake request is issued as soon as the poll under test has returned, before any other poll is entered; it must produce a further Wake event. A `WinchTwice` round (escape-sequence size sessions) raises SIGWINCH, polls with 50 ms, and raises it again through the hook right after the terminal has answered the size request and before the terminal object has read the answer: two Resize events must arrive within 2 s. One round in eight is a backlog round: the peer types 3-8 characters as one burst (one write; the harness waits, bounded, until FIONREAD on its own slave handle shows the whole burst in the tty's input buffer), optionally 1-2999 bytes of output are queued first, one poll (timeout 0 / 50 ms) delivers the first key -- its read has taken the whole burst out of the tty, checked with FIONREAD = 0 afterwards, so the other keys stay queued inside the terminal object --, the application takes 0-2 more keys with one poll each (at least one stays queued), three times out of four queues 1-1999 or 5000-39999 bytes of output (draws a frame), then SIGWINCH is raised before the next poll or at one of the 7 points of its loop iteration 0-2, and everything is drained: the burst in order, >=1 Resize, and -- only where the construction above was confirmed, otherwise the round counts as `backlog-not-established` and no order is judged -- every key of the burst before the Resize event, because those characters had been received by a poll that returned before the signal was raised. One round in seven is a storm round (nothing placed through the hook, real parallelism): 2-4 threads start together and each calls wake() in a tight loop, at least 200-3000 times and until the main thread has completed 50-400 polls (zero timeout; in a third of the storms every 2nd-5th poll has 50-500 us), optionally with 1-2000 bytes of output pending; the main thread takes the Wake events; the threads are joined and zero-timeout polls continue until two in a row return nothing; >=1 and <= #calls Wake events; then ONE more wake request is issued from another thread -- every earlier request has been consumed, so it has nothing to coalesce with -- and a poll with a 2 s timeout must return a Wake event (exactly one); a miss is retried once (second request, second 2 s poll) and is a violation (`wake/lost-after-concurrent-requests`) only if it repeats, a miss that does not repeat is inconclusive. Oracles: >=1 and <= #calls Wake events for wake rounds, typed characters delivered in order, >=1 Resize per SIGWINCH round, no spurious Wake, Resize never ahead of input received before the signal (backlog rounds). Exit path: drop | drop with pending output | Terminal::run handler error/quit at step k | run_render handler error at step k | SIGTERM/SIGINT/SIGQUIT (must surface as Error::Quit) | SIGTERM/SIGINT/SIGQUIT raised at one of the 7 points of the first poll iteration inside drop | drop with the front chunk of the output queue partly transmitted (peer stalled, 20-200 kB written and polled, 1-3000 more bytes queued, peer resumes, drop) | an application that switched mouse reporting on and the cursor off, wrote a frame, queued its own cursor-visible/mouse-off commands behind it (optionally polled once) and is dropped: the last set/reset the tty received for modes 1000, 1003, 1006 must be reset and for mode 25 set | master closed first; one session in four runs on a pty whose ioctl reports no pixel size while the peer answers CSI 18 t CSI 14 t, so the terminal object takes its size from escape sequences and answers SIGWINCH by asking the terminal (the Resize event then gets the same bounded 2 s as typed characters); afterwards tcgetattr on the slave must equal the snapshot taken before open and (master still open) the bytes received after the last application output must contain ESC[?1003l, ESC[?1006l, ESC[?1000l and ESC[?25h. non-trivial = a trigger placed strictly inside a poll or inside the release, or output pending during a round or at release, or a window-size signal raised while input received earlier was still queued, or a storm round".into()
    }

    fn assumptions(&self) -> Vec<String> {
        vec![
            "interleavings are placed through the verif hook at 7 named points of the poll loop and by joining the waking threads inside the hook; kernel-side races inside select(2) itself are not enumerable".into(),
            "storm rounds sample the interleavings the hook cannot place (a request landing between two adjacent statements of the poll loop): the schedule is the machine's, so what is judged is only its outcome -- a request issued after all waking threads were joined and zero-timeout polls had gone quiet cannot coalesce with an earlier one, its byte is in the pipe when wake() has returned, so the next poll must deliver it whatever happened before; 2 s and one retry are generosity towards a loaded machine, not part of the statement; whether a particular storm hits a particular window is chance, so a storm that passes proves nothing about windows it did not hit (needs >= 2 cores actually running the threads in parallel)".into(),
            "bounded time: after the wake/signal/typing calls have returned their bytes are already in the respective pipes, so zero-timeout polls must deliver them; poll(None) is guarded by a rescue thread that types a character after 3 s — a poll that had to be ended that way although the wake/typing/signal calls had completed is reported (the harness owns the schedule, so this is reproducible); a rescue without a completed trigger is inconclusive".into(),
            "order is checked per source (characters typed by the peer); between sources select gives no order, so order between typed characters and a window-size signal is judged only in backlog rounds, where it is fixed by construction: all characters were in the tty's input buffer before a poll (FIONREAD on a second handle of the slave), none was left after that poll returned (nobody else reads the slave), and the signal was raised only afterwards -- arrival order then puts their key events before the Resize event; no order is demanded between a signal and bytes not yet read, nor between wake requests and anything else (the statement names input bytes and window-size signals); a burst that does not show up in the input buffer within 2 s, a first poll that does not deliver the first key, or a read that leaves bytes behind makes the round an ordinary input + signal round (label backlog-not-established), never a violation".into(),
            "the peer answers the library's DA1 sync requests, so dispose() does not wait for its 1 s timeout".into(),
        ]
    }
}
