//! Reference regular expressions: AST + Brzozowski-derivative matcher, and a builder that
//! constructs the *same* expression through the library's public NFA combinators.
//! Used by C15 (automata) and C03 (tokeniser core).

use proptest::prelude::*;
use serde::{Deserialize, Serialize};
use std::collections::BTreeSet;
use surf_n_term::automata::NFA;

#[derive(Clone, Debug, PartialEq, Eq, Hash, PartialOrd, Ord, Serialize, Deserialize)]
pub enum Re {
    /// matches nothing (library: `NFA::nothing()`)
    Nothing,
    /// matches the empty string (library: `NFA::empty()`)
    Empty,
    /// literal byte string, non-empty, ASCII (library: `NFA::from(&str)`)
    Lit(Vec<u8>),
    /// one byte out of a set, possibly empty set (library: `NFA::predicate`)
    Set(Vec<u8>),
    /// concatenation (library: `NFA::sequence` / `+`)
    Seq(Vec<Re>),
    /// alternation (library: `NFA::choice` / `|`)
    Alt(Vec<Re>),
    /// `x?` (library: `optional`)
    Opt(Box<Re>),
    /// `x+` (library: `some`)
    Plus(Box<Re>),
    /// `x*` (library: `many`)
    Star(Box<Re>),
}

impl Re {
    pub fn nullable(&self) -> bool {
        match self {
            Re::Nothing | Re::Lit(_) | Re::Set(_) => false,
            Re::Empty | Re::Opt(_) | Re::Star(_) => true,
            Re::Seq(rs) => rs.iter().all(Re::nullable),
            Re::Alt(rs) => rs.iter().any(Re::nullable),
            Re::Plus(r) => r.nullable(),
        }
    }

    /// language is non-empty
    pub fn inhabited(&self) -> bool {
        match self {
            Re::Nothing => false,
            Re::Empty | Re::Opt(_) | Re::Star(_) => true,
            Re::Lit(_) => true,
            Re::Set(s) => !s.is_empty(),
            Re::Seq(rs) => rs.iter().all(Re::inhabited),
            Re::Alt(rs) => rs.iter().any(Re::inhabited),
            Re::Plus(r) => r.inhabited(),
        }
    }

    fn seq(mut parts: Vec<Re>) -> Re {
        let mut out = Vec::with_capacity(parts.len());
        for p in parts.drain(..) {
            match p {
                Re::Nothing => return Re::Nothing,
                Re::Empty => {}
                Re::Seq(inner) => out.extend(inner),
                p => out.push(p),
            }
        }
        match out.len() {
            0 => Re::Empty,
            1 => out.pop().unwrap(),
            _ => Re::Seq(out),
        }
    }

    fn alt(parts: Vec<Re>) -> Re {
        let mut set = BTreeSet::new();
        for p in parts {
            match p {
                Re::Nothing => {}
                Re::Alt(inner) => set.extend(inner),
                p => {
                    set.insert(p);
                }
            }
        }
        match set.len() {
            0 => Re::Nothing,
            1 => set.into_iter().next().unwrap(),
            _ => Re::Alt(set.into_iter().collect()),
        }
    }

    /// Brzozowski derivative with respect to one byte
    pub fn deriv(&self, b: u8) -> Re {
        match self {
            Re::Nothing | Re::Empty => Re::Nothing,
            Re::Lit(bytes) => {
                if bytes.first() == Some(&b) {
                    if bytes.len() == 1 {
                        Re::Empty
                    } else {
                        Re::Lit(bytes[1..].to_vec())
                    }
                } else {
                    Re::Nothing
                }
            }
            Re::Set(s) => {
                if s.contains(&b) {
                    Re::Empty
                } else {
                    Re::Nothing
                }
            }
            Re::Seq(rs) => {
                // d(r1 r2 … rn) = d(r1) r2…rn | [r1 nullable] d(r2 … rn)
                let mut alts = Vec::new();
                for i in 0..rs.len() {
                    let mut parts = vec![rs[i].deriv(b)];
                    parts.extend(rs[i + 1..].iter().cloned());
                    alts.push(Re::seq(parts));
                    if !rs[i].nullable() {
                        break;
                    }
                }
                Re::alt(alts)
            }
            Re::Alt(rs) => Re::alt(rs.iter().map(|r| r.deriv(b)).collect()),
            Re::Opt(r) => r.deriv(b),
            Re::Plus(r) => Re::seq(vec![r.deriv(b), Re::Star(r.clone())]),
            Re::Star(r) => Re::seq(vec![r.deriv(b), Re::Star(r.clone())]),
        }
    }

    pub fn deriv_str(&self, s: &[u8]) -> Re {
        let mut cur = self.clone();
        for &b in s {
            cur = cur.deriv(b);
            if cur == Re::Nothing {
                break;
            }
        }
        cur
    }

    pub fn matches(&self, s: &[u8]) -> bool {
        self.deriv_str(s).nullable()
    }

    /// `s` is a prefix of some string of the language
    pub fn viable(&self, s: &[u8]) -> bool {
        self.deriv_str(s).inhabited()
    }

    /// bytes mentioned anywhere in the expression
    pub fn alphabet(&self, out: &mut BTreeSet<u8>) {
        match self {
            Re::Nothing | Re::Empty => {}
            Re::Lit(b) | Re::Set(b) => out.extend(b.iter().copied()),
            Re::Seq(rs) | Re::Alt(rs) => rs.iter().for_each(|r| r.alphabet(out)),
            Re::Opt(r) | Re::Plus(r) | Re::Star(r) => r.alphabet(out),
        }
    }

    /// a postfix operator applied to a non-atomic operand appears somewhere
    pub fn has_postfix_on_composite(&self) -> bool {
        match self {
            Re::Nothing | Re::Empty | Re::Lit(_) | Re::Set(_) => false,
            Re::Seq(rs) | Re::Alt(rs) => rs.iter().any(Re::has_postfix_on_composite),
            Re::Opt(r) | Re::Plus(r) | Re::Star(r) => {
                !matches!(**r, Re::Set(_) | Re::Empty | Re::Nothing)
                    && !matches!(&**r, Re::Lit(b) if b.len() == 1)
                    || r.has_postfix_on_composite()
            }
        }
    }

    pub fn size(&self) -> usize {
        match self {
            Re::Nothing | Re::Empty | Re::Lit(_) | Re::Set(_) => 1,
            Re::Seq(rs) | Re::Alt(rs) => 1 + rs.iter().map(Re::size).sum::<usize>(),
            Re::Opt(r) | Re::Plus(r) | Re::Star(r) => 1 + r.size(),
        }
    }

    /// Build through the public combinators, in the same shape.  `variant` selects between
    /// equivalent spellings of the API (`+`/`|` operators vs `sequence`/`choice`).
    pub fn build<T: Clone>(&self, variant: bool) -> NFA<T> {
        match self {
            Re::Nothing => NFA::nothing(),
            Re::Empty => NFA::empty(),
            Re::Lit(bytes) => {
                match std::str::from_utf8(bytes) {
                    Ok(s) if bytes.is_ascii() => NFA::from(s),
                    _ => NFA::sequence(bytes.iter().map(|&b| NFA::predicate(move |x| x == b))),
                }
            }
            Re::Set(set) => {
                let set = set.clone();
                NFA::predicate(move |b| set.contains(&b))
            }
            Re::Seq(rs) => {
                if variant && rs.len() == 2 {
                    rs[0].build::<T>(variant) + rs[1].build::<T>(variant)
                } else {
                    NFA::sequence(rs.iter().map(|r| r.build::<T>(variant)))
                }
            }
            Re::Alt(rs) => {
                if variant && rs.len() == 2 {
                    rs[0].build::<T>(variant) | rs[1].build::<T>(variant)
                } else {
                    NFA::choice(rs.iter().map(|r| r.build::<T>(variant)))
                }
            }
            Re::Opt(r) => r.build::<T>(variant).optional(),
            Re::Plus(r) => r.build::<T>(variant).some(),
            Re::Star(r) => r.build::<T>(variant).many(),
        }
    }
}

/// Expression generator; `alphabet` is the set of bytes literals/sets are drawn from.
pub fn re_strategy(alphabet: &'static [u8], depth: u32, allow_degenerate: bool) -> BoxedStrategy<Re> {
    let byte = proptest::sample::select(alphabet.to_vec());
    let lit = proptest::collection::vec(byte.clone(), 1..=3).prop_map(Re::Lit);
    let set = proptest::collection::vec(byte.clone(), 0..=3).prop_map(|mut v| {
        v.sort();
        v.dedup();
        Re::Set(v)
    });
    let leaf = if allow_degenerate {
        prop_oneof![
            8 => lit,
            4 => set,
            1 => Just(Re::Empty),
            1 => Just(Re::Nothing),
        ]
        .boxed()
    } else {
        prop_oneof![
            8 => lit,
            4 => set.prop_filter_map("non-empty set", |r| match &r {
                Re::Set(s) if s.is_empty() => None,
                _ => Some(r),
            }),
        ]
        .boxed()
    };
    leaf.prop_recursive(depth, 24, 3, |inner| {
        prop_oneof![
            3 => proptest::collection::vec(inner.clone(), 2..=3).prop_map(Re::Seq),
            2 => proptest::collection::vec(inner.clone(), 2..=3).prop_map(Re::Alt),
            2 => inner.clone().prop_map(|r| Re::Opt(Box::new(r))),
            2 => inner.clone().prop_map(|r| Re::Plus(Box::new(r))),
            2 => inner.clone().prop_map(|r| Re::Star(Box::new(r))),
            // the shapes the property names explicitly: ?/+ around operands that begin or
            // end with a loop
            1 => (inner.clone(), inner.clone()).prop_map(|(a, b)| Re::Opt(Box::new(Re::Seq(vec![
                Re::Plus(Box::new(a)),
                b
            ])))),
            1 => (inner.clone(), inner.clone()).prop_map(|(a, b)| Re::Opt(Box::new(Re::Seq(vec![
                a,
                Re::Plus(Box::new(b))
            ])))),
            1 => (inner.clone(), inner.clone()).prop_map(|(a, b)| Re::Plus(Box::new(Re::Seq(vec![
                a,
                Re::Opt(Box::new(b))
            ])))),
            1 => (inner.clone(), inner).prop_map(|(a, b)| Re::Plus(Box::new(Re::Seq(vec![
                Re::Star(Box::new(a)),
                b
            ])))),
        ]
    })
    .boxed()
}
