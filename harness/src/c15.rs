//! C15 — compiled automata accept exactly the language of the expression that built them.
//!
//! Generator: regular-expression ASTs (with weight on `?`/`+` applied to operands that begin
//! or end with a loop), optionally a tagged top-level choice (flat or with a nested group, the
//! two shapes the production decoder uses).  The same expression is built through the public
//! NFA combinators and compiled.  Oracle: Brzozowski-derivative matcher (`refre`), compared on
//! ALL strings over {a,b,c} up to a length bound plus random longer strings.

use crate::engine::*;
use crate::refre::{Re, re_strategy};
use proptest::prelude::*;
use serde::{Deserialize, Serialize};
use std::collections::BTreeSet;
use surf_n_term::automata::{DFA, DFAState, NFA};

pub struct C15;

#[derive(Clone, Debug, Serialize, Deserialize)]
pub struct Case {
    /// alternatives; a single untagged alternative is built without a top-level choice
    pub alts: Vec<Re>,
    /// alternatives carry tags (their index)
    pub tagged: bool,
    /// group alternatives `nested..` in an inner choice (as `basic_events_nfa` does)
    pub nested_from: Option<usize>,
    /// API spelling variant (`+`/`|` operators vs `sequence`/`choice`)
    pub variant: bool,
    /// additional longer input strings
    pub extra: Vec<Vec<u8>>,
    /// exhaustive string length over {a,b,c}
    pub depth: usize,
    /// the tagged choice is not the outermost combinator: `prefix (choice) suffix`, or with
    /// `looped` `prefix (choice)+ suffix` -- an alternative then completes before the whole
    /// expression accepts (the shape of a tagged key table followed by a terminator)
    #[serde(default)]
    pub context: Option<Context>,
    /// history on the NFA value: the expression is built and compiled once (that automaton is
    /// checked too), then extended with a postfix combinator (0 `some`, 1 `many`, 2 `optional`;
    /// bit 2: the extension is applied to a clone instead of the compiled value itself) and
    /// compiled again -- nothing computed for the first compilation may leak into the second
    #[serde(default)]
    pub recompiled: Option<u8>,
    /// a single alternative is wrapped in a one-element `NFA::choice` (otherwise it is used as it
    /// is, tagged on its own stop state when `tagged`)
    #[serde(default)]
    pub lone_choice: bool,
}

#[derive(Clone, Debug, Serialize, Deserialize)]
pub struct Context {
    pub prefix: Option<Re>,
    pub suffix: Option<Re>,
    pub looped: bool,
    /// instead of `looped`: Some(0) = `(choice)*`, Some(1) = `(choice)?`
    #[serde(default)]
    pub post: Option<u8>,
}

const ABC: &[u8] = b"abc";
const WIDE: &[u8] = b"abc\x1b\xff0";

fn build(case: &Case) -> NFA<usize> {
    let Some(ctx) = &case.context else {
        return build_choice(case);
    };
    let mut body = build_choice(case);
    body = match (ctx.post, ctx.looped) {
        (Some(0), _) => body.many(),
        (Some(_), _) => body.optional(),
        (None, true) => body.some(),
        (None, false) => body,
    };
    let mut parts: Vec<NFA<usize>> = Vec::new();
    if let Some(p) = &ctx.prefix {
        parts.push(p.build::<usize>(case.variant));
    }
    parts.push(body);
    if let Some(x) = &ctx.suffix {
        parts.push(x.build::<usize>(case.variant));
    }
    NFA::sequence(parts)
}

/// expressions against which acceptance and tags are judged: one per alternative ("the input
/// ends exactly at the end of this alternative") followed by the whole expression
fn reference(case: &Case) -> Vec<Re> {
    let choice = Re::Alt(case.alts.clone());
    let Some(ctx) = &case.context else {
        let mut out = case.alts.clone();
        out.push(choice);
        return out;
    };
    let repeats = matches!((ctx.post, ctx.looped), (Some(0), _) | (None, true));
    let lead: Vec<Re> = ctx
        .prefix
        .iter()
        .cloned()
        .chain(repeats.then(|| Re::Star(Box::new(choice.clone()))))
        .collect();
    let mut out: Vec<Re> = case
        .alts
        .iter()
        .map(|a| {
            let mut parts = lead.clone();
            parts.push(a.clone());
            Re::Seq(parts)
        })
        .collect();
    let mut whole: Vec<Re> = ctx.prefix.iter().cloned().collect();
    whole.push(match (ctx.post, ctx.looped) {
        (Some(0), _) => Re::Star(Box::new(choice)),
        (Some(_), _) => Re::Opt(Box::new(choice)),
        (None, true) => Re::Plus(Box::new(choice)),
        (None, false) => choice,
    });
    whole.extend(ctx.suffix.iter().cloned());
    out.push(Re::Seq(whole));
    out
}

fn build_choice(case: &Case) -> NFA<usize> {
    let tag = |i: usize, re: &Re| -> NFA<usize> {
        let nfa = re.build::<usize>(case.variant);
        if case.tagged {
            nfa.tag_stop_state(i)
        } else {
            nfa
        }
    };
    if case.alts.len() == 1 && !case.lone_choice {
        return tag(0, &case.alts[0]);
    }
    match case.nested_from {
        Some(k) if k < case.alts.len() => {
            let mut top: Vec<NFA<usize>> = case.alts[..k]
                .iter()
                .enumerate()
                .map(|(i, r)| tag(i, r))
                .collect();
            let inner = NFA::choice(
                case.alts[k..]
                    .iter()
                    .enumerate()
                    .map(|(i, r)| tag(k + i, r)),
            );
            top.push(inner);
            NFA::choice(top)
        }
        _ => NFA::choice(case.alts.iter().enumerate().map(|(i, r)| tag(i, r))),
    }
}

struct Walker<'a> {
    case: &'a Case,
    dfa: &'a DFA<usize>,
    alphabet: Vec<u8>,
    visited: u64,
    accepted: u64,
    dead: u64,
}

impl Walker<'_> {
    fn check_node(&mut self, s: &[u8], st: DFAState, ders: &[Re]) -> Result<(), Fail> {
        self.visited += 1;
        let info = self.dfa.info(st);
        let (whole, ders) = ders.split_last().expect("reference expressions");
        let matching: BTreeSet<usize> = ders
            .iter()
            .enumerate()
            .filter(|(_, d)| d.nullable())
            .map(|(i, _)| i)
            .collect();
        let want_accept = whole.nullable();
        if want_accept {
            self.accepted += 1;
        }
        ensure!(
            info.is_accepting == want_accept,
            if want_accept { "language/rejects-member" } else { "language/accepts-non-member" },
            "input {:?}: automaton accepting={}, expression matches={} ; case {:?}",
            String::from_utf8_lossy(s),
            info.is_accepting,
            want_accept,
            self.case
        );
        ensure!(
            self.dfa.matches(s.iter().copied()) == want_accept,
            "language/matches-fn",
            "DFA::matches({:?}) disagrees with the expression; case {:?}",
            String::from_utf8_lossy(s),
            self.case
        );
        if self.case.tagged {
            ensure!(
                info.tags == matching,
                "tags/mismatch",
                "input {:?}: reported tags {:?}, alternatives that match {:?}; case {:?}",
                String::from_utf8_lossy(s),
                info.tags,
                matching,
                self.case
            );
        }
        if info.is_terminal {
            for &x in &self.alphabet {
                let ext = whole.deriv(x).inhabited();
                ensure!(
                    !ext,
                    "terminal/extendable",
                    "state after {:?} reported terminal but byte {:#x} extends a match; case {:?}",
                    String::from_utf8_lossy(s),
                    x,
                    self.case
                );
            }
        }
        // stepping is a function of (state, byte) and agrees with transition_many
        let again = self.dfa.transition_many(self.dfa.start(), s.iter().copied());
        ensure!(
            again == Some(st),
            "determinism/transition_many",
            "transition_many({:?}) = {:?}, stepwise = {:?}; case {:?}",
            String::from_utf8_lossy(s),
            again,
            st,
            self.case
        );
        Ok(())
    }

    fn step(
        &mut self,
        s: &mut Vec<u8>,
        st: DFAState,
        ders: &[Re],
        x: u8,
    ) -> Result<Option<(DFAState, Vec<Re>)>, Fail> {
        let next = self.dfa.transition(st, x);
        let next2 = self.dfa.transition(st, x);
        ensure!(
            next == next2,
            "determinism/transition",
            "transition not a function; case {:?}",
            self.case
        );
        let nders: Vec<Re> = ders.iter().map(|d| d.deriv(x)).collect();
        s.push(x);
        match next {
            None => {
                self.dead += 1;
                let viable = nders.last().is_some_and(Re::inhabited);
                let r = if viable {
                    Err(Fail::new(
                        "language/dead-but-viable",
                        format!(
                            "input {:?}: dead transition reported but the expression can still match an extension; case {:?}",
                            String::from_utf8_lossy(s),
                            self.case
                        ),
                    ))
                } else {
                    Ok(None)
                };
                s.pop();
                r
            }
            Some(nst) => {
                let r = self.check_node(s, nst, &nders);
                s.pop();
                r.map(|_| Some((nst, nders)))
            }
        }
    }

    fn dfs(&mut self, s: &mut Vec<u8>, st: DFAState, ders: &[Re], depth: usize) -> Result<(), Fail> {
        if depth == 0 {
            return Ok(());
        }
        for &x in ABC {
            if let Some((nst, nders)) = self.step(s, st, ders, x)? {
                s.push(x);
                let r = self.dfs(s, nst, &nders, depth - 1);
                s.pop();
                r?;
            }
        }
        Ok(())
    }
}

/// compare one compiled automaton with the reference expressions `ders` (one per tagged
/// alternative, the whole expression last)
fn walk(case: &Case, dfa: &DFA<usize>, ders: Vec<Re>) -> Outcome {
        let mut alphabet = BTreeSet::new();
        case.alts.iter().for_each(|r| r.alphabet(&mut alphabet));
        if let Some(ctx) = &case.context {
            ctx.prefix.iter().chain(ctx.suffix.iter()).for_each(|r| r.alphabet(&mut alphabet));
        }
        alphabet.extend(ABC.iter().copied());
        let mut w = Walker {
            case,
            dfa,
            alphabet: alphabet.into_iter().collect(),
            visited: 0,
            accepted: 0,
            dead: 0,
        };
        let start = dfa.start();
        w.check_node(&[], start, &ders)?;
        w.dfs(&mut Vec::new(), start, &ders, case.depth)?;
        for extra in &case.extra {
            let mut st = start;
            let mut d = ders.clone();
            let mut s = Vec::new();
            for &x in extra {
                match w.step(&mut s, st, &d, x)? {
                    None => break,
                    Some((nst, nd)) => {
                        s.push(x);
                        st = nst;
                        d = nd;
                    }
                }
            }
        }
        let nontrivial = case.alts.iter().any(Re::has_postfix_on_composite);
        Ok(Pass::new(nontrivial)
            .label(if case.tagged { "tagged-choice" } else { "single-expression" })
            .label_if(case.nested_from.is_some() && case.tagged, "nested-choice")
            .label_if(case.context.is_some(), "tagged-choice-inside-a-sequence")
            .label_if(case.context.as_ref().is_some_and(|c| c.looped), "tagged-choice-inside-a-loop")
            .label_if(w.accepted > 0, "accepts-something")
            .label_if(w.dead > 0, "has-dead-transition")
            .label_if(nontrivial, "postfix-on-composite"))
}

impl Property for C15 {
    type Case = Case;

    fn fuzz(&self) -> Option<FuzzSpec> {
        // entropy-driven target: libFuzzer's bytes replace the generator's random numbers
        Some(FuzzSpec { target: "gen", jobs: 8, runs: 30_000, max_len: 4096, seeds: 64 })
    }

    fn id(&self) -> &'static str {
        "C15"
    }

    fn strategy(&self, tier: Tier) -> BoxedStrategy<Case> {
        let depth = tier.pick(5usize, 6usize);
        let re = || re_strategy(WIDE, 4, true);
        let extra = proptest::collection::vec(
            proptest::collection::vec(
                prop_oneof![6 => proptest::sample::select(ABC.to_vec()), 1 => proptest::sample::select(WIDE.to_vec())],
                0..20,
            ),
            0..6,
        );
        let single = (re(), any::<bool>(), extra.clone(), proptest::option::weighted(0.25, 0u8..8)).prop_map(move |(r, variant, extra, recompiled)| Case {
            alts: vec![r],
            tagged: false,
            nested_from: None,
            variant,
            extra,
            depth: if recompiled.is_some() { depth.min(5) } else { depth },
            context: None,
            recompiled,
            lone_choice: false,
        });
        let context = proptest::option::weighted(
            0.4,
            (
                proptest::option::of(re_strategy(WIDE, 2, false)),
                proptest::option::of(re_strategy(WIDE, 2, false)),
                any::<bool>(),
            )
                .prop_map(|(prefix, suffix, looped)| Context { prefix, suffix, looped, post: None }),
        );
        // one alternative only: used as it is or wrapped in a one-element choice, tagged or
        // not, followed/preceded by siblings and optionally under `*` / `?` / `+`
        let solo = (
            re_strategy(WIDE, 3, true),
            any::<bool>(),
            any::<bool>(),
            any::<bool>(),
            proptest::option::of(re_strategy(WIDE, 2, false)),
            proptest::option::of(re_strategy(WIDE, 2, false)),
            prop_oneof![Just((None, false)), Just((None, true)), Just((Some(0u8), false)), Just((Some(1u8), false))],
            extra.clone(),
        )
            .prop_map(move |(r, tagged, lone_choice, variant, prefix, suffix, (post, looped), extra)| Case {
                alts: vec![r],
                tagged,
                nested_from: None,
                variant,
                extra,
                depth: depth.min(5),
                context: Some(Context { prefix, suffix, looped, post }),
                recompiled: None,
                lone_choice,
            });
        let tagged = (
            proptest::collection::vec(re_strategy(WIDE, 3, true), 2..=5),
            proptest::option::of(0usize..4),
            any::<bool>(),
            any::<bool>(),
            extra,
            context,
        )
            .prop_map(move |(mut alts, nested, dup, variant, extra, context)| {
                if dup {
                    // equal alternatives / overlapping languages
                    let first = alts[0].clone();
                    alts.push(first);
                }
                let nested_from = nested.map(|k| k.min(alts.len() - 1));
                Case {
                    alts,
                    tagged: true,
                    nested_from,
                    variant,
                    extra,
                    depth: depth.min(5),
                    context,
                    recompiled: None,
                    lone_choice: false,
                }
            });
        prop_oneof![6 => single, 4 => tagged, 1 => solo].boxed()
    }

    fn check(&self, case: &Case) -> Outcome {
        if let Some(how) = case.recompiled {
            // first compilation: judged as the plain case
            let plain = Case { recompiled: None, ..case.clone() };
            let nfa = guard_val(|| build(&plain))?;
            let dfa = guard_val(|| nfa.compile())?;
            walk(&plain, &dfa, reference(&plain))?;
            // extension of the already compiled value (or of a clone of it), second compilation
            let nfa = if how & 4 != 0 { nfa.clone() } else { nfa };
            let (nfa, post): (NFA<usize>, fn(Box<Re>) -> Re) = match how & 3 {
                0 => (guard_val(|| nfa.some())?, Re::Plus),
                1 => (guard_val(|| nfa.many())?, Re::Star),
                _ => (guard_val(|| nfa.optional())?, Re::Opt),
            };
            let dfa = guard_val(|| nfa.compile())?;
            // reference: the postfix operator around the whole expression; tags are not judged
            // here (they sit inside a loop now), so only the language entry is kept
            let whole = reference(&plain).pop().expect("whole expression");
            let untagged = Case { tagged: false, ..plain.clone() };
            let w = walk(&untagged, &dfa, vec![post(Box::new(whole))])?;
            return Ok(w.label("compiled-extended-compiled-again"));
        }
        let nfa = guard_val(|| build(case))?;
        let dfa = guard_val(|| nfa.compile())?;
        walk(case, &dfa, reference(case))
    }

    fn cases(&self, tier: Tier) -> u32 {
        tier.pick(20_000, 400_000)
    }

    fn rule(&self) -> String {
        "expressions: recursive AST (depth<=4, <=24 nodes) over bytes {a,b,c,ESC,0xff,'0'} with literal, byte-set (incl. empty), empty, nothing, sequence, choice, optional, one-or-more, zero-or-more, extra weight on ?/+ around operands beginning/ending with a loop; 40% as a tagged choice of 2-6 alternatives (flat or with a nested group, duplicates allowed), in 40% of those placed inside a sequence `prefix (choice) suffix` or `prefix (choice)+ suffix` so that an alternative completes before the whole expression accepts. One case in eleven has a single alternative (tagged on its own stop state or not, used directly or wrapped in a one-element choice) between an optional prefix and suffix and optionally under * / ? / +. One single expression in four is compiled, then extended with some()/many()/optional() (the compiled value itself or a clone of it) and compiled again, both automata being judged. Built via the public NFA API (two spellings), compiled, and compared with a Brzozowski-derivative matcher on ALL strings over {a,b,c} up to length 5 (thorough 6) plus up to 6 random strings of length <20: acceptance, dead-transition soundness, tag sets, terminal flag, determinism. non-trivial = some postfix operator is applied to a non-atomic operand".into()
    }

    fn assumptions(&self) -> Vec<String> {
        vec![
            "a dead transition must imply that no extension can match; a live state that cannot reach acceptance is allowed (it is never reported accepting)".into(),
            "tag oracle: tags are placed on the alternatives of one (possibly nested) choice, top-level or inside `prefix (choice)[+] suffix`; after consuming s the reported tags must be exactly { i : s is in L(prefix (choice)* alternative_i) }, i.e. the input ends exactly where alternative i ends -- whether or not the state is accepting".into(),
        ]
    }
}
