#![allow(dead_code)]
//! snt-check: property-based checks for surf-n-term (see /verif/DESIGN.md)
#[macro_use]
mod engine;
mod c01;
mod c02;
mod c03;
mod c04;
mod c05;
mod c06;
mod c07;
mod c08;
mod c09;
mod c10;
mod c11;
mod c12;
mod c13;
mod c14;
mod c15;
mod c16;
mod c17;
mod c18;
mod c19;
mod c20;
mod hostile;
mod mockterm;
mod pty;
mod refre;
mod refsgr;
mod refvt;
mod ttyout;

use engine::{Property, Tier};
use std::path::Path;

fn dispatch<P: Property>(prop: P, mode: &Mode) -> i32 {
    match mode {
        Mode::Worker => engine::worker_main(&prop),
        Mode::Replay(path) => engine::replay_one(&prop, Path::new(path)),
        Mode::Run(tier, seed) => engine::run(prop, *tier, *seed).exit,
        Mode::EntropyStats => engine::entropy_stats(&prop),
    }
}

enum Mode {
    Worker,
    Replay(String),
    Run(Tier, u64),
    EntropyStats,
}

fn main() {
    // deterministic environment for the pty sessions (capability detection reads these)
    // SAFETY: single-threaded at this point
    unsafe {
        std::env::set_var("TERM", "xterm");
        std::env::remove_var("COLORTERM");
        std::env::remove_var("SURFNTERM");
    }
    engine::install_panic_hook();
    let args: Vec<String> = std::env::args().skip(1).collect();
    let mut id = String::new();
    let mut tier = match std::env::var("VERIF_TIER").as_deref() {
        Ok("thorough") => Tier::Thorough,
        _ => Tier::Quick,
    };
    let mut worker = false;
    let mut stats = false;
    let mut replay = None;
    let mut it = args.iter();
    while let Some(a) = it.next() {
        match a.as_str() {
            "--worker" => worker = true,
            "--entropy-stats" => stats = true,
            "--replay" => replay = it.next().cloned(),
            "quick" => tier = Tier::Quick,
            "thorough" => tier = Tier::Thorough,
            other if id.is_empty() => id = other.to_string(),
            other => {
                eprintln!("unexpected argument {other}");
                std::process::exit(2);
            }
        }
    }
    let seed: u64 = std::env::var("VERIF_SEED")
        .ok()
        .and_then(|s| s.trim().parse::<i64>().ok())
        .map(|v| v as u64)
        .unwrap_or(0);
    let mode = if stats {
        Mode::EntropyStats
    } else if worker {
        Mode::Worker
    } else if let Some(p) = replay {
        Mode::Replay(p)
    } else {
        Mode::Run(tier, seed)
    };
    // watchdog: a hang is inconclusive, never a violation
    if !worker {
        let limit = match tier {
            Tier::Quick => 20 * 60,
            Tier::Thorough => 3 * 60 * 60,
        };
        std::thread::spawn(move || {
            std::thread::sleep(std::time::Duration::from_secs(limit));
            eprintln!("INCONCLUSIVE: watchdog expired after {limit}s");
            std::process::exit(2);
        });
    }
    let code = match id.as_str() {
        "C01" => dispatch(c01::C01, &mode),
        "C02" => dispatch(c02::C02, &mode),
        "C03" => dispatch(c03::C03, &mode),
        "C04" => dispatch(c04::C04, &mode),
        "C05" => dispatch(c05::C05, &mode),
        "C06" => dispatch(c06::C06, &mode),
        "C07" => dispatch(c07::C07, &mode),
        "C08" => dispatch(c08::C08, &mode),
        "C09" => dispatch(c09::C09, &mode),
        "C10" => dispatch(c10::C10, &mode),
        "C11" => dispatch(c11::C11, &mode),
        "C12" => dispatch(c12::C12, &mode),
        "C13" => dispatch(c13::C13, &mode),
        "C14" => dispatch(c14::C14, &mode),
        "C15" => dispatch(c15::C15, &mode),
        "C16" => dispatch(c16::C16, &mode),
        "C17" => dispatch(c17::C17, &mode),
        "C18" => dispatch(c18::C18, &mode),
        "C19" => dispatch(c19::C19, &mode),
        "C20" => dispatch(c20::C20, &mode),
        _ => {
            eprintln!("unknown property id {id:?}");
            2
        }
    };
    std::process::exit(code);
}
