//! Reference ECMA-48 / xterm control-sequence parser and interpreter (`RefVt`, DESIGN §2.2).
//! Byte-level state machine: C0, `ESC x`, CSI, OSC (BEL|ST), DCS, APC; then an interpreter to
//! abstract operations with the standard rule that a missing or 0 count means 1 for cursor
//! movement / erase-character / scroll functions.

use crate::refsgr::{self, SgrParam};

#[derive(Clone, Debug, PartialEq, Eq)]
pub enum Seq {
    Print(char),
    C0(u8),
    Esc { inter: Vec<u8>, fin: u8 },
    Csi { params: Vec<u8>, inter: Vec<u8>, fin: u8 },
    Osc(Vec<u8>),
    Dcs(Vec<u8>),
    Apc(Vec<u8>),
}

/// Parse a complete byte stream.  Err = the stream ends inside a sequence or contains a
/// malformed one (a command stream must consist of complete, self-contained sequences).
pub fn parse(bytes: &[u8]) -> Result<Vec<Seq>, String> {
    let mut out = Vec::new();
    let mut i = 0;
    let n = bytes.len();
    while i < n {
        let b = bytes[i];
        if b == 0x1b {
            i += 1;
            let Some(&k) = bytes.get(i) else {
                return Err("stream ends after ESC".into());
            };
            match k {
                b'[' => {
                    i += 1;
                    let start = i;
                    while i < n && (0x30..=0x3f).contains(&bytes[i]) {
                        i += 1;
                    }
                    let params = bytes[start..i].to_vec();
                    let istart = i;
                    while i < n && (0x20..=0x2f).contains(&bytes[i]) {
                        i += 1;
                    }
                    let inter = bytes[istart..i].to_vec();
                    let Some(&fin) = bytes.get(i) else {
                        return Err("unterminated CSI".into());
                    };
                    if !(0x40..=0x7e).contains(&fin) {
                        return Err(format!("bad CSI final byte {fin:#x}"));
                    }
                    i += 1;
                    out.push(Seq::Csi { params, inter, fin });
                }
                b']' | b'P' | b'_' => {
                    i += 1;
                    let start = i;
                    loop {
                        match bytes.get(i) {
                            None => return Err("unterminated string sequence".into()),
                            Some(0x07) if k == b']' => {
                                let body = bytes[start..i].to_vec();
                                i += 1;
                                out.push(Seq::Osc(body));
                                break;
                            }
                            Some(0x1b) => {
                                if bytes.get(i + 1) == Some(&b'\\') {
                                    let body = bytes[start..i].to_vec();
                                    i += 2;
                                    out.push(match k {
                                        b']' => Seq::Osc(body),
                                        b'P' => Seq::Dcs(body),
                                        _ => Seq::Apc(body),
                                    });
                                    break;
                                }
                                return Err("ESC inside a string sequence".into());
                            }
                            Some(_) => i += 1,
                        }
                    }
                }
                _ => {
                    let istart = i;
                    while i < n && (0x20..=0x2f).contains(&bytes[i]) {
                        i += 1;
                    }
                    let inter = bytes[istart..i].to_vec();
                    let Some(&fin) = bytes.get(i) else {
                        return Err("unterminated ESC sequence".into());
                    };
                    if !(0x30..=0x7e).contains(&fin) {
                        return Err(format!("bad ESC final byte {fin:#x}"));
                    }
                    i += 1;
                    out.push(Seq::Esc { inter, fin });
                }
            }
        } else if b < 0x20 || b == 0x7f {
            out.push(Seq::C0(b));
            i += 1;
        } else {
            // UTF-8 text
            let len = match b {
                0x00..=0x7f => 1,
                0xc0..=0xdf => 2,
                0xe0..=0xef => 3,
                0xf0..=0xf7 => 4,
                _ => return Err(format!("stray byte {b:#x}")),
            };
            let Some(chunk) = bytes.get(i..i + len) else {
                return Err("truncated UTF-8".into());
            };
            let s = std::str::from_utf8(chunk).map_err(|e| format!("invalid UTF-8: {e}"))?;
            out.push(Seq::Print(s.chars().next().unwrap()));
            i += len;
        }
    }
    Ok(out)
}

/// Abstract operation of a VT/xterm interpreter
#[derive(Clone, Debug, PartialEq, Eq)]
pub enum Op {
    Print(char),
    C0(u8),
    /// CUP, 1-based
    Cup(u64, u64),
    Cuu(u64),
    Cud(u64),
    Cuf(u64),
    Cub(u64),
    /// DSR 6 (cursor position request)
    Dsr6,
    SaveCursor,
    RestoreCursor,
    /// EL Ps
    El(u64),
    /// ED Ps
    Ed(u64),
    /// ECH: erases n >= 1 cells
    Ech(u64),
    /// SU / SD
    Su(u64),
    Sd(u64),
    /// DECSTBM: None = reset to full screen
    Decstbm(Option<(u64, u64)>),
    DecSet(u64, bool),
    Decrqm(u64),
    Sgr(Vec<SgrParam>),
    /// SGR with parameters outside the standard spellings known to refsgr
    SgrUnknown(String),
    Ris,
    /// DECRQSS with descriptor
    Decrqss(Vec<u8>),
    /// XTGETTCAP with hex-decoded names
    Xtgettcap(Vec<Vec<u8>>),
    /// OSC colour: slot "10", "11" or "4;idx"; value "?" = query
    OscColor { slot: String, value: String },
    OscTitle(String),
    Da1,
    /// kitty keyboard: CSI = flags ; mode u
    KittyKbdSet(u64, u64),
    Unknown(String),
}

fn nums(params: &[u8]) -> Option<Vec<Option<u64>>> {
    if params.is_empty() {
        return Some(vec![]);
    }
    let s = std::str::from_utf8(params).ok()?;
    s.split(';')
        .map(|p| {
            if p.is_empty() {
                Some(None)
            } else if p.bytes().all(|b| b.is_ascii_digit()) {
                p.parse::<u64>().ok().map(Some)
            } else {
                None
            }
        })
        .collect()
}

fn count(v: &[Option<u64>], i: usize) -> u64 {
    match v.get(i).copied().flatten() {
        None | Some(0) => 1,
        Some(n) => n,
    }
}

fn hex_decode(s: &[u8]) -> Option<Vec<u8>> {
    if s.len() % 2 != 0 {
        return None;
    }
    s.chunks(2)
        .map(|p| {
            let h = (p[0] as char).to_digit(16)?;
            let l = (p[1] as char).to_digit(16)?;
            Some((h * 16 + l) as u8)
        })
        .collect()
}

pub fn interpret(seq: &Seq) -> Op {
    let unknown = || Op::Unknown(format!("{seq:?}"));
    match seq {
        Seq::Print(c) => Op::Print(*c),
        Seq::C0(b) => Op::C0(*b),
        Seq::Esc { inter, fin } if inter.is_empty() => match fin {
            b'7' => Op::SaveCursor,
            b'8' => Op::RestoreCursor,
            b'c' => Op::Ris,
            _ => unknown(),
        },
        Seq::Esc { .. } => unknown(),
        Seq::Csi { params, inter, fin } => {
            let (private, body) = match params.first() {
                Some(b @ (b'?' | b'<' | b'=' | b'>')) => (Some(*b), &params[1..]),
                _ => (None, &params[..]),
            };
            if *fin == b'm' && private.is_none() && inter.is_empty() {
                let s = String::from_utf8_lossy(body).to_string();
                return match refsgr::parse_params(&s) {
                    Some(p) => Op::Sgr(p),
                    None => Op::SgrUnknown(s),
                };
            }
            let Some(v) = nums(body) else { return unknown() };
            match (private, inter.as_slice(), *fin) {
                (None, [], b'H') if v.len() <= 2 => Op::Cup(count(&v, 0), count(&v, 1)),
                (None, [], b'A') if v.len() <= 1 => Op::Cuu(count(&v, 0)),
                (None, [], b'B') if v.len() <= 1 => Op::Cud(count(&v, 0)),
                (None, [], b'C') if v.len() <= 1 => Op::Cuf(count(&v, 0)),
                (None, [], b'D') if v.len() <= 1 => Op::Cub(count(&v, 0)),
                (None, [], b'n') if v == [Some(6)] => Op::Dsr6,
                (None, [], b'K') if v.len() <= 1 => Op::El(v.first().copied().flatten().unwrap_or(0)),
                (None, [], b'J') if v.len() <= 1 => Op::Ed(v.first().copied().flatten().unwrap_or(0)),
                (None, [], b'X') if v.len() <= 1 => Op::Ech(count(&v, 0)),
                (None, [], b'S') if v.len() <= 1 => Op::Su(count(&v, 0)),
                (None, [], b'T') if v.len() <= 1 => Op::Sd(count(&v, 0)),
                (None, [], b'r') if v.is_empty() => Op::Decstbm(None),
                (None, [], b'r') if v.len() == 2 => match (v[0], v[1]) {
                    (Some(t), Some(b)) => Op::Decstbm(Some((t, b))),
                    _ => unknown(),
                },
                (None, [], b'c') if v.is_empty() || v == [Some(0)] => Op::Da1,
                (Some(b'?'), [], b'h') if v.len() == 1 => v[0].map(|m| Op::DecSet(m, true)).unwrap_or_else(unknown),
                (Some(b'?'), [], b'l') if v.len() == 1 => v[0].map(|m| Op::DecSet(m, false)).unwrap_or_else(unknown),
                (Some(b'?'), [b'$'], b'p') if v.len() == 1 => v[0].map(Op::Decrqm).unwrap_or_else(unknown),
                (Some(b'='), [], b'u') if (1..=2).contains(&v.len()) => Op::KittyKbdSet(
                    v[0].unwrap_or(0),
                    v.get(1).copied().flatten().unwrap_or(1),
                ),
                _ => unknown(),
            }
        }
        Seq::Osc(body) => {
            let s = String::from_utf8_lossy(body).to_string();
            let mut it = s.splitn(2, ';');
            let (Some(code), Some(rest)) = (it.next(), it.next()) else { return unknown() };
            match code {
                "0" | "2" => Op::OscTitle(rest.to_string()),
                "10" | "11" => Op::OscColor { slot: code.to_string(), value: rest.to_string() },
                "4" => {
                    let mut it = rest.splitn(2, ';');
                    match (it.next(), it.next()) {
                        (Some(idx), Some(value)) if !idx.is_empty() && idx.len() < 18 && idx.bytes().all(|b| b.is_ascii_digit()) => Op::OscColor {
                            slot: format!("4;{}", idx.parse::<u64>().unwrap_or(0)),
                            value: value.to_string(),
                        },
                        _ => unknown(),
                    }
                }
                _ => unknown(),
            }
        }
        Seq::Dcs(body) => {
            if let Some(d) = body.strip_prefix(b"$q") {
                Op::Decrqss(d.to_vec())
            } else if let Some(names) = body.strip_prefix(b"+q") {
                let decoded: Option<Vec<Vec<u8>>> = if names.is_empty() {
                    Some(vec![])
                } else {
                    names.split(|b| *b == b';').map(hex_decode).collect()
                };
                match decoded {
                    Some(v) => Op::Xtgettcap(v),
                    None => unknown(),
                }
            } else {
                unknown()
            }
        }
        Seq::Apc(_) => unknown(),
    }
}
