//! C16 — terminal output is delivered in order, exactly once, and frames are never torn.
//!
//! (a) Queue model: generated interleavings of write / flush / read / fill_buf+consume /
//!     consume_with / clear_but_last on `IOQueue`, compared after every step with a
//!     deque-of-chunks model whose length is recomputed from its content.  Rare runs of many
//!     writes without flush take one flush-delimited chunk to any size up to 2.5 MiB (and
//!     beyond, when runs follow each other), so that reads, consumes and drops meet chunks far
//!     larger than anything a single small write produces.
//! (b) Terminal on a pseudo-terminal: generated sessions of write / execute / flush / poll /
//!     frames_drop with payloads far beyond the pty buffer, a peer that drains at a generated
//!     rate, and injected short writes / EAGAIN / EINTR (verif hook in `Tty::write`).  Every
//!     flush-delimited chunk carries a unique header, so the bytes received on the master side
//!     can be checked for order, exactly-once delivery and untorn chunks.  Sessions may raise
//!     SIGWINCH between any two operations, and half of them run on a pty whose ioctl reports
//!     no pixel size while the peer answers `CSI 18 t CSI 14 t`: the terminal object then takes
//!     its size from escape sequences and answers the signal by queueing a size request of its
//!     own behind the application's output.  One session in ~35 assembles a unit beyond 1 MiB
//!     from many writes and drops frames while it is pending or in flight.

use crate::engine::*;
use crate::pty::{Peer, Pty};
use proptest::prelude::*;
use serde::{Deserialize, Serialize};
use std::collections::VecDeque;
use std::io::{BufRead, Read, Write};
use std::time::{Duration, Instant};
use surf_n_term::common::IOQueue;
use surf_n_term::encoder::{Encoder, TTYEncoder};
use surf_n_term::unix_verif_hooks::{self, WriteFault};
use surf_n_term::{Position, SystemTerminal, Terminal, TerminalCommand};

pub struct C16;

#[derive(Clone, Debug, Serialize, Deserialize)]
pub enum QOp {
    Write(Vec<u8>),
    Flush,
    Read(usize),
    /// BufRead::fill_buf then consume(k) with k = frac of the slice length
    FillConsume(u16),
    /// consume_with returning k = frac of the slice length
    ConsumeWith(u16),
    /// clear_but_last (frames_drop)
    Drop,
    /// a run of writes without a flush in between: `total` bytes of a pattern derived from
    /// `seed`, handed to `write` in pieces of `piece` bytes (the last one shorter) -- the way a
    /// renderer or an image encoder assembles one frame; all of it belongs to the chunk being
    /// written
    WriteRun { total: usize, piece: usize, seed: u8 },
}

/// byte `i` of the pattern of a write run
fn run_byte(seed: u8, i: usize) -> u8 {
    (i.wrapping_mul(131) ^ (i >> 9) ^ (i >> 17)).wrapping_add(seed as usize) as u8
}

/// short rendering of a possibly very long byte slice for failure messages
fn show(b: &[u8]) -> String {
    if b.len() <= 64 {
        format!("{b:?}")
    } else {
        format!("[{} bytes: {:?} .. {:?}]", b.len(), &b[..16], &b[b.len() - 16..])
    }
}

const MIB: usize = 1 << 20;

#[derive(Clone, Copy, Debug, Serialize, Deserialize)]
pub enum Fault {
    None,
    Short(u16),
    WouldBlock,
    Interrupted,
}

#[derive(Clone, Debug, Serialize, Deserialize)]
pub enum TOp {
    /// write a record of this many body bytes
    Write(usize),
    /// execute command number k of a fixed table
    Execute(u8),
    Flush,
    /// poll with a timeout in milliseconds (0 or 5)
    Poll(u8),
    PollUntilDrained,
    FramesDrop,
    /// raise(SIGWINCH) in this process: the terminal object learns of it in its next poll
    Winch,
    /// a record body of `total` bytes handed to the terminal object in pieces of `piece` bytes
    /// without a flush in between (one flush-delimited unit assembled from many writes)
    WriteRun { total: usize, piece: usize },
}

#[derive(Clone, Debug, Serialize, Deserialize)]
pub enum Case {
    Queue { ops: Vec<QOp> },
    Pty {
        ops: Vec<TOp>,
        /// bytes per read of the peer (0 = unlimited) and pause in microseconds
        bite: usize,
        pause_us: usize,
        /// cyclic fault pattern for writes to the tty
        faults: Vec<Fault>,
        /// the pty's ioctl reports no pixel size and the peer answers the size request
        /// (`CSI 18 t CSI 14 t`): the terminal object takes its size from escape sequences and
        /// reacts to SIGWINCH by writing that request into its own output queue
        #[serde(default)]
        size_by_escape: bool,
    },
    /// `Terminal::run_render` on a pseudo-terminal whose other end does not drain: the render
    /// loop falls behind and applies its frame dropping policy
    Render {
        rows: u16,
        cols: u16,
        /// number of frames the handler renders before it quits
        total: u8,
        /// the peer starts draining when this many frames have been rendered
        release_at: u8,
        /// bytes queued (one chunk) before the loop starts, so that the tty is full from the start
        filler: usize,
        faults: Vec<Fault>,
    },
}

// ---- (a) queue model ---------------------------------------------------------------------

#[derive(Default)]
struct QModel {
    chunks: VecDeque<Vec<u8>>,
    offset: usize,
}

impl QModel {
    fn front_slice(&self) -> &[u8] {
        match self.chunks.front() {
            Some(c) => &c[self.offset..],
            None => &[],
        }
    }
    fn readable(&self) -> usize {
        self.chunks.iter().map(|c| c.len()).sum::<usize>() - self.offset
    }
    fn consume(&mut self, amt: usize) {
        let len = self.chunks.front().map(|c| c.len()).unwrap_or(0);
        if len > self.offset + amt {
            self.offset += amt;
        } else {
            self.chunks.pop_front();
            self.offset = 0;
        }
    }
}

fn check_queue(ops: &[QOp]) -> Outcome {
    let mut q = IOQueue::new();
    let mut m = QModel::default();
    let mut delivered_impl: Vec<u8> = Vec::new();
    let mut delivered_model: Vec<u8> = Vec::new();
    let mut dropped_after_delete = false;
    let mut drops = 0;
    // classes of the long-chunk histories (labels)
    let mut runs = 0usize;
    let mut max_chunk = 0usize;
    let mut drop_front_big = false; // a drop while the front chunk holds more than 1 MiB
    let mut drop_front_big_started = false; // ... and part of it had been read already
    let mut read_from_big = false;
    let ioerr = |e: std::io::Error| Fail::new("queue/io-error", format!("{e:?}"));
    for (step, op) in ops.iter().enumerate() {
        match op {
            QOp::Write(bytes) => {
                let n = q.write(bytes).map_err(ioerr)?;
                ensure!(n == bytes.len(), "queue/short-write", "write returned {n} of {}", bytes.len());
                if m.chunks.is_empty() {
                    m.chunks.push_back(Vec::new());
                }
                m.chunks.back_mut().unwrap().extend_from_slice(bytes);
                // a write never ends a chunk: only flush does
                ensure!(
                    q.chunks_count() == m.chunks.len(),
                    "queue/chunk-boundary-without-flush",
                    "step {step}: after a write of {} bytes the queue holds {} chunks where the history has {} flush-delimited units (the one being written has {} bytes): a chunk was ended although nothing was flushed, so a drop would discard part of a flush-delimited chunk",
                    bytes.len(),
                    q.chunks_count(),
                    m.chunks.len(),
                    m.chunks.back().map(|c| c.len()).unwrap_or(0)
                );
            }
            QOp::WriteRun { total, piece, seed } => {
                runs += 1;
                let piece = (*piece).max(1);
                let data: Vec<u8> = (0..*total).map(|i| run_byte(*seed, i)).collect();
                if m.chunks.is_empty() && !data.is_empty() {
                    m.chunks.push_back(Vec::new());
                }
                let chunks_model = m.chunks.len();
                let mut readable = m.readable();
                for part in data.chunks(piece) {
                    let n = q.write(part).map_err(ioerr)?;
                    ensure!(n == part.len(), "queue/short-write", "write returned {n} of {}", part.len());
                    readable += part.len();
                    // cheap invariants after every single write of the run (the full ones
                    // follow after the run)
                    ensure!(
                        q.len() == readable,
                        "queue/len-differs-from-readable-bytes",
                        "step {step} ({} of {total} bytes of a run written in pieces of {piece}): len() = {} but {readable} bytes can still be read",
                        readable - m.readable(),
                        q.len()
                    );
                    ensure!(
                        q.chunks_count() == chunks_model,
                        "queue/chunk-boundary-without-flush",
                        "step {step}: after {} of {total} bytes of a run of writes (pieces of {piece} bytes, no flush in between) the queue holds {} chunks where the history has {chunks_model} flush-delimited units: the unit being written (now {} bytes) was split although nothing was flushed, so a drop would discard part of a flush-delimited chunk",
                        readable - m.readable(),
                        q.chunks_count(),
                        m.chunks.back().map(|c| c.len()).unwrap_or(0) + readable - m.readable()
                    );
                }
                if let Some(back) = m.chunks.back_mut() {
                    back.extend_from_slice(&data);
                }
            }
            QOp::Flush => {
                q.flush().map_err(ioerr)?;
                if !m.front_slice().is_empty() {
                    m.chunks.push_back(Vec::new());
                }
            }
            QOp::Read(n) => {
                let mut buf = vec![0u8; *n];
                let got = q.read(&mut buf).map_err(ioerr)?;
                let want = &m.front_slice()[..(*n).min(m.front_slice().len())];
                ensure!(
                    buf[..got] == want[..],
                    "queue/read-bytes",
                    "step {step}: read({n}) returned {}, model {}",
                    show(&buf[..got]),
                    show(want)
                );
                delivered_impl.extend_from_slice(&buf[..got]);
                delivered_model.extend_from_slice(want);
                let k = want.len();
                read_from_big |= k > 0 && m.chunks.front().map(|c| c.len() > MIB).unwrap_or(false);
                m.consume(k);
            }
            QOp::FillConsume(frac) => {
                let slice = q.fill_buf().map_err(ioerr)?;
                ensure!(slice == m.front_slice(), "queue/fill_buf", "step {step}: fill_buf {}, model {}", show(slice), show(m.front_slice()));
                let k = (*frac as usize * (slice.len() + 1)) >> 16;
                delivered_impl.extend_from_slice(&slice[..k]);
                delivered_model.extend_from_slice(&m.front_slice()[..k]);
                BufRead::consume(&mut q, k);
                read_from_big |= k > 0 && m.chunks.front().map(|c| c.len() > MIB).unwrap_or(false);
                m.consume(k);
            }
            QOp::ConsumeWith(frac) => {
                let mut seen_ok = true;
                let mut seen_len = 0usize;
                let r: Result<usize, std::io::Error> = q.consume_with(|slice| {
                    seen_ok = slice == m.front_slice();
                    seen_len = slice.len();
                    let k = (*frac as usize * (slice.len() + 1)) >> 16;
                    delivered_impl.extend_from_slice(&slice[..k]);
                    Ok(k)
                });
                let k = r.map_err(ioerr)?;
                ensure!(
                    seen_ok,
                    "queue/consume_with-slice",
                    "step {step}: consumer saw a slice of {seen_len} bytes that differs from the model's {}",
                    show(m.front_slice())
                );
                delivered_model.extend_from_slice(&m.front_slice()[..k]);
                read_from_big |= k > 0 && m.chunks.front().map(|c| c.len() > MIB).unwrap_or(false);
                m.consume(k);
            }
            QOp::Drop => {
                if m.chunks.len() > 1 && m.chunks.iter().skip(1).any(|c| !c.is_empty()) {
                    dropped_after_delete = true;
                }
                if m.chunks.front().map(|c| c.len() > MIB).unwrap_or(false) {
                    drop_front_big = true;
                    drop_front_big_started |= m.offset > 0;
                }
                q.clear_but_last();
                m.chunks.truncate(1);
                drops += 1;
                // the front chunk is never discarded, whole or in part: it is the one whose
                // transmission may have started ("only whole flush-delimited chunks that have
                // not started transmission")
                ensure!(
                    q.len() >= m.readable(),
                    "queue/drop-tore-front-chunk",
                    "step {step}: after clear_but_last only {} bytes are readable, but {} bytes of the flush-delimited chunk at the front ({} bytes, {} of them read before the drop) were still to be read: the drop discarded part of a chunk",
                    q.len(),
                    m.readable(),
                    m.chunks.front().map(|c| c.len()).unwrap_or(0),
                    m.offset
                );
            }
        }
        max_chunk = max_chunk.max(m.chunks.iter().map(|c| c.len()).max().unwrap_or(0));
        // invariants after every operation
        ensure!(
            q.len() == m.readable(),
            "queue/len-differs-from-readable-bytes",
            "step {step} ({}): len() = {} but {} bytes can still be read",
            show_op(op),
            q.len(),
            m.readable()
        );
        ensure!(
            q.as_slice() == m.front_slice(),
            "queue/as_slice",
            "step {step} ({}): as_slice {}, model {}",
            show_op(op),
            show(q.as_slice()),
            show(m.front_slice())
        );
        ensure!(
            q.is_empty() == m.chunks.is_empty() && q.chunks_count() == m.chunks.len(),
            "queue/chunk-structure",
            "step {step} ({}): is_empty {} chunks_count {}, model {} chunks",
            show_op(op),
            q.is_empty(),
            q.chunks_count(),
            m.chunks.len()
        );
    }
    // drain: everything still in the queue comes out in order, exactly once
    let mut guard_steps = 0;
    while !q.is_empty() {
        guard_steps += 1;
        ensure!(guard_steps < 1_000_000, "queue/drain-does-not-terminate", "queue never becomes empty");
        // (small reads as ever while little is left, whole slices of what a long chunk holds)
        let mut buf = [0u8; 17];
        if q.as_slice().len() > 4096 {
            let slice = q.fill_buf().map_err(ioerr)?;
            let k = slice.len() - 1000;
            delivered_impl.extend_from_slice(&slice[..k]);
            BufRead::consume(&mut q, k);
            continue;
        }
        let got = q.read(&mut buf).map_err(ioerr)?;
        delivered_impl.extend_from_slice(&buf[..got]);
    }
    while !m.chunks.is_empty() {
        let k = m.front_slice().len();
        delivered_model.extend_from_slice(m.front_slice());
        m.consume(k);
    }
    ensure!(
        delivered_impl == delivered_model,
        "queue/delivered-bytes",
        "bytes read from the queue over the whole history differ from the model: {} vs {} bytes (first difference at byte {:?})",
        delivered_impl.len(),
        delivered_model.len(),
        delivered_impl.iter().zip(delivered_model.iter()).position(|(a, b)| a != b)
    );
    ensure!(q.len() == 0, "queue/len-differs-from-readable-bytes", "empty queue reports len {}", q.len());
    Ok(Pass::new(ops.len() >= 4 && (drops > 0 || delivered_model.len() > 8))
        .label("queue")
        .label_if(dropped_after_delete, "drop-removed-data")
        .label_if(drops > 0, "has-drop")
        .label_if(runs > 0, "queue:write-run")
        .label_if(max_chunk > 65536, "queue:chunk>64KiB")
        .label_if(max_chunk > MIB, "queue:chunk>1MiB")
        .label_if(max_chunk > 2 * MIB, "queue:chunk>2MiB")
        .label_if(read_from_big, "queue:read-from-chunk>1MiB")
        .label_if(drop_front_big, "queue:drop-with-front-chunk>1MiB")
        .label_if(drop_front_big_started, "queue:drop-with-front-chunk>1MiB-partly-read"))
}

fn show_op(op: &QOp) -> String {
    match op {
        QOp::Write(b) if b.len() > 64 => format!("Write({})", show(b)),
        other => format!("{other:?}"),
    }
}

// ---- (b) terminal on a pty -----------------------------------------------------------------

fn command_table(k: u8) -> TerminalCommand {
    match k % 6 {
        0 => TerminalCommand::CursorTo(Position::new(3, 7)),
        1 => TerminalCommand::Face("fg=#102030,bg=#a0b0c0,bold".parse().unwrap()),
        2 => TerminalCommand::Char('世'),
        3 => TerminalCommand::EraseLine,
        4 => TerminalCommand::CursorMove { row: -2, col: 5 },
        _ => TerminalCommand::Title("t".into()),
    }
}

struct Chunk {
    bytes: Vec<u8>,
    /// offset of the first byte in the stream of everything ever written
    start: usize,
    /// there was a frames_drop after the chunk was created
    droppable: bool,
    header: Vec<u8>,
}

const WATCHDOG: Duration = Duration::from_secs(20);

fn inconclusive(msg: &str) -> ! {
    // in a worker process (isolated check) the verdict travels through the worker protocol:
    // an `inconclusive/…` signature makes the engine stop with exit code 2
    if std::env::args().any(|a| a == "--worker") {
        worker_fail_and_exit(Fail::new("inconclusive/environment", msg.to_string()));
    }
    eprintln!("INCONCLUSIVE: {msg}");
    std::process::exit(2);
}

/// what a terminal object that takes its size from escape sequences writes when it learns of a
/// SIGWINCH (and once during its start-up handshake)
const SIZE_REQUEST: &[u8] = b"\x1b[18t\x1b[14t";
/// size reported by the peer of such a session: rows, columns, pixel height, pixel width
const ESCAPE_SIZE: (u16, u16, u16, u16) = (24, 80, 480, 800);

struct WriteHookGuard;
impl Drop for WriteHookGuard {
    fn drop(&mut self) {
        unix_verif_hooks::set_write_hook(None);
    }
}

fn install_faults(faults: &[Fault]) -> (WriteHookGuard, std::rc::Rc<std::cell::Cell<usize>>) {
    let fault_count = std::rc::Rc::new(std::cell::Cell::new(0usize));
    if !faults.is_empty() {
        let pattern: Vec<Fault> = faults.to_vec();
        let mut idx = 0usize;
        let fc = fault_count.clone();
        unix_verif_hooks::set_write_hook(Some(Box::new(move |len| {
            let f = pattern[idx % pattern.len()];
            idx += 1;
            match f {
                Fault::None => WriteFault::None,
                Fault::Short(n) => {
                    fc.set(fc.get() + 1);
                    WriteFault::Short((n as usize).clamp(1, len.max(1)))
                }
                Fault::WouldBlock => {
                    fc.set(fc.get() + 1);
                    WriteFault::WouldBlock
                }
                Fault::Interrupted => {
                    fc.set(fc.get() + 1);
                    WriteFault::Interrupted
                }
            }
        })));
    }
    (WriteHookGuard, fault_count)
}

const SYNC_BEGIN: &[u8] = b"\x1b[?2026h";
const SYNC_END: &[u8] = b"\x1b[?2026l";

fn find(hay: &[u8], needle: &[u8], from: usize) -> Option<usize> {
    if from > hay.len() {
        return None;
    }
    hay[from..].windows(needle.len()).position(|w| w == needle).map(|i| i + from)
}

/// (c) the render loop with its frame dropping policy
fn check_render(rows: u16, cols: u16, total: u8, release_at: u8, filler: usize, faults: &[Fault]) -> Outcome {
    use surf_n_term::{Cell, Face, Surface, SurfaceMut, TerminalAction};
    let pty = Pty::open().unwrap_or_else(|e| inconclusive(&format!("cannot open pty: {e}")));
    pty.set_winsize(rows, cols);
    let peer = Peer::spawn(&pty);
    let mut term = SystemTerminal::open(&pty.slave_path)
        .map_err(|e| Fail::new("pty/open-error", format!("SystemTerminal::open failed: {e:?}")))?;
    let send0 = term.stats().send;
    if !peer.wait_received(send0, Duration::from_secs(5)) {
        inconclusive("peer did not receive the handshake");
    }
    let (_hook_guard, fault_count) = install_faults(faults);
    // the other end stops draining; one chunk of filler occupies the tty
    peer.state.stalled.store(true, std::sync::atomic::Ordering::SeqCst);
    let filler_bytes: Vec<u8> = (0..filler).map(|i| b'0' + (i % 10) as u8).collect();
    if filler > 0 {
        term.write_all(&filler_bytes).map_err(|e| Fail::new("pty/write-error", format!("{e:?}")))?;
        term.flush().map_err(|e| Fail::new("pty/flush-error", format!("{e:?}")))?;
    }
    let cell_char = |step: u32, r: usize, c: usize| (b'a' + ((r * 7 + c * 3 + step as usize) % 26) as u8) as char;
    let mut step = 0u32;
    let mut max_pending = 0usize;
    let mut size_seen = (0usize, 0usize);
    let mut unmarked_steps: Vec<u32> = Vec::new();
    let st = peer.state.clone();
    let started = Instant::now();
    let result: Result<(), surf_n_term::Error> = term.run_render(|term, _ev, mut view| {
        if started.elapsed() > WATCHDOG {
            inconclusive("render session exceeded the watchdog");
        }
        max_pending = max_pending.max(term.frames_pending());
        if step == release_at as u32 {
            st.stalled.store(false, std::sync::atomic::Ordering::SeqCst);
        }
        step += 1;
        // a marker written by the application itself opens the chunk of this frame -- except
        // in an iteration in which the loop is about to drop frames: what the handler writes
        // directly in such an iteration is in the unflushed trailing chunk, which is not a
        // frame yet and is discarded with the others; the loop assumes handlers draw on the
        // surface only, and so does this harness then
        if term.frames_pending() > 32 {
            unmarked_steps.push(step);
        } else {
            write!(term, "<#{step:06}>").map_err(surf_n_term::Error::from)?;
        }
        size_seen = (view.height(), view.width());
        for r in 0..view.height() {
            for c in 0..view.width() {
                if let Some(cell) = view.get_mut(surf_n_term::Position::new(r, c)) {
                    *cell = Cell::new_char(Face::default(), cell_char(step, r, c));
                }
            }
        }
        if step > total as u32 {
            Ok(TerminalAction::Quit(()))
        } else {
            Ok(TerminalAction::Sleep(Duration::ZERO))
        }
    });
    result.map_err(|e| Fail::new("render/run-error", format!("run_render failed: {e:?}")))?;
    let last_step = step;
    // drain
    peer.free_run();
    let t0 = Instant::now();
    loop {
        term.poll(Some(Duration::from_millis(5)))
            .map_err(|e| Fail::new("pty/poll-error", format!("poll failed: {e:?}")))?;
        if term.frames_pending() == 0 {
            break;
        }
        if t0.elapsed() > WATCHDOG {
            let received = peer.received();
            let data = &received[send0.min(received.len())..];
            ensure!(
                data.len() <= filler || data[..filler] == filler_bytes[..],
                "render/filler-corrupted",
                "the output queue does not drain and the chunk in flight did not arrive intact"
            );
            inconclusive("output queue did not drain at the end of the render session");
        }
    }
    let send_total = term.stats().send;
    if !peer.wait_received(send_total, Duration::from_secs(10)) {
        let got = peer.received_len();
        return Err(Fail::new(
            "pty/sent-counter-exceeds-received",
            format!("stats().send = {send_total} but the other end of the pty received only {got} bytes"),
        ));
    }
    let received = peer.received();
    let data = &received[send0..send_total];
    // the chunk that was in flight when the loop started arrives whole, exactly once, first
    ensure!(
        data.len() >= filler && data[..filler] == filler_bytes[..],
        "render/chunk-in-flight-torn",
        "the {filler} byte chunk that was being transmitted while frames were dropped did not arrive intact at the head of the stream (first difference at byte {:?})",
        (0..filler.min(data.len())).find(|&i| data[i] != filler_bytes[i])
    );
    // frames = synchronized updates: begin and end markers alternate strictly
    let mut p = filler;
    let mut frames: Vec<(usize, usize)> = Vec::new();
    loop {
        let b = find(data, SYNC_BEGIN, p);
        let e = find(data, SYNC_END, p);
        match (b, e) {
            (None, None) => break,
            (Some(b), Some(e)) if b < e => {
                let body = b + SYNC_BEGIN.len();
                // no second begin before the end
                if let Some(b2) = find(data, SYNC_BEGIN, body) {
                    ensure!(
                        b2 > e,
                        "render/frame-torn",
                        "stream offset {b2}: a frame begins inside the frame that began at {b} (its end never arrived): frames delivered so far {}",
                        frames.len()
                    );
                }
                frames.push((body, e));
                p = e + SYNC_END.len();
            }
            (_, Some(e)) => {
                return Err(Fail::new(
                    "render/frame-torn",
                    format!(
                        "stream offset {e}: end of a frame whose beginning never arrived ({} whole frames before it; {} frames rendered, queue depth reached {max_pending}); bytes before it {:?}",
                        frames.len(),
                        last_step,
                        String::from_utf8_lossy(&data[e.saturating_sub(40)..e])
                    ),
                ));
            }
            (Some(b), None) => {
                return Err(Fail::new(
                    "render/frame-torn",
                    format!("stream offset {b}: a frame begins but its end never arrives ({} whole frames before it)", frames.len()),
                ));
            }
        }
    }
    ensure!(
        frames.len() <= last_step as usize,
        "render/frame-duplicated",
        "{} frames delivered but only {last_step} rendered",
        frames.len()
    );
    // chunk = marker written by the handler + the synchronized update of that frame:
    // markers increase strictly, each is followed by exactly its frame, and the frame rendered
    // last (written after any drop) has arrived
    let _ = size_seen;
    let mut last_no = 0u32;
    let mut q = filler;
    let mut unmarked = 0usize;
    let mut last_marked = false;
    for (i, (b, e)) in frames.iter().enumerate() {
        let head = &data[q..*b - SYNC_BEGIN.len()];
        q = *e + SYNC_END.len();
        if head.is_empty() {
            // a frame rendered in an iteration that dropped frames: it is the next step after
            // the frames before it, at the earliest
            unmarked += 1;
            last_marked = false;
            let Some(no) = unmarked_steps.iter().copied().find(|s| *s > last_no) else {
                return Err(Fail::new(
                    "render/frame-torn",
                    format!(
                        "delivered frame #{i} arrives without the marker the application wrote in front of it, after marker {last_no}; markers were omitted only at steps {:?}",
                        unmarked_steps
                    ),
                ));
            };
            last_no = no;
            continue;
        }
        let no = std::str::from_utf8(head)
            .ok()
            .and_then(|t| t.strip_prefix("<#"))
            .and_then(|t| t.strip_suffix('>'))
            .and_then(|t| t.parse::<u32>().ok());
        let Some(no) = no else {
            return Err(Fail::new(
                "render/frame-torn",
                format!(
                    "delivered frame #{i}: the bytes between the previous frame and this one are {:?}, not the marker the application wrote in front of the frame",
                    String::from_utf8_lossy(&head[..head.len().min(60)])
                ),
            ));
        };
        ensure!(
            no > last_no && no <= last_step,
            "render/frame-out-of-order-or-duplicated",
            "delivered frame #{i} carries marker {no} after marker {last_no} ({last_step} frames rendered)"
        );
        last_no = no;
        last_marked = true;
    }
    ensure!(
        q == data.len(),
        "render/frame-torn",
        "{} bytes after the last whole frame: {:?}",
        data.len() - q,
        String::from_utf8_lossy(&data[q..(q + 60).min(data.len())])
    );
    ensure!(
        unmarked <= unmarked_steps.len(),
        "render/frame-torn",
        "{unmarked} frames arrive without marker but only {} were written without one",
        unmarked_steps.len()
    );
    // the frame rendered last was written after any drop: it must have arrived
    let last_unmarked = unmarked_steps.last() == Some(&last_step);
    ensure!(
        !frames.is_empty() && ((last_marked && last_no == last_step) || (last_unmarked && !last_marked)),
        "render/last-frame-lost",
        "the last frame delivered is that of step {last_no} but {last_step} frames were rendered: output written after the last frame drop never arrived"
    );
    drop(term);
    let dropped = max_pending > 32;
    Ok(Pass::new(dropped)
        .label("render")
        .label_if(dropped, "render:frames-dropped")
        .label_if(frames.len() < last_step as usize, "render:fewer-frames-delivered-than-rendered")
        .label_if(fault_count.get() > 0, "injected-write-faults")
        .label_if(filler > 0, "render:chunk-in-flight"))
}

fn check_pty(ops: &[TOp], bite: usize, pause_us: usize, faults: &[Fault], size_by_escape: bool) -> Outcome {
    let pty = Pty::open().unwrap_or_else(|e| inconclusive(&format!("cannot open pty: {e}")));
    let peer = Peer::spawn(&pty);
    if size_by_escape {
        // no pixel size from the ioctl; the peer answers every `CSI 18 t CSI 14 t` it receives
        pty.set_winsize_px(ESCAPE_SIZE.0, ESCAPE_SIZE.1, 0, 0);
        *peer.state.size_reply.lock().unwrap() = Some(ESCAPE_SIZE);
    }
    let mut term = SystemTerminal::open(&pty.slave_path)
        .map_err(|e| Fail::new("pty/open-error", format!("SystemTerminal::open failed: {e:?}")))?;
    if size_by_escape {
        // a window-size signal raised elsewhere in this process during the handshake leaves a
        // size request queued: let it go out, so that our data starts at a boundary
        let t0 = Instant::now();
        while term.frames_pending() > 0 {
            term.poll(Some(Duration::ZERO))
                .map_err(|e| Fail::new("pty/poll-error", format!("poll failed: {e:?}")))?;
            if t0.elapsed() > WATCHDOG {
                inconclusive("output queue did not drain after the handshake");
            }
        }
        let by_escape = term
            .size()
            .map(|s| s.pixels.height == ESCAPE_SIZE.2 as usize && s.pixels.width == ESCAPE_SIZE.3 as usize)
            .unwrap_or(false);
        if !by_escape || peer.state.size_answered.load(std::sync::atomic::Ordering::SeqCst) == 0 {
            inconclusive("the terminal object did not fall back to escape sequences for its size");
        }
    }
    // everything of the handshake has been written; remember where our data starts
    let send0 = term.stats().send;
    if !peer.wait_received(send0, Duration::from_secs(5)) {
        inconclusive("peer did not receive the handshake");
    }
    let caps = term.capabilities().clone();
    // throttle + fault injection from now on
    peer.state.bite.store(bite, std::sync::atomic::Ordering::Relaxed);
    peer.state.pause_us.store(pause_us, std::sync::atomic::Ordering::Relaxed);
    let fault_count = std::rc::Rc::new(std::cell::Cell::new(0usize));
    if !faults.is_empty() {
        let pattern: Vec<Fault> = faults.to_vec();
        let mut idx = 0usize;
        let fc = fault_count.clone();
        unix_verif_hooks::set_write_hook(Some(Box::new(move |len| {
            let f = pattern[idx % pattern.len()];
            idx += 1;
            match f {
                Fault::None => WriteFault::None,
                Fault::Short(n) => {
                    fc.set(fc.get() + 1);
                    WriteFault::Short((n as usize).clamp(1, len.max(1)))
                }
                Fault::WouldBlock => {
                    fc.set(fc.get() + 1);
                    WriteFault::WouldBlock
                }
                Fault::Interrupted => {
                    fc.set(fc.get() + 1);
                    WriteFault::Interrupted
                }
            }
        })));
    }
    struct HookGuard;
    impl Drop for HookGuard {
        fn drop(&mut self) {
            unix_verif_hooks::set_write_hook(None);
        }
    }
    let _hook_guard = HookGuard;

    let mut chunks: Vec<Chunk> = Vec::new();
    let mut open = false; // the last chunk is still open (no flush since its last write)
    let mut written_total = 0usize;
    let mut big = false;
    let mut winches = 0usize;
    let mut winch_with_backlog = false;
    let mut runs = 0usize;
    // a frames_drop while a unit of more than 1 MiB is pending / partly transmitted
    let mut drop_with_long_unit = false;
    let mut drop_with_long_unit_in_flight = false;
    let started = Instant::now();

    let begin_chunk = |chunks: &mut Vec<Chunk>, term: &mut SystemTerminal, written_total: &mut usize| -> Result<(), Fail> {
        let header = format!("<#{:06}|", chunks.len()).into_bytes();
        term.write_all(&header).map_err(|e| Fail::new("pty/write-error", format!("{e:?}")))?;
        chunks.push(Chunk { bytes: header.clone(), start: *written_total, droppable: false, header });
        *written_total += 9;
        Ok(())
    };

    for op in ops {
        if started.elapsed() > WATCHDOG {
            inconclusive("pty session exceeded the watchdog");
        }
        match op {
            TOp::Write(n) => {
                if !open {
                    begin_chunk(&mut chunks, &mut term, &mut written_total)?;
                    open = true;
                }
                let no = chunks.len();
                let body: Vec<u8> = (0..*n).map(|i| 32 + ((i * 31 + no * 7) % 90) as u8).collect();
                term.write_all(&body).map_err(|e| Fail::new("pty/write-error", format!("{e:?}")))?;
                chunks.last_mut().unwrap().bytes.extend_from_slice(&body);
                written_total += body.len();
                if *n > 8192 {
                    big = true;
                }
            }
            TOp::WriteRun { total, piece } => {
                if !open {
                    begin_chunk(&mut chunks, &mut term, &mut written_total)?;
                    open = true;
                }
                let no = chunks.len();
                let body: Vec<u8> = (0..*total).map(|i| 32 + ((i * 29 + (i >> 12) + no * 11) % 90) as u8).collect();
                for part in body.chunks((*piece).max(1)) {
                    term.write_all(part).map_err(|e| Fail::new("pty/write-error", format!("{e:?}")))?;
                }
                chunks.last_mut().unwrap().bytes.extend_from_slice(&body);
                written_total += body.len();
                runs += 1;
                if *total > 8192 {
                    big = true;
                }
            }
            TOp::Execute(k) => {
                if !open {
                    begin_chunk(&mut chunks, &mut term, &mut written_total)?;
                    open = true;
                }
                let cmd = command_table(*k);
                let mut expect = Vec::new();
                TTYEncoder::new(caps.clone())
                    .encode(&mut expect, cmd.clone())
                    .map_err(|e| Fail::new("pty/encode-error", format!("{e:?}")))?;
                term.execute(cmd).map_err(|e| Fail::new("pty/execute-error", format!("{e:?}")))?;
                written_total += expect.len();
                chunks.last_mut().unwrap().bytes.extend_from_slice(&expect);
            }
            TOp::Flush => {
                term.flush().map_err(|e| Fail::new("pty/flush-error", format!("{e:?}")))?;
                open = false;
            }
            TOp::Poll(ms) => {
                // poll flushes first
                open = false;
                term.poll(Some(Duration::from_millis(*ms as u64)))
                    .map_err(|e| Fail::new("pty/poll-error", format!("poll failed: {e:?}")))?;
            }
            TOp::PollUntilDrained => {
                open = false;
                let t0 = Instant::now();
                let mut checked = Instant::now();
                loop {
                    term.poll(Some(Duration::from_millis(5)))
                        .map_err(|e| Fail::new("pty/poll-error", format!("poll failed: {e:?}")))?;
                    if term.frames_pending() == 0 {
                        break;
                    }
                    // a queue that does not drain may be a queue that sends the same bytes
                    // again and again: look at what has arrived so far
                    if checked.elapsed() > Duration::from_millis(500) {
                        let received = peer.received();
                        validate_stream(&received[send0.min(received.len())..], &chunks, false, size_by_escape)?;
                        checked = Instant::now();
                    }
                    if t0.elapsed() > WATCHDOG {
                        inconclusive("output queue did not drain within the watchdog");
                    }
                }
            }
            TOp::FramesDrop => {
                // a drop also ends the chunk being written: later writes start a new unit.
                // Every chunk that exists now may be discarded if it has not started
                // transmission; a chunk that had started and is discarded anyway shows up torn
                // in the received stream, a chunk that is absent never started.
                open = false;
                for c in chunks.iter_mut() {
                    c.droppable = true;
                }
                if term.frames_pending() > 0 {
                    // which units can still be (partly) in the queue: those that end behind
                    // what has been sent
                    let sent = term.stats().send - send0;
                    let mut off = 0usize;
                    for c in chunks.iter() {
                        let (a, b) = (off, off + c.bytes.len());
                        off = b;
                        if c.bytes.len() > MIB && b > sent {
                            drop_with_long_unit = true;
                            drop_with_long_unit_in_flight |= sent > a;
                        }
                    }
                }
                term.frames_drop();
            }
            TOp::Winch => {
                // the window-size signal is not an operation of the terminal object: it ends
                // nothing and makes nothing eligible for dropping.  The object notices it in its
                // next poll (ioctl size: a Resize event, which this oracle ignores; size from
                // escape sequences: a size request queued behind the pending output).
                let units = term.frames_pending().saturating_sub(if open { 0 } else { 1 });
                if units >= 2 {
                    winch_with_backlog = true;
                }
                winches += 1;
                unsafe {
                    libc::raise(libc::SIGWINCH);
                }
            }
        }
    }
    // fix up bookkeeping of chunk start offsets (header length is 10 bytes: "<#000000|")
    // -- recompute exactly from the chunk bytes
    let mut off = 0usize;
    for c in chunks.iter_mut() {
        c.start = off;
        off += c.bytes.len();
    }
    let _ = written_total;

    // finish: drain everything, free-running peer, no more faults
    peer.free_run();
    let t0 = Instant::now();
    let mut checked = Instant::now();
    loop {
        term.poll(Some(Duration::from_millis(5)))
            .map_err(|e| Fail::new("pty/poll-error", format!("poll failed: {e:?}")))?;
        if term.frames_pending() == 0 {
            break;
        }
        if checked.elapsed() > Duration::from_millis(500) {
            let received = peer.received();
            validate_stream(&received[send0.min(received.len())..], &chunks, false, size_by_escape)?;
            checked = Instant::now();
        }
        if t0.elapsed() > WATCHDOG {
            inconclusive("output queue did not drain at the end of the session");
        }
    }
    let send_total = term.stats().send;
    if !peer.wait_received(send_total, Duration::from_secs(10)) {
        // bytes counted as sent never arrived
        let got = peer.received_len();
        return Err(Fail::new(
            "pty/sent-counter-exceeds-received",
            format!("stats().send = {send_total} but the other end of the pty received only {got} bytes"),
        ));
    }
    let received = peer.received();
    let data = &received[send0..send_total];

    let (present, requests) = validate_stream(data, &chunks, true, size_by_escape)?;
    // (a session that raised SIGWINCH gets a signature of its own: if the signal is not needed
    // for the loss, shrinking removes it and the plain signature remains)
    let lost_sig = if winches > 0 { "pty/chunk-lost-after-sigwinch" } else { "pty/chunk-lost" };
    for (i, c) in chunks.iter().enumerate() {
        ensure!(
            present[i] || c.droppable,
            lost_sig,
            "chunk #{i} ({} bytes, written at stream offset {}) never arrived although no frames_drop could discard it (it was started or written after the last drop){}",
            c.bytes.len(),
            c.start,
            if winches > 0 { format!("; {winches} SIGWINCH raised during the session, size taken from escape sequences: {size_by_escape}") } else { String::new() }
        );
    }
    // exactly the bytes counted as sent were received (nothing extra before the epilogue)
    drop(term);
    let dropped = present.iter().filter(|p| !**p).count();
    Ok(Pass::new(big && (fault_count.get() > 0 || bite > 0))
        .label("pty")
        .label_if(big, "chunk>8KiB")
        .label_if(fault_count.get() > 0, "injected-write-faults")
        .label_if(bite > 0, "throttled-peer")
        .label_if(dropped > 0, "chunks-dropped")
        .label_if(chunks.iter().any(|c| c.droppable), "frames-drop-with-pending")
        .label_if(size_by_escape, "pty:size-from-escape-sequences")
        .label_if(winches > 0, "pty:sigwinch")
        .label_if(winches > 0 && size_by_escape, "pty:sigwinch+size-from-escape-sequences")
        .label_if(winch_with_backlog, "pty:sigwinch-with->=2-chunks-pending")
        .label_if(winch_with_backlog && size_by_escape, "pty:sigwinch-with->=2-chunks-pending+size-from-escape-sequences")
        .label_if(requests > 0, "pty:size-requests-between-chunks")
        .label_if(runs > 0, "pty:unit-assembled-from-many-writes")
        .label_if(chunks.iter().any(|c| c.bytes.len() > MIB), "pty:unit>1MiB")
        .label_if(chunks.iter().any(|c| c.bytes.len() > 2 * MIB), "pty:unit>2MiB")
        .label_if(drop_with_long_unit, "pty:frames-drop-with-unit>1MiB-pending")
        .label_if(drop_with_long_unit_in_flight, "pty:frames-drop-with-unit>1MiB-in-flight"))
}

/// Parse the bytes received after the handshake: whole chunks only, in increasing order, each
/// at most once.  With `complete == false` the data is a prefix of what will arrive: the last
/// chunk may be cut short.  Returns which chunks are present.
///
/// `size_requests`: the session runs a terminal object that takes its size from escape
/// sequences.  Such an object writes `CSI 18 t CSI 14 t` into its own output queue while it
/// handles a SIGWINCH inside `poll` -- output of the library, not of the program, placed at a
/// point of the program order where the program is inside `poll`, i.e. between two units of
/// this harness (a poll always ends the unit being written).  The requests are recognised and
/// skipped exactly there: in front of a chunk header or at the end of the stream.  A request
/// anywhere else sits between bytes the program wrote without a poll in between and makes the
/// chunk compare unequal.  Returns the number of requests skipped as well.
fn validate_stream(data: &[u8], chunks: &[Chunk], complete: bool, size_requests: bool) -> Result<(Vec<bool>, usize), Fail> {
    let mut p = 0usize;
    let mut next = 0usize;
    let mut present = vec![false; chunks.len()];
    let mut requests = 0usize;
    while p < data.len() {
        // which chunk starts here?
        let rest = &data[p..];
        if size_requests {
            if rest.starts_with(SIZE_REQUEST) {
                requests += 1;
                p += SIZE_REQUEST.len();
                continue;
            }
            if !complete && rest.len() < SIZE_REQUEST.len() && SIZE_REQUEST.starts_with(rest) {
                // still arriving
                break;
            }
        }
        let found = (next..chunks.len()).find(|&i| {
            let h = &chunks[i].header;
            if rest.len() >= h.len() { rest.starts_with(h) } else { !complete && h.starts_with(rest) }
        });
        let Some(i) = found else {
            let near = &data[p..(p + 40).min(data.len())];
            return Err(Fail::new(
                "pty/stream-out-of-order-or-torn",
                format!(
                    "received stream position {p}: no chunk >= #{next} starts here (bytes {:?}); a chunk was torn, duplicated or reordered",
                    String::from_utf8_lossy(near)
                ),
            ));
        };
        let c = &chunks[i];
        let end = p + c.bytes.len();
        if end > data.len() && !complete && c.bytes.starts_with(rest) {
            // still arriving
            break;
        }
        if end > data.len() || data[p..end] != c.bytes[..] {
            let upto = (0..c.bytes.len().min(data.len() - p)).find(|&k| data[p + k] != c.bytes[k]).unwrap_or(data.len() - p);
            if size_requests && data[p + upto..].starts_with(SIZE_REQUEST) {
                return Err(Fail::new(
                    "pty/size-request-inside-chunk",
                    format!(
                        "chunk #{i} ({} bytes) is interrupted at byte {upto} by the library's size request CSI 18 t CSI 14 t: the program wrote these bytes without polling in between, they must reach the tty as one exact concatenation",
                        c.bytes.len()
                    ),
                ));
            }
            return Err(Fail::new(
                "pty/chunk-torn-or-corrupted",
                format!("chunk #{i} ({} bytes) arrives only up to byte {upto}", c.bytes.len()),
            ));
        }
        present[i] = true;
        p = end;
        next = i + 1;
    }
    Ok((present, requests))
}

fn fault() -> BoxedStrategy<Fault> {
    prop_oneof![
        4 => Just(Fault::None),
        3 => (1u16..=4096).prop_map(Fault::Short),
        2 => Just(Fault::WouldBlock),
        1 => Just(Fault::Interrupted),
    ]
    .boxed()
}

/// total size and piece size of a run of writes without flush: the total is spread over all
/// magnitudes from 1 KiB to 2.5 MiB (2^k + 0..2^k, half of the weight on k = 20 and 21, i.e.
/// beyond 1 MiB and beyond 2 MiB), the pieces are tiny, 4 KiB (image encoders), a few KiB, or the whole run at once
fn write_run(max_log2: u32) -> BoxedStrategy<(usize, usize)> {
    let k = if max_log2 >= 21 {
        prop_oneof![10 => 10u32..20, 6 => Just(20u32), 4 => Just(21u32)].boxed()
    } else {
        (10u32..=max_log2).boxed()
    };
    (k, any::<u32>(), prop_oneof![1 => 1usize..64, 2 => Just(4096usize), 2 => 256usize..20_000, 1 => Just(usize::MAX)])
        .prop_map(|(k, extra, piece)| {
            // (beyond 1 MiB only a quarter of the span: 1-1.25 MiB, 2-2.5 MiB)
            let span = if k >= 20 { 1usize << (k - 2) } else { 1usize << k };
            let total = (1usize << k) + (extra as usize & (span - 1));
            (total, piece.min(total))
        })
        .boxed()
}

fn queue_strategy(max_ops: usize) -> BoxedStrategy<Case> {
    let qop = prop_oneof![
        100 => proptest::collection::vec(any::<u8>(), 0..40).prop_map(QOp::Write),
        60 => Just(QOp::Flush),
        60 => (0usize..50).prop_map(QOp::Read),
        40 => any::<u16>().prop_map(QOp::FillConsume),
        40 => any::<u16>().prop_map(QOp::ConsumeWith),
        20 => Just(QOp::Drop),
        // rare: one operation in ~320, i.e. one history in eleven contains a run and one in
        // twenty a chunk beyond 1 MiB
        1 => (write_run(21), any::<u8>()).prop_map(|((total, piece), seed)| QOp::WriteRun { total, piece, seed }),
    ];
    proptest::collection::vec(qop, 0..max_ops).prop_map(|ops| Case::Queue { ops }).boxed()
}

impl Property for C16 {
    type Case = Case;

    fn fuzz(&self) -> Option<FuzzSpec> {
        // entropy-driven target: libFuzzer's bytes replace the generator's random numbers
        Some(FuzzSpec { target: "gen", jobs: 8, runs: 30_000, max_len: 4096, seeds: 64 })
    }

    fn id(&self) -> &'static str {
        "C16"
    }

    /// SIGWINCH raised by a session is process-wide: every terminal object alive in the process
    /// would see it.  One worker process per shard keeps a session's signals to itself, which
    /// makes witnesses replayable (the oracle itself does not depend on it: size requests are
    /// accepted at every unit boundary of an escape-size session, Resize events are ignored).
    fn isolate(&self) -> bool {
        true
    }

    fn level(&self) -> &'static str {
        // injected short writes / EAGAIN / EINTR patterns on the tty + model-based queue histories
        "fault_enumeration"
    }

    /// the coverage-guided stage mutates queue histories only (pseudo-terminal sessions need
    /// threads and real time, which an in-process fuzz target should not own)
    fn fuzz_strategy(&self) -> BoxedStrategy<Case> {
        queue_strategy(120)
    }

    fn strategy(&self, tier: Tier) -> BoxedStrategy<Case> {
        let queue = queue_strategy(60);
        let max_payload = tier.pick(1usize << 16, 1usize << 18);
        let top = prop_oneof![
            6 => prop_oneof![3 => 1usize..200, 2 => 4000usize..4200, 1 => 8193usize..max_payload].prop_map(TOp::Write),
            2 => any::<u8>().prop_map(TOp::Execute),
            3 => Just(TOp::Flush),
            3 => prop_oneof![Just(0u8), Just(5u8)].prop_map(TOp::Poll),
            1 => Just(TOp::PollUntilDrained),
            2 => Just(TOp::FramesDrop),
            2 => Just(TOp::Winch),
            // a record assembled from many writes, at ordinary sizes (1 KiB - 64 KiB, thorough 256 KiB)
            1 => write_run(tier.pick(15, 17)).prop_map(|(total, piece)| TOp::WriteRun { total, piece }),
        ];
        // one session in ~35: a unit of 1-1.25 MiB (one in four: 2-2.25 MiB) assembled from
        // many writes, followed after 0-2 further operations by a frames_drop, spliced into the
        // generated session at a generated position: the long unit is pending or in flight
        // when frames are dropped
        let gap = prop_oneof![
            3 => prop_oneof![Just(0u8), Just(5u8)].prop_map(TOp::Poll),
            1 => Just(TOp::Flush),
            1 => (1usize..200).prop_map(TOp::Write),
            1 => any::<u8>().prop_map(TOp::Execute),
            1 => Just(TOp::Winch),
        ];
        let long_unit = prop_oneof![
            34 => Just(None),
            1 => (
                any::<u16>(),
                prop_oneof![3 => Just(20u32), 1 => Just(21u32)],
                0usize..(1 << 18),
                prop_oneof![1 => 16usize..64, 3 => Just(4096usize), 2 => 256usize..20_000],
                proptest::collection::vec(gap, 0..3),
            )
                .prop_map(Some),
        ];
        let pty = (
            (proptest::collection::vec(top, 1..25), long_unit).prop_map(|(mut ops, long_unit)| {
                if let Some((at, k, extra, piece, gap)) = long_unit {
                    let at = (at as usize * (ops.len() + 1)) >> 16;
                    let mut ins = vec![TOp::WriteRun { total: (1usize << k) + extra, piece }];
                    ins.extend(gap);
                    ins.push(TOp::FramesDrop);
                    ops.splice(at..at, ins);
                }
                ops
            }),
            prop_oneof![2 => Just(0usize), 2 => 1usize..4096, 1 => 4096usize..65536],
            prop_oneof![2 => Just(0usize), 1 => 1usize..300],
            proptest::collection::vec(fault(), 0..8),
            // every other session takes its size from escape sequences
            any::<bool>(),
        )
            .prop_map(|(ops, bite, pause_us, mut faults, size_by_escape)| {
                // make sure writes can make progress under the cyclic pattern
                if !faults.is_empty() && !faults.iter().any(|f| matches!(f, Fault::None | Fault::Short(_))) {
                    faults.push(Fault::None);
                }
                // keep the time a session needs to drain bounded (a few seconds even on a
                // loaded machine), so that the drain watchdog means "stuck", not "slow":
                // the peer must be able to read everything in <= ~3 s ...
                let total: usize = ops
                    .iter()
                    .map(|o| match o {
                        TOp::Write(n) => *n + 16,
                        TOp::WriteRun { total, .. } => *total + 16,
                        TOp::Execute(_) => 64,
                        _ => 0,
                    })
                    .sum();
                // (sessions with a unit beyond 1 MiB: a third of these budgets, they are long
                // because of their size already)
                let long = ops.iter().any(|o| matches!(o, TOp::WriteRun { total, .. } if *total > MIB));
                let (drain_us, attempts) = if long { (1_000_000, 100_000) } else { (3_000_000, 300_000) };
                let mut bite = bite;
                if bite != 0 {
                    let per_read_us = pause_us + 30;
                    let min_bite = (total * per_read_us).div_ceil(drain_us);
                    bite = bite.max(min_bite).max(1);
                }
                // ... and the writer must get there in <= ~300k write attempts
                if !faults.is_empty() {
                    let progress = |fs: &[Fault]| -> usize {
                        fs.iter()
                            .map(|f| match f {
                                Fault::None => 4096,
                                Fault::Short(n) => *n as usize,
                                _ => 0,
                            })
                            .sum::<usize>()
                            / fs.len()
                    };
                    while total / progress(&faults).max(1) > attempts {
                        faults.push(Fault::None);
                    }
                }
                Case::Pty { ops, bite, pause_us, faults, size_by_escape }
            });
        let render = (
            5u16..=24,
            20u16..=80,
            0u8..=70,
            any::<u8>(),
            prop_oneof![1 => Just(0usize), 3 => 20_000usize..100_000],
            proptest::collection::vec(fault(), 0..6),
        )
            .prop_map(|(rows, cols, total, rel, filler, mut faults)| {
                if !faults.is_empty() && !faults.iter().any(|f| matches!(f, Fault::None | Fault::Short(_))) {
                    faults.push(Fault::None);
                }
                // progress per write attempt must stay reasonable (see above)
                while faults.iter().any(|f| matches!(f, Fault::Short(n) if *n < 64)) && faults.len() < 12 {
                    faults.push(Fault::None);
                }
                let release_at = ((rel as usize * (total as usize + 1)) >> 8) as u8;
                Case::Render { rows, cols, total, release_at, filler, faults }
            });
        prop_oneof![24 => queue, 2 => pty, 1 => render].boxed()
    }

    fn check(&self, case: &Case) -> Outcome {
        match case {
            Case::Queue { ops } => check_queue(ops),
            Case::Pty { ops, bite, pause_us, faults, size_by_escape } => {
                check_pty(ops, *bite, *pause_us, faults, *size_by_escape)
            }
            Case::Render { rows, cols, total, release_at, filler, faults } => {
                check_render(*rows, *cols, *total, *release_at, *filler, faults)
            }
        }
    }

    fn cases(&self, tier: Tier) -> u32 {
        tier.pick(3_000, 60_000)
    }

    fn rule(&self) -> String {
        "(a) ~92% of cases: 0-59 IOQueue operations (write 0-39 bytes, flush, read into 0-49 byte buffers, fill_buf+consume(k), consume_with(k), clear_but_last, and -- one operation in ~320, i.e. one history in eleven -- a run of writes without flush: 2^k + 0..2^k bytes for k = 10..19, 1-1.25 MiB or 2-2.5 MiB (half of the runs; consecutive runs add up) handed over in pieces of 1-63 bytes / 4 KiB / 256-20000 bytes / all at once) against a deque-of-chunks model: after every operation (during a run: after every piece for len() and chunks_count, after the run for the rest) len() must equal the bytes still readable, as_slice/is_empty/chunks_count must match (a write never ends a chunk: queue/chunk-boundary-without-flush; a drop never shortens the front chunk: queue/drop-tore-front-chunk), and over the whole history the bytes read must equal the model's; one history in twenty holds a flush-delimited chunk beyond 1 MiB, one in fifty a drop while such a chunk, partly read, is at the front. (b) ~8% of cases (~230 sessions per shard in quick): a real SystemTerminal on a pseudo-terminal, 1-24 operations (write records of 1-200 / ~4096 / 8 KiB-64 KiB (thorough 256 KiB) bytes, execute, flush, poll(0|5 ms), poll-until-drained, frames_drop, raise(SIGWINCH) in-process -- about one operation in ten, so two sessions in three contain at least one --, a record of 1 KiB-64 KiB (thorough 256 KiB) handed over in many pieces without flush; one session in ~35 additionally has a unit of 1-1.25 MiB or 2-2.25 MiB assembled from 16-20000 byte pieces and, 0-2 operations (poll, flush, small write, execute, SIGWINCH) later, a frames_drop, spliced in at a generated position, with a third of the usual drain/attempt budgets), a peer that drains 1-65536 bytes per read with 0-300 us pauses, and a cyclic pattern of injected short writes / EAGAIN / EINTR on the tty; every flush-delimited chunk starts with a unique header; the bytes received on the master side must parse into whole chunks in increasing order, each at most once, and every chunk written after the last frames_drop must be present. Every other pty session runs on a pty whose ioctl reports no pixel size while the peer answers every CSI 18 t CSI 14 t with 24x80 cells / 480x800 pixels (checked through Terminal::size() after start-up): such a terminal object answers a SIGWINCH inside poll by queueing a size request of its own behind whatever output is pending (with ioctl sizes it only produces a Resize event); these requests are skipped by the receiving parser in front of a chunk header or at the end of the stream and nowhere else, the signal makes no chunk eligible for dropping, and events returned by poll (Resize included) are ignored. The check runs one worker process per shard, so a raised signal reaches only the terminal object of the session that raised it. non-trivial = (a) >=4 operations with a drop or >8 bytes delivered, (b) a chunk larger than 8 KiB together with injected write faults or a throttled peer".into()
    }

    fn assumptions(&self) -> Vec<String> {
        vec![
            "a frames_drop ends the chunk being written (bytes written afterwards form a new unit); a chunk may be missing from the received stream only if a frames_drop happened after it was created; a chunk that had started transmission and is dropped anyway arrives torn and is reported".into(),
            "dropping fewer chunks than eligible is allowed (the property says 'only')".into(),
            "the queue model mirrors the documented chunking rules (flush starts a new chunk when the front chunk has unread bytes) and recomputes the length from its content".into(),
            "a chunk is what lies between two flushes whatever its size and however many writes assembled it (units of 1 KiB to beyond 2 MiB are generated): IOQueue::chunks_count / frames_pending count exactly these units, and since clear_but_last / frames_drop discard by chunk, a chunk boundary that no flush made would let a drop discard part of a flush-delimited chunk ('only whole flush-delimited chunks'); on the pty the same defect shows as a long unit that arrives torn after a frames_drop (pty/chunk-torn-or-corrupted)".into(),
            "output that the library itself produces inside poll (the size request after SIGWINCH) is not 'written or executed on the terminal object' by the program: C16 demands where it may appear in the stream, not that it is sent, nor within which poll; a request that stays queued until the next poll delays nothing the program wrote (all sessions poll with finite timeouts and drain at the end). That a poll which produced such output also transmits it -- and that poll(None) ends after SIGWINCH -- is C17's clause (signal/winch-poll-cannot-be-ended), not checked here".into(),
            "a session that exceeds the 20 s watchdog is inconclusive (exit 2), never a violation".into(),
            "SIGWINCH is not one of the property's operations: whatever the terminal object does about it, chunks written and not followed by a frames_drop call of the program must still arrive whole, once, in order ('nothing lost ... however polling is interleaved with further output'; only frames_drop may discard)".into(),
            "the size request CSI 18 t CSI 14 t that a terminal object in escape-sequence size mode writes while handling SIGWINCH inside poll is output of the library, not of the program; the program is inside poll at that moment, and a poll ends the unit being written, so the request may appear only between two units (in front of a header or at the end); a request between bytes that the program wrote without an intervening poll would break 'exact concatenation of the encoded bytes' and is reported as a torn chunk. Whether a request is sent at all, and whether it survives a later frames_drop, is not checked".into(),
            "sessions with ioctl pixel sizes must not contain a size request at all (the library documents the request as the fallback only)".into(),
        ]
    }
}
