//! Reference SGR (Select Graphic Rendition) model, ECMA-48 / xterm / kitty (DESIGN §2.4).
//!
//! `SgrParam` = one parameter in standard spelling; `print` renders a parameter list;
//! `SgrState` = attribute record updated parameter by parameter; `to_face_modify` = what a
//! list of parameters means as a face-modification record.  A byte-level parser
//! (`parse_params`) reads arbitrary emitted parameter strings back into `SgrParam`s for C05.

use proptest::prelude::*;
use serde::{Deserialize, Serialize};
use surf_n_term::{Face, FaceAttrs, FaceModify, RGBA, UnderlineStyle};

#[derive(Clone, Copy, Debug, PartialEq, Eq, Serialize, Deserialize)]
pub enum Role {
    Fg,
    Bg,
    Ul,
}

#[derive(Clone, Copy, Debug, PartialEq, Eq, Serialize, Deserialize)]
pub enum RgbForm {
    /// `38:2::r:g:b` (ITU T.416 with empty colour-space id)
    ColonCs,
    /// `38:2:r:g:b` (common short colon form)
    Colon,
    /// `38;2;r;g;b` (xterm legacy form: exactly three components, no colour-space field)
    Semi,
}

#[derive(Clone, Copy, Debug, PartialEq, Eq, Serialize, Deserialize)]
pub enum IdxForm {
    Colon,
    Semi,
}

#[derive(Clone, Copy, Debug, PartialEq, Eq, Serialize, Deserialize)]
pub enum SgrParam {
    Reset,
    /// empty parameter (= 0)
    Empty,
    Bold,
    /// 22: normal intensity
    BoldOff,
    Italic,
    ItalicOff,
    /// plain `4`
    Underline,
    /// `4:n`, n in 0..=5 (0 none, 1 straight, 2 double, 3 curly, 4 dotted, 5 dashed)
    UnderlineSub(u8),
    /// 21: doubly underlined (ECMA-48, xterm)
    DoubleUnderline,
    UnderlineOff,
    Blink,
    BlinkOff,
    Strike,
    StrikeOff,
    /// 7 / 27: reverse video (only produced by `parse_params`, never generated for decoding:
    /// a face-modification record cannot express it)
    Reverse,
    ReverseOff,
    /// 30..37 / 40..47 (bright=false) or 90..97 / 100..107 (bright=true); Ul not allowed
    Named { role: Role, n: u8, bright: bool },
    Rgb { role: Role, rgb: [u8; 3], form: RgbForm },
    Idx { role: Role, n: u8, form: IdxForm },
}

pub const CUBE: [u8; 6] = [0x00, 0x5f, 0x87, 0xaf, 0xd7, 0xff];

/// The 16 named colours as the library names them (pinned table; terminal-configurable in
/// reality, so this is a naming decision like the key table, not a protocol fact).
pub const NAMED: [[u8; 3]; 16] = [
    [0, 0, 0],
    [128, 0, 0],
    [0, 128, 0],
    [128, 128, 0],
    [0, 0, 128],
    [128, 0, 128],
    [0, 128, 128],
    [192, 192, 192],
    [128, 128, 128],
    [255, 0, 0],
    [0, 255, 0],
    [255, 255, 0],
    [0, 0, 255],
    [255, 0, 255],
    [0, 255, 255],
    [255, 255, 255],
];

/// xterm 256-colour table
pub fn palette256(n: u8) -> [u8; 3] {
    let n = n as usize;
    if n < 16 {
        NAMED[n]
    } else if n < 232 {
        let i = n - 16;
        [CUBE[i / 36], CUBE[(i / 6) % 6], CUBE[i % 6]]
    } else {
        let v = (8 + 10 * (n - 232)) as u8;
        [v, v, v]
    }
}

fn role_code(role: Role) -> u32 {
    match role {
        Role::Fg => 38,
        Role::Bg => 48,
        Role::Ul => 58,
    }
}

pub fn print_one(p: &SgrParam) -> String {
    match p {
        SgrParam::Reset => "0".into(),
        SgrParam::Empty => "".into(),
        SgrParam::Bold => "1".into(),
        SgrParam::BoldOff => "22".into(),
        SgrParam::Italic => "3".into(),
        SgrParam::ItalicOff => "23".into(),
        SgrParam::Underline => "4".into(),
        SgrParam::UnderlineSub(n) => format!("4:{n}"),
        SgrParam::DoubleUnderline => "21".into(),
        SgrParam::UnderlineOff => "24".into(),
        SgrParam::Blink => "5".into(),
        SgrParam::BlinkOff => "25".into(),
        SgrParam::Strike => "9".into(),
        SgrParam::StrikeOff => "29".into(),
        SgrParam::Reverse => "7".into(),
        SgrParam::ReverseOff => "27".into(),
        SgrParam::Named { role, n, bright } => {
            let base = match (role, bright) {
                (Role::Fg, false) => 30,
                (Role::Fg, true) => 90,
                (_, false) => 40,
                (_, true) => 100,
            };
            format!("{}", base + *n as u32)
        }
        SgrParam::Rgb { role, rgb: [r, g, b], form } => {
            let c = role_code(*role);
            match form {
                RgbForm::ColonCs => format!("{c}:2::{r}:{g}:{b}"),
                RgbForm::Colon => format!("{c}:2:{r}:{g}:{b}"),
                RgbForm::Semi => format!("{c};2;{r};{g};{b}"),
            }
        }
        SgrParam::Idx { role, n, form } => {
            let c = role_code(*role);
            match form {
                IdxForm::Colon => format!("{c}:5:{n}"),
                IdxForm::Semi => format!("{c};5;{n}"),
            }
        }
    }
}

pub fn print(params: &[SgrParam]) -> String {
    params.iter().map(print_one).collect::<Vec<_>>().join(";")
}

/// Attribute record of a terminal
#[derive(Clone, Copy, Debug, PartialEq, Eq, Default)]
pub struct SgrState {
    pub fg: Option<[u8; 3]>,
    pub bg: Option<[u8; 3]>,
    pub ul_color: Option<[u8; 3]>,
    pub underline: u8, // 0 none .. 5 dashed
    pub bold: bool,
    pub italic: bool,
    pub blink: bool,
    pub strike: bool,
    pub reverse: bool,
}

fn ul_style(n: u8) -> UnderlineStyle {
    match n {
        1 => UnderlineStyle::Straight,
        2 => UnderlineStyle::Double,
        3 => UnderlineStyle::Curly,
        4 => UnderlineStyle::Dotted,
        5 => UnderlineStyle::Dashed,
        _ => UnderlineStyle::None,
    }
}

pub fn color_of(p: &SgrParam) -> Option<(Role, [u8; 3])> {
    match p {
        SgrParam::Named { role, n, bright } => Some((*role, NAMED[*n as usize + if *bright { 8 } else { 0 }])),
        SgrParam::Rgb { role, rgb, .. } => Some((*role, *rgb)),
        SgrParam::Idx { role, n, .. } => Some((*role, palette256(*n))),
        _ => None,
    }
}

impl SgrState {
    pub fn from_face(face: &Face) -> Self {
        use surf_n_term::Color;
        let rgb = |c: RGBA| {
            let [r, g, b, _] = c.to_rgba();
            [r, g, b]
        };
        let under = match face.attrs.underline() {
            UnderlineStyle::None => 0,
            UnderlineStyle::Straight => 1,
            UnderlineStyle::Double => 2,
            UnderlineStyle::Curly => 3,
            UnderlineStyle::Dotted => 4,
            UnderlineStyle::Dashed => 5,
        };
        Self {
            fg: face.fg.map(rgb),
            bg: face.bg.map(rgb),
            ul_color: None,
            underline: under,
            bold: face.attrs.contains(FaceAttrs::BOLD),
            italic: face.attrs.contains(FaceAttrs::ITALIC),
            blink: face.attrs.contains(FaceAttrs::BLINK),
            strike: face.attrs.contains(FaceAttrs::STRIKE),
            reverse: face.attrs.contains(FaceAttrs::REVERSE),
        }
    }

    pub fn apply(&mut self, p: &SgrParam) {
        match p {
            SgrParam::Reset | SgrParam::Empty => *self = Self::default(),
            SgrParam::Bold => self.bold = true,
            SgrParam::BoldOff => self.bold = false,
            SgrParam::Italic => self.italic = true,
            SgrParam::ItalicOff => self.italic = false,
            SgrParam::Underline => self.underline = 1,
            SgrParam::UnderlineSub(n) => self.underline = *n,
            SgrParam::DoubleUnderline => self.underline = 2,
            SgrParam::UnderlineOff => self.underline = 0,
            SgrParam::Blink => self.blink = true,
            SgrParam::BlinkOff => self.blink = false,
            SgrParam::Strike => self.strike = true,
            SgrParam::StrikeOff => self.strike = false,
            SgrParam::Reverse => self.reverse = true,
            SgrParam::ReverseOff => self.reverse = false,
            other => {
                if let Some((role, rgb)) = color_of(other) {
                    match role {
                        Role::Fg => self.fg = Some(rgb),
                        Role::Bg => self.bg = Some(rgb),
                        Role::Ul => self.ul_color = Some(rgb),
                    }
                }
            }
        }
    }

    pub fn apply_all(&mut self, params: &[SgrParam]) {
        params.iter().for_each(|p| self.apply(p));
    }

    /// projection on the library's `Face` (reverse is not tracked; underline colour is not
    /// part of `Face`)
    pub fn to_face(&self) -> Face {
        let mut attrs = FaceAttrs::EMPTY;
        if self.bold {
            attrs = attrs | FaceAttrs::BOLD;
        }
        if self.italic {
            attrs = attrs | FaceAttrs::ITALIC;
        }
        if self.blink {
            attrs = attrs | FaceAttrs::BLINK;
        }
        if self.strike {
            attrs = attrs | FaceAttrs::STRIKE;
        }
        if self.reverse {
            attrs = attrs | FaceAttrs::REVERSE;
        }
        attrs = attrs | FaceAttrs::from(ul_style(self.underline));
        let c = |o: Option<[u8; 3]>| o.map(|[r, g, b]| RGBA::new(r, g, b, 255));
        Face::new(c(self.fg), c(self.bg), attrs)
    }
}

/// Meaning of a parameter list as a face-modification record: each field holds the last
/// value assigned after the last reset.
pub fn to_face_modify(params: &[SgrParam]) -> FaceModify {
    let mut m = FaceModify::default();
    let c = |[r, g, b]: [u8; 3]| RGBA::new(r, g, b, 255);
    for p in params {
        match p {
            SgrParam::Reset | SgrParam::Empty => {
                m = FaceModify {
                    reset: true,
                    ..FaceModify::default()
                }
            }
            SgrParam::Bold => m.bold = Some(true),
            SgrParam::BoldOff => m.bold = Some(false),
            SgrParam::Italic => m.italic = Some(true),
            SgrParam::ItalicOff => m.italic = Some(false),
            SgrParam::Underline => m.underline = Some(UnderlineStyle::Straight),
            SgrParam::UnderlineSub(n) => m.underline = Some(ul_style(*n)),
            SgrParam::DoubleUnderline => m.underline = Some(UnderlineStyle::Double),
            SgrParam::UnderlineOff => m.underline = Some(UnderlineStyle::None),
            SgrParam::Blink => m.blink = Some(true),
            SgrParam::BlinkOff => m.blink = Some(false),
            SgrParam::Strike => m.strike = Some(true),
            SgrParam::StrikeOff => m.strike = Some(false),
            SgrParam::Reverse | SgrParam::ReverseOff => {}
            other => {
                if let Some((role, rgb)) = color_of(other) {
                    match role {
                        Role::Fg => m.fg = Some(c(rgb)),
                        Role::Bg => m.bg = Some(c(rgb)),
                        Role::Ul => m.underline_color = Some(c(rgb)),
                    }
                }
            }
        }
    }
    m
}

/// Parse an emitted SGR parameter string (between `CSI` and `m`) with standard rules.
/// Returns None when a parameter is not one of the standard spellings above.
pub fn parse_params(s: &str) -> Option<Vec<SgrParam>> {
    let groups: Vec<&str> = s.split(';').collect();
    let mut out = Vec::new();
    let mut i = 0;
    let num = |t: &str| -> Option<u32> {
        if t.is_empty() || !t.bytes().all(|b| b.is_ascii_digit()) || t.len() > 9 {
            None
        } else {
            t.parse().ok()
        }
    };
    while i < groups.len() {
        let g = groups[i];
        i += 1;
        if g.is_empty() {
            out.push(SgrParam::Empty);
            continue;
        }
        let subs: Vec<&str> = g.split(':').collect();
        let code = num(subs[0])?;
        let role = match code {
            38 => Some(Role::Fg),
            48 => Some(Role::Bg),
            58 => Some(Role::Ul),
            _ => None,
        };
        if let Some(role) = role {
            if subs.len() > 1 {
                // colon form
                match num(subs[1])? {
                    5 if subs.len() == 3 => {
                        let n = num(subs[2])?;
                        out.push(SgrParam::Idx { role, n: u8::try_from(n).ok()?, form: IdxForm::Colon });
                    }
                    2 if subs.len() == 5 => {
                        let r = u8::try_from(num(subs[2])?).ok()?;
                        let g = u8::try_from(num(subs[3])?).ok()?;
                        let b = u8::try_from(num(subs[4])?).ok()?;
                        out.push(SgrParam::Rgb { role, rgb: [r, g, b], form: RgbForm::Colon });
                    }
                    2 if subs.len() == 6 => {
                        // colour-space id may be empty or a number
                        if !subs[2].is_empty() {
                            num(subs[2])?;
                        }
                        let r = u8::try_from(num(subs[3])?).ok()?;
                        let g = u8::try_from(num(subs[4])?).ok()?;
                        let b = u8::try_from(num(subs[5])?).ok()?;
                        out.push(SgrParam::Rgb { role, rgb: [r, g, b], form: RgbForm::ColonCs });
                    }
                    _ => return None,
                }
            } else {
                // semicolon form
                let kind = num(groups.get(i)?)?;
                i += 1;
                match kind {
                    5 => {
                        let n = num(groups.get(i)?)?;
                        i += 1;
                        out.push(SgrParam::Idx { role, n: u8::try_from(n).ok()?, form: IdxForm::Semi });
                    }
                    2 => {
                        let r = u8::try_from(num(groups.get(i)?)?).ok()?;
                        let g = u8::try_from(num(groups.get(i + 1)?)?).ok()?;
                        let b = u8::try_from(num(groups.get(i + 2)?)?).ok()?;
                        i += 3;
                        out.push(SgrParam::Rgb { role, rgb: [r, g, b], form: RgbForm::Semi });
                    }
                    _ => return None,
                }
            }
            continue;
        }
        if subs.len() > 1 {
            if code == 4 && subs.len() == 2 {
                let n = num(subs[1])?;
                if n > 5 {
                    return None;
                }
                out.push(SgrParam::UnderlineSub(n as u8));
                continue;
            }
            return None;
        }
        out.push(match code {
            0 => SgrParam::Reset,
            1 => SgrParam::Bold,
            22 => SgrParam::BoldOff,
            3 => SgrParam::Italic,
            23 => SgrParam::ItalicOff,
            4 => SgrParam::Underline,
            21 => SgrParam::DoubleUnderline,
            24 => SgrParam::UnderlineOff,
            5 => SgrParam::Blink,
            25 => SgrParam::BlinkOff,
            9 => SgrParam::Strike,
            29 => SgrParam::StrikeOff,
            7 => SgrParam::Reverse,
            27 => SgrParam::ReverseOff,
            c @ 30..=37 => SgrParam::Named { role: Role::Fg, n: (c - 30) as u8, bright: false },
            c @ 90..=97 => SgrParam::Named { role: Role::Fg, n: (c - 90) as u8, bright: true },
            c @ 40..=47 => SgrParam::Named { role: Role::Bg, n: (c - 40) as u8, bright: false },
            c @ 100..=107 => SgrParam::Named { role: Role::Bg, n: (c - 100) as u8, bright: true },
            _ => return None,
        });
    }
    Some(out)
}

fn role_strategy() -> BoxedStrategy<Role> {
    prop_oneof![3 => Just(Role::Fg), 3 => Just(Role::Bg), 1 => Just(Role::Ul)].boxed()
}

pub fn param_strategy() -> BoxedStrategy<SgrParam> {
    let rgb_form = prop_oneof![1 => Just(RgbForm::ColonCs), 1 => Just(RgbForm::Colon), 2 => Just(RgbForm::Semi)];
    let idx_form = prop_oneof![Just(IdxForm::Colon), Just(IdxForm::Semi)];
    let comp = prop_oneof![2 => proptest::sample::select(vec![0u8, 1, 2, 5, 9, 127, 128, 254, 255]), 3 => any::<u8>()];
    prop_oneof![
        2 => Just(SgrParam::Reset),
        1 => Just(SgrParam::Empty),
        2 => Just(SgrParam::Bold),
        2 => Just(SgrParam::BoldOff),
        2 => Just(SgrParam::Italic),
        2 => Just(SgrParam::ItalicOff),
        2 => Just(SgrParam::Underline),
        3 => (0u8..=5).prop_map(SgrParam::UnderlineSub),
        1 => Just(SgrParam::DoubleUnderline),
        2 => Just(SgrParam::UnderlineOff),
        2 => Just(SgrParam::Blink),
        2 => Just(SgrParam::BlinkOff),
        2 => Just(SgrParam::Strike),
        2 => Just(SgrParam::StrikeOff),
        4 => (prop_oneof![Just(Role::Fg), Just(Role::Bg)], 0u8..=7, any::<bool>()).prop_map(|(role, n, bright)| SgrParam::Named { role, n, bright }),
        8 => (role_strategy(), [comp.clone(), comp.clone(), comp], rgb_form).prop_map(|(role, rgb, form)| SgrParam::Rgb { role, rgb, form }),
        5 => (role_strategy(), any::<u8>(), idx_form).prop_map(|(role, n, form)| SgrParam::Idx { role, n, form }),
    ]
    .boxed()
}

/// 1..=5 parameters; `nonempty_only`: never produce a list that prints as the empty string
pub fn params_strategy(_nonempty_only: bool) -> BoxedStrategy<Vec<SgrParam>> {
    proptest::collection::vec(param_strategy(), 1..=5).boxed()
}
