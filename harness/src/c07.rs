//! C07 — surface views are exact, non-aliasing windows onto their parent surface.
//!
//! Model: the base surface is a matrix of unique ids; a chain of `view(rows, cols)` /
//! `transpose` steps is applied both to the library surface (through several carriers:
//! owned nested views, `&mut` re-borrows, `&` borrows, `Arc`) and to a plain matrix of base
//! coordinates (Python slicing from C08's reference resolver + list transpose).  Every access
//! operation is then compared, and after every mutation the WHOLE base matrix is compared.

use crate::c08::{self, Form, Ty};
use crate::engine::*;
use proptest::prelude::*;
use serde::{Deserialize, Serialize};
use std::collections::HashSet;
use std::sync::Arc;
use surf_n_term::surface::ViewBounds;
use surf_n_term::{Position, Size, Surface, SurfaceMut, SurfaceOwned};

pub struct C07;

#[derive(Clone, Copy, Debug, Serialize, Deserialize)]
pub struct Sel {
    pub form: Form,
    pub ty: Ty,
    pub a: i128,
    pub b: i128,
}

impl ViewBounds for Sel {
    fn view_bounds(self, size: usize) -> Option<(usize, usize)> {
        // delegate to the library's implementation for the concrete selector type
        c08::call(self.ty, self.form, self.a, self.b, size)
    }
}

impl Sel {
    fn model(&self, n: usize) -> Option<(usize, usize)> {
        c08::reference(n as u64, self.form, self.a, self.b)
    }
}

/// Selector as generated: resolved against the axis length it meets at interpretation time, so
/// that most windows are non-empty (construction instead of rejection).
#[derive(Clone, Copy, Debug, Serialize, Deserialize)]
pub struct RawSel {
    pub form: Form,
    pub ty: Ty,
    pub pa: u16,
    pub pb: u16,
    /// 0..=5 in-range non-empty selection, 6 anywhere in [-n-2, n+2], 7 far outside
    pub mode: u8,
    /// write in-range bounds as negative (from-the-end) numbers when the type is signed
    pub neg: bool,
}

impl RawSel {
    fn realize(&self, n: usize) -> Sel {
        let n = n as i128;
        let signed = self.ty.range().0 < 0;
        let (mut a, mut b);
        match self.mode {
            0..=5 if n > 0 => {
                let s = (self.pa as i128 * n) >> 16; // 0..n-1
                let e = s + 1 + ((self.pb as i128 * (n - s)) >> 16); // s+1..=n
                a = s;
                b = match self.form {
                    Form::Incl | Form::ToIncl => e - 1,
                    _ => e,
                };
                if signed && self.neg {
                    a -= n;
                    if b < n {
                        b -= n;
                    }
                }
            }
            7 => {
                a = (self.pa as i128 - 32768) * 1_000_003;
                b = (self.pb as i128 - 32768) * 1_000_003;
            }
            _ => {
                a = ((self.pa as i128 * (2 * n + 5)) >> 16) - n - 2;
                b = ((self.pb as i128 * (2 * n + 5)) >> 16) - n - 2;
            }
        }
        let (lo, hi) = self.ty.range();
        let fix = |v: i128| if v < lo { (-v).min(hi) } else { v.min(hi) };
        Sel { form: self.form, ty: self.ty, a: fix(a), b: fix(b) }
    }
}

#[derive(Clone, Debug, Serialize, Deserialize)]
pub enum RawStep {
    View { rows: RawSel, cols: RawSel, owned: bool },
    Transpose,
}

fn realize_steps(h: usize, w: usize, raw: &[RawStep]) -> Vec<Step> {
    let mut dims = (h, w);
    let mut out = Vec::new();
    for r in raw {
        match r {
            RawStep::View { rows, cols, owned } => {
                let step = Step::View { rows: rows.realize(dims.0), cols: cols.realize(dims.1), owned: *owned };
                dims = model_dims(dims.0, dims.1, std::slice::from_ref(&step));
                out.push(step);
            }
            RawStep::Transpose => {
                dims = (dims.1, dims.0);
                out.push(Step::Transpose);
            }
        }
    }
    out
}

#[derive(Clone, Debug, Serialize, Deserialize)]
pub enum Step {
    /// `owned`: use view_owned on the (re)borrow instead of view/view_mut
    View { rows: Sel, cols: Sel, owned: bool },
    Transpose,
}

#[derive(Clone, Copy, Debug, PartialEq, Eq, Serialize, Deserialize)]
pub enum Carrier {
    /// Box<dyn SurfaceMut> re-boxed after every view_owned/transpose (nested owned views)
    OwnedChain,
    /// `&mut` re-borrows (view_mut / view_owned on `&mut S`)
    MutBorrow,
    /// `&` borrows (view / view_owned on `&S`), read-only
    SharedBorrow,
    /// Arc<SurfaceOwned> at the root, read-only
    ArcRoot,
}

#[derive(Clone, Debug, Serialize, Deserialize)]
pub enum Access {
    Reads,
    IterMutWrite,
    GetMutAll,
    SetAll,
    Fill,
    FillWith,
    Clear,
    Insert { row: usize, col: usize, count: usize },
    NthJumps { jumps: Vec<usize> },
}

#[derive(Clone, Debug, Serialize, Deserialize)]
pub struct RawCase {
    pub height: usize,
    pub width: usize,
    pub steps: Vec<RawStep>,
    pub carrier: Carrier,
    pub access: Access,
}

/// interpreted case (selectors resolved to concrete numbers)
#[derive(Clone, Debug)]
pub struct Case {
    pub height: usize,
    pub width: usize,
    pub steps: Vec<Step>,
    pub carrier: Carrier,
    pub access: Access,
}

type Id = u32;
type DynS<'a> = dyn Surface<Item = Id> + 'a;
type DynM<'a> = dyn SurfaceMut<Item = Id> + 'a;

/// window = matrix of base offsets (row-major index into the base data)
type Window = Vec<Vec<usize>>;

fn model_window(h: usize, w: usize, steps: &[Step]) -> Window {
    let mut win: Window = (0..h).map(|r| (0..w).map(|c| r * w + c).collect()).collect();
    // an h x 0 matrix keeps its height in the library's Shape; track dims explicitly
    let mut dims = (h, w);
    for step in steps {
        match step {
            Step::View { rows, cols, .. } => {
                match (rows.model(dims.0), cols.model(dims.1)) {
                    (Some((rs, re)), Some((cs, ce))) => {
                        win = win[rs..re].iter().map(|row| row[cs..ce].to_vec()).collect();
                        dims = (re - rs, ce - cs);
                    }
                    _ => {
                        // empty selection: the library reports a 0x0 surface
                        win = Vec::new();
                        dims = (0, 0);
                    }
                }
            }
            Step::Transpose => {
                let (hh, ww) = dims;
                let mut t: Window = (0..ww).map(|_| Vec::with_capacity(hh)).collect();
                for row in &win {
                    for (c, v) in row.iter().enumerate() {
                        t[c].push(*v);
                    }
                }
                win = t;
                dims = (ww, hh);
            }
        }
    }
    // normalise to exactly dims.0 rows
    while win.len() < dims.0 {
        win.push(Vec::new());
    }
    win
}

fn model_dims(h: usize, w: usize, steps: &[Step]) -> (usize, usize) {
    let mut dims = (h, w);
    for step in steps {
        match step {
            Step::View { rows, cols, .. } => match (rows.model(dims.0), cols.model(dims.1)) {
                (Some((rs, re)), Some((cs, ce))) => dims = (re - rs, ce - cs),
                _ => dims = (0, 0),
            },
            Step::Transpose => dims = (dims.1, dims.0),
        }
    }
    dims
}

// ---- carriers -------------------------------------------------------------------------

fn with_mut_borrow(surf: &mut DynM<'_>, steps: &[Step], k: &mut dyn FnMut(&mut DynM<'_>)) {
    match steps.split_first() {
        None => k(surf),
        Some((Step::View { rows, cols, owned }, rest)) => {
            if *owned {
                let mut v = Surface::view_owned(surf, *rows, *cols);
                with_mut_borrow(&mut v, rest, k)
            } else {
                let mut s = surf;
                let mut v = SurfaceMut::view_mut(&mut s, *rows, *cols);
                with_mut_borrow(&mut v, rest, k)
            }
        }
        Some((Step::Transpose, rest)) => {
            let mut v = Surface::transpose(surf);
            with_mut_borrow(&mut v, rest, k)
        }
    }
}

fn with_shared_borrow(surf: &DynS<'_>, steps: &[Step], k: &mut dyn FnMut(&DynS<'_>)) {
    match steps.split_first() {
        None => k(surf),
        Some((Step::View { rows, cols, owned }, rest)) => {
            if *owned {
                let v = Surface::view_owned(surf, *rows, *cols);
                with_shared_borrow(&v, rest, k)
            } else {
                let v = Surface::view(&surf, *rows, *cols);
                with_shared_borrow(&v, rest, k)
            }
        }
        Some((Step::Transpose, rest)) => {
            let v = Surface::transpose(surf);
            with_shared_borrow(&v, rest, k)
        }
    }
}

fn owned_chain(base: SurfaceOwned<Id>, steps: &[Step]) -> Box<DynM<'static>> {
    let mut cur: Box<DynM<'static>> = Box::new(base);
    for step in steps {
        cur = match step {
            Step::View { rows, cols, .. } => Box::new(Surface::view_owned(cur, *rows, *cols)),
            Step::Transpose => Box::new(Surface::transpose(cur)),
        };
    }
    cur
}

// ---- oracles --------------------------------------------------------------------------

fn flat(win: &Window) -> Vec<usize> {
    win.iter().flatten().copied().collect()
}

fn check_reads(surf: &DynS<'_>, win: &Window, dims: (usize, usize), base: &[Id], case: &Case) -> Result<(), Fail> {
    let (h, w) = dims;
    ensure!(
        surf.height() == h && surf.width() == w && surf.size() == Size::new(h, w),
        "shape/size",
        "size {:?}, model {}x{}; {:?}",
        surf.size(),
        h,
        w,
        case
    );
    ensure!(
        surf.is_empty() == (h == 0 || w == 0),
        "shape/is_empty",
        "is_empty={} for model {}x{}; {:?}",
        surf.is_empty(),
        h,
        w,
        case
    );
    // get at every position of a (h+2)x(w+2) box
    for r in 0..h + 2 {
        for c in 0..w + 2 {
            let got = surf.get(Position::new(r, c)).copied();
            let want = if r < h && c < w { Some(base[win[r][c]]) } else { None };
            ensure!(
                got == want,
                "get/value",
                "get({r},{c}) = {:?}, model {:?}; {:?}",
                got,
                want,
                case
            );
        }
    }
    // iteration: exactly h*w items, row-major
    let want: Vec<Id> = flat(win).iter().map(|&o| base[o]).collect();
    let got: Vec<Id> = surf.iter().copied().collect();
    ensure!(got == want, "iter/values", "iter = {:?}, model {:?}; {:?}", got, want, case);
    let got_pos: Vec<(Position, Id)> = surf.iter().with_position().map(|(p, v)| (p, *v)).collect();
    let want_pos: Vec<(Position, Id)> = (0..h)
        .flat_map(|r| (0..w).map(move |c| (r, c)))
        .map(|(r, c)| (Position::new(r, c), base[win[r][c]]))
        .collect();
    ensure!(
        got_pos == want_pos,
        "iter/positions",
        "with_position = {:?}, model {:?}; {:?}",
        got_pos,
        want_pos,
        case
    );
    // to_owned_surf / hash
    let owned = surf.to_owned_surf();
    ensure!(
        owned.size() == Size::new(h, w) && owned.iter().copied().collect::<Vec<_>>() == want,
        "to_owned/values",
        "to_owned_surf differs from the model; {:?}",
        case
    );
    let fresh = SurfaceOwned::new_with(Size::new(h, w), |p| base[win[p.row][p.col]]);
    ensure!(
        Surface::hash(surf) == Surface::hash(&fresh),
        "hash/equal-windows",
        "hash of the window differs from the hash of an equal owned surface; {:?}",
        case
    );
    Ok(())
}

fn base_snapshot(h: usize, w: usize) -> Vec<Id> {
    (0..h * w).map(|i| i as Id + 1).collect()
}

fn apply_mutation(
    surf: &mut DynM<'_>,
    win: &Window,
    dims: (usize, usize),
    model: &mut [Id],
    base_addr: usize,
    case: &Case,
) -> Result<(), Fail> {
    let (h, w) = dims;
    let offs = flat(win);
    let newval = |i: usize| 1000 + i as Id;
    match &case.access {
        Access::Reads | Access::NthJumps { .. } => {}
        Access::IterMutWrite => {
            // collect ALL references first, then write: no two may alias
            let refs: Vec<&mut Id> = surf.iter_mut().collect();
            ensure!(
                refs.len() == offs.len(),
                "iter_mut/count",
                "iter_mut yielded {} items, model {}; {:?}",
                refs.len(),
                offs.len(),
                case
            );
            let mut seen = HashSet::new();
            for (i, r) in refs.iter().enumerate() {
                let addr = (&**r) as *const Id as usize;
                ensure!(
                    seen.insert(addr),
                    "iter_mut/alias",
                    "iter_mut handed out two references to the same cell (item {i}); {:?}",
                    case
                );
                let want = base_addr + offs[i] * std::mem::size_of::<Id>();
                ensure!(
                    addr == want,
                    "iter_mut/address",
                    "iter_mut item {i} points at offset {}, model offset {}; {:?}",
                    (addr.wrapping_sub(base_addr)) / std::mem::size_of::<Id>(),
                    offs[i],
                    case
                );
            }
            for (i, r) in refs.into_iter().enumerate() {
                *r = newval(i);
                model[offs[i]] = newval(i);
            }
            // positions variant
            let n = surf.iter_mut().with_position().count();
            ensure!(n == offs.len(), "iter_mut/count", "with_position count {n}; {:?}", case);
        }
        Access::GetMutAll => {
            for r in 0..h + 1 {
                for c in 0..w + 1 {
                    let inside = r < h && c < w;
                    match surf.get_mut(Position::new(r, c)) {
                        Some(cell) => {
                            ensure!(inside, "get_mut/outside", "get_mut({r},{c}) is Some outside the window; {:?}", case);
                            *cell = newval(r * w + c);
                            model[win[r][c]] = newval(r * w + c);
                        }
                        None => {
                            ensure!(!inside, "get_mut/inside-none", "get_mut({r},{c}) is None inside the window; {:?}", case);
                        }
                    }
                }
            }
        }
        Access::SetAll => {
            for r in 0..h {
                for c in 0..w {
                    let old = surf.set(Position::new(r, c), newval(r * w + c));
                    ensure!(
                        old == model[win[r][c]],
                        "set/returned-old",
                        "set({r},{c}) returned {old}, model {}; {:?}",
                        model[win[r][c]],
                        case
                    );
                    model[win[r][c]] = newval(r * w + c);
                }
            }
        }
        Access::Fill => {
            surf.fill(777);
            offs.iter().for_each(|&o| model[o] = 777);
        }
        Access::FillWith => {
            let mut s = surf;
            SurfaceMut::fill_with(&mut s, |pos, old| old * 7 + (pos.row * 31 + pos.col) as Id + 1);
            for r in 0..h {
                for c in 0..w {
                    let o = win[r][c];
                    model[o] = model[o] * 7 + (r * 31 + c) as Id + 1;
                }
            }
        }
        Access::Clear => {
            surf.clear();
            offs.iter().for_each(|&o| model[o] = 0);
        }
        Access::Insert { row, col, count } => {
            // the position may lie up to two rows past the end of the window: then nothing (or
            // only the part that still fits) is written
            let (row, col) = if h == 0 || w == 0 { (0, 0) } else { (row % (h + 2), col % w) };
            let start = row * w + col;
            let items: Vec<Id> = (0..*count).map(newval).collect();
            let mut s = surf;
            SurfaceMut::insert(&mut s, Position::new(row, col), items.clone());
            for (i, v) in items.into_iter().enumerate() {
                if let Some(&o) = offs.get(start + i) {
                    model[o] = v;
                }
            }
        }
    }
    Ok(())
}

fn check_nth(surf: &DynS<'_>, win: &Window, base: &[Id], jumps: &[usize], case: &Case) -> Result<(), Fail> {
    let vals: Vec<Id> = flat(win).iter().map(|&o| base[o]).collect();
    let mut it = surf.iter();
    let mut idx = 0usize;
    for &j in jumps {
        let got = it.nth(j).copied();
        idx += j + 1;
        let want = vals.get(idx - 1).copied();
        ensure!(
            got == want,
            "iter/nth",
            "nth({j}) reaching item {} = {:?}, model {:?}; {:?}",
            idx - 1,
            got,
            want,
            case
        );
        // Iterator::nth consumes the skipped elements even when it overshoots: once it has
        // returned None the iterator is exhausted and the following calls must stay None
    }
    Ok(())
}

fn run_case(case: &Case) -> Outcome {
    let (h, w) = (case.height, case.width);
    let win = model_window(h, w, &case.steps);
    let dims = model_dims(h, w, &case.steps);
    let mut model = base_snapshot(h, w);
    let mut base = SurfaceOwned::new_with(Size::new(h, w), |p| (p.row * w + p.col) as Id + 1);
    let base_addr = base.data().as_ptr() as usize;
    let mutating = !matches!(case.access, Access::Reads | Access::NthJumps { .. });
    let mut result: Result<(), Fail> = Ok(());

    let final_base: Vec<Id> = match case.carrier {
        Carrier::OwnedChain => {
            let mut top = owned_chain(base, &case.steps);
            let before = model.clone();
            result = check_reads(&*top, &win, dims, &before, case);
            if result.is_ok() {
                if let Access::NthJumps { jumps } = &case.access {
                    result = check_nth(&*top, &win, &before, jumps, case);
                }
            }
            if result.is_ok() {
                result = apply_mutation(&mut *top, &win, dims, &mut model, base_addr, case);
            }
            if result.is_ok() && mutating {
                result = check_reads(&*top, &win, dims, &model, case);
            }
            top.data().to_vec()
        }
        Carrier::MutBorrow => {
            {
                let before = model.clone();
                let res = &mut result;
                let model_ref = &mut model;
                with_mut_borrow(&mut base, &case.steps, &mut |surf| {
                    *res = check_reads(&*surf, &win, dims, &before, case);
                    if res.is_ok() {
                        if let Access::NthJumps { jumps } = &case.access {
                            *res = check_nth(&*surf, &win, &before, jumps, case);
                        }
                    }
                    if res.is_ok() {
                        *res = apply_mutation(surf, &win, dims, model_ref, base_addr, case);
                    }
                    if res.is_ok() && mutating {
                        *res = check_reads(&*surf, &win, dims, model_ref, case);
                    }
                });
            }
            base.data().to_vec()
        }
        Carrier::SharedBorrow => {
            {
                let res = &mut result;
                let before = model.clone();
                with_shared_borrow(&base, &case.steps, &mut |surf| {
                    *res = check_reads(surf, &win, dims, &before, case);
                    if res.is_ok() {
                        if let Access::NthJumps { jumps } = &case.access {
                            *res = check_nth(surf, &win, &before, jumps, case);
                        }
                    }
                });
            }
            base.data().to_vec()
        }
        Carrier::ArcRoot => {
            let arc = Arc::new(base);
            {
                let res = &mut result;
                let before = model.clone();
                let root: Arc<SurfaceOwned<Id>> = arc.clone();
                with_shared_borrow(&root, &case.steps, &mut |surf| {
                    *res = check_reads(surf, &win, dims, &before, case);
                });
                // map through a typed Arc carrier
                let mapped = Surface::map(&arc, |pos, v| (*v, pos));
                if res.is_ok() && (mapped.size() != Size::new(h, w)) {
                    *res = Err(Fail::new("map/size", format!("map size {:?}; {:?}", mapped.size(), case)));
                }
            }
            arc.data().to_vec()
        }
    };
    result?;
    // nothing outside the window changed, everything inside did exactly once
    ensure!(
        final_base == model,
        "mutation/base-matrix",
        "after {:?} the base matrix is {:?}, model {:?}; {:?}",
        case.access,
        final_base,
        model,
        case
    );
    // `map` over the final window for borrowed carriers is covered in check_reads via to_owned;
    let strided = case.steps.iter().any(|s| matches!(s, Step::Transpose))
        || (dims.0 * dims.1 > 0 && dims.0 * dims.1 < h * w);
    let nontrivial = case.steps.len() >= 2 && strided && dims.0 * dims.1 > 0 && dims.0 * dims.1 < h * w;
    Ok(Pass::new(nontrivial)
        .label(format!("{:?}", case.carrier))
        .label(match &case.access {
            Access::Insert { .. } => "Insert".to_string(),
            Access::NthJumps { .. } => "NthJumps".to_string(),
            a => format!("{a:?}"),
        })
        .label_if(dims.0 * dims.1 == 0, "empty-window")
        .label_if(case.steps.iter().any(|s| matches!(s, Step::Transpose)), "transposed")
        .label_if(case.steps.len() >= 3, "chain>=3"))
}

fn sel_strategy() -> BoxedStrategy<RawSel> {
    let form = prop_oneof![
        2 => Just(Form::Index),
        4 => Just(Form::Range),
        2 => Just(Form::From),
        2 => Just(Form::To),
        2 => Just(Form::Incl),
        1 => Just(Form::ToIncl),
        3 => Just(Form::Full),
    ];
    (form, proptest::sample::select(c08::ALL_TYS.to_vec()), any::<u16>(), any::<u16>(), prop_oneof![14 => Just(0u8), 1 => Just(6u8), 1 => Just(7u8)], any::<bool>())
        .prop_map(|(form, ty, pa, pb, mode, neg)| RawSel { form, ty, pa, pb, mode, neg })
        .boxed()
}

#[allow(dead_code)]
fn sel_strategy_old() -> BoxedStrategy<Sel> {
    let form = prop_oneof![
        2 => Just(Form::Index),
        4 => Just(Form::Range),
        2 => Just(Form::From),
        2 => Just(Form::To),
        2 => Just(Form::Incl),
        1 => Just(Form::ToIncl),
        3 => Just(Form::Full),
    ];
    let small = -9i128..=9;
    (form, proptest::sample::select(c08::ALL_TYS.to_vec()), small.clone(), small, any::<bool>())
        .prop_map(|(form, ty, a, b, widen)| {
            // keep the numeric value inside the chosen type: unsigned types get |x|
            let fix = |v: i128| if ty.fits(v) { v } else { v.abs() };
            let (mut a, mut b) = (fix(a), fix(b));
            if form == Form::Range && widen && a > b && a >= 0 && b >= 0 {
                std::mem::swap(&mut a, &mut b);
            }
            Sel { form, ty, a, b }
        })
        .boxed()
}

impl Property for C07 {
    type Case = RawCase;

    fn fuzz(&self) -> Option<FuzzSpec> {
        // entropy-driven target: libFuzzer's bytes replace the generator's random numbers
        Some(FuzzSpec { target: "gen", jobs: 8, runs: 1_000_000, max_len: 1024, seeds: 64 })
    }

    fn id(&self) -> &'static str {
        "C07"
    }

    fn strategy(&self, tier: Tier) -> BoxedStrategy<RawCase> {
        let max = tier.pick(7usize, 16usize);
        let step = prop_oneof![
            3 => (sel_strategy(), sel_strategy(), any::<bool>()).prop_map(|(rows, cols, owned)| RawStep::View { rows, cols, owned }),
            1 => Just(RawStep::Transpose),
        ];
        let carrier = prop_oneof![
            3 => Just(Carrier::OwnedChain),
            3 => Just(Carrier::MutBorrow),
            2 => Just(Carrier::SharedBorrow),
            1 => Just(Carrier::ArcRoot),
        ];
        let access = prop_oneof![
            2 => Just(Access::Reads),
            3 => Just(Access::IterMutWrite),
            1 => Just(Access::GetMutAll),
            1 => Just(Access::SetAll),
            1 => Just(Access::Fill),
            1 => Just(Access::FillWith),
            1 => Just(Access::Clear),
            2 => (0usize..8, 0usize..8, 0usize..12).prop_map(|(row, col, count)| Access::Insert { row, col, count }),
            2 => proptest::collection::vec(0usize..5, 1..6).prop_map(|jumps| Access::NthJumps { jumps }),
        ];
        let dim = move || prop_oneof![1 => 0usize..=1, 7 => 2usize..=max];
        (
            dim(),
            dim(),
            proptest::collection::vec(step, 0..=5),
            carrier,
            access,
        )
            .prop_map(|(height, width, steps, carrier, access)| RawCase {
                height,
                width,
                steps,
                carrier,
                access,
            })
            .boxed()
    }

    fn check(&self, raw: &RawCase) -> Outcome {
        let case = Case {
            height: raw.height,
            width: raw.width,
            steps: realize_steps(raw.height, raw.width, &raw.steps),
            carrier: raw.carrier,
            access: raw.access.clone(),
        };
        run_case(&case)
    }

    fn cases(&self, tier: Tier) -> u32 {
        tier.pick(150_000, 1_500_000)
    }

    fn rule(&self) -> String {
        "base matrix h x w (0..=7, thorough 0..=16) of unique ids; program = 0..=5 steps of view(rows, cols) (every selector form, every integer type, bounds resolved against the axis they meet: 87% in-range non-empty (optionally written from the end), 6% anywhere in [-n-2,n+2], 6% far outside; via view/view_mut or view_owned) or transpose; carrier in {nested owned views re-boxed as dyn, &mut re-borrows, & borrows, Arc root}; one access op out of reads / iter_mut (all references collected first, addresses compared) / get_mut / set / fill / fill_with / clear / insert / nth-jumps. Model = matrix of base offsets sliced with the Python-slice reference and list transpose; compares size, is_empty, get on an (h+2)x(w+2) box, iteration with positions, to_owned, hash, and after a mutation the whole base matrix. non-trivial = >=2 steps incl. a transpose or a proper sub-window, window non-empty and strictly smaller than the base".into()
    }

    fn assumptions(&self) -> Vec<String> {
        vec![
            "selector resolution follows C08's reference (checked separately by C08)".into(),
            "`set` is exercised at positions inside the window only (outside is a debug assertion); `insert` starts at a column inside the window and a row up to two rows past its end (linear row-major position; items past the end are dropped); an overshooting `Iterator::nth` exhausts the iterator as the std contract says".into(),
            "the non-aliasing clause is decided as pairwise-distinct addresses equal to the model's cell addresses, not as an aliasing-model (Stacked Borrows) verdict".into(),
        ]
    }
}
