//! C20 — colours reduced for 256-colour and grey terminals are the closest available ones.
//!
//! Observation: `TerminalCommand::Face` / `TerminalCommand::FaceModify` are encoded with
//! `TTYEncoder` under each colour depth and the emitted `ESC [ … m` is parsed with an SGR
//! parser written from ECMA-48/xterm (`;` and `:` forms of 38/48/58, basic colours, reset).
//!
//! Oracles
//! * 256 colours: brute force over the 240 non-system entries of the xterm palette
//!   (6x6x6 cube on levels 0,95,135,175,215,255; 24 greys 8+10*i).  The chosen index `n`
//!   must be in 16..=255 and `d(c, entry[n]) <= min_k d(c, entry[k]) + TAU`, `d` = Euclidean
//!   distance of the `LinColor::from(RGBA)` values (public `rasterize` conversion), f64.
//! * grey: luma written independently (same definition as `rasterize::Color::luma`); the
//!   level (30<90<37<97, bg +10) is the nearest of {0,1/3,2/3,1} (either neighbour inside
//!   +-0.01 of a midpoint), black -> first, white -> last, monotone in luma (pairwise in
//!   generated cases, globally in the sweep); underline colour emits nothing.
//! * true colour: the direct-colour parameters carry exactly the requested r, g, b.

use crate::engine::*;
use proptest::prelude::*;
use serde::{Deserialize, Serialize};
use std::sync::OnceLock;
use surf_n_term::encoder::{ColorDepth, Encoder, TTYEncoder};
use surf_n_term::{
    Face, FaceAttrs, FaceModify, LinColor, RGBA, TerminalCaps, TerminalCommand, UnderlineStyle,
};

pub struct C20;

/// tolerance on the distance excess over the optimum (linear-light units, range 0..sqrt(3))
pub const TAU: f64 = 2e-5;
/// half-width of the band around a luminance midpoint in which either neighbour is accepted
pub const BAND: f64 = 1e-3;
/// the boundary between grey level k and k+1 may lie anywhere between the midpoint of the
/// evenly spaced levels (k/3) and the midpoint of the two-digit levels 0, 0.33, 0.66, 1 the
/// library (and anyone rounding thirds to two digits) uses, widened by `BAND` for f32 rounding
pub const GREY_BOUNDARY: [(f64, f64); 3] = [(0.165 - BAND, 1.0 / 6.0 + BAND), (0.495 - BAND, 0.5 + BAND), (0.83 - BAND, 5.0 / 6.0 + BAND)];
/// two colours are ordered by luma only if their f64 lumas differ by more than this
/// (the library evaluates luma in f32: absolute error < 3e-7 per colour)
pub const LUMA_EPS: f64 = 2e-6;

#[derive(Clone, Copy, Debug, PartialEq, Eq, Serialize, Deserialize)]
pub enum Depth {
    TrueColor,
    EightBit,
    Gray,
}

pub const DEPTHS: [Depth; 3] = [Depth::TrueColor, Depth::EightBit, Depth::Gray];

impl Depth {
    fn lib(self) -> ColorDepth {
        match self {
            Depth::TrueColor => ColorDepth::TrueColor,
            Depth::EightBit => ColorDepth::EightBit,
            Depth::Gray => ColorDepth::Gray,
        }
    }
    fn idx(self) -> usize {
        self as usize
    }
}

/// which colour slot of which command carries the colour under test
#[derive(Clone, Copy, Debug, PartialEq, Eq, Serialize, Deserialize)]
pub enum Slot {
    FaceFg,
    FaceBg,
    ModifyFg,
    ModifyBg,
    ModifyUnderline,
}

pub const SLOTS: [Slot; 5] = [
    Slot::FaceFg,
    Slot::FaceBg,
    Slot::ModifyFg,
    Slot::ModifyBg,
    Slot::ModifyUnderline,
];

#[derive(Clone, Copy, Debug, PartialEq, Eq)]
pub enum Role {
    Fg = 0,
    Bg = 1,
    Underline = 2,
}

const ROLES: [Role; 3] = [Role::Fg, Role::Bg, Role::Underline];

impl Slot {
    pub fn role(self) -> Role {
        match self {
            Slot::FaceFg | Slot::ModifyFg => Role::Fg,
            Slot::FaceBg | Slot::ModifyBg => Role::Bg,
            Slot::ModifyUnderline => Role::Underline,
        }
    }
    fn is_face(self) -> bool {
        matches!(self, Slot::FaceFg | Slot::FaceBg)
    }
}

#[derive(Clone, Debug, Serialize, Deserialize)]
pub struct Case {
    /// the colour under test (opaque)
    pub color: [u8; 3],
    /// second colour: monotonicity partner on grey depth; with `companion` it also fills
    /// the other colour slots of the same command
    pub other: [u8; 3],
    pub companion: bool,
    pub slot: Slot,
    pub depth: Depth,
    /// style attributes riding along: `attrs % 6` underline style, `attrs / 6` flag bits
    pub attrs: u8,
    /// history: the same encoder has first encoded a face whose colours are this translucent
    /// version (alpha, same RGB as `color` or the RGB of `other`) -- what an encoder produced
    /// for an earlier, different colour must not influence an opaque colour encoded later
    #[serde(default)]
    pub prelude: Option<(u8, bool)>,
}

// ---------------------------------------------------------------------------------------
// reference palette and metric

pub const CUBE_LEVELS: [u8; 6] = [0, 95, 135, 175, 215, 255];

pub struct Tables {
    /// linear-light value of every 8-bit channel value, per channel, from the public API
    pub lin: [[f64; 256]; 3],
    /// entry k <-> palette index 16 + k
    pub entries: Vec<[u8; 3]>,
    pub entry_lin: Vec<[f64; 3]>,
}

/// `LinColor::from(RGBA)` through the public API; opaque, so premultiplied == straight
pub fn lin_of(c: [u8; 3]) -> [f64; 3] {
    let l: [f32; 4] = LinColor::from(RGBA::new(c[0], c[1], c[2], 255)).into();
    [l[0] as f64, l[1] as f64, l[2] as f64]
}

pub fn tables() -> &'static Tables {
    static T: OnceLock<Tables> = OnceLock::new();
    T.get_or_init(|| {
        let mut lin = [[0.0f64; 256]; 3];
        for v in 0..256usize {
            let l = lin_of([v as u8, v as u8, v as u8]);
            for ch in 0..3 {
                lin[ch][v] = l[ch];
            }
        }
        let mut entries = Vec::with_capacity(240);
        for r in 0..6 {
            for g in 0..6 {
                for b in 0..6 {
                    entries.push([CUBE_LEVELS[r], CUBE_LEVELS[g], CUBE_LEVELS[b]]);
                }
            }
        }
        for i in 0..24u8 {
            let v = 8 + 10 * i;
            entries.push([v, v, v]);
        }
        let entry_lin = entries.iter().map(|e| lin_of(*e)).collect();
        Tables {
            lin,
            entries,
            entry_lin,
        }
    })
}

impl Tables {
    fn lin_fast(&self, c: [u8; 3]) -> [f64; 3] {
        [
            self.lin[0][c[0] as usize],
            self.lin[1][c[1] as usize],
            self.lin[2][c[2] as usize],
        ]
    }
}

pub fn is_palette(c: [u8; 3]) -> bool {
    let cube = c.iter().all(|v| CUBE_LEVELS.contains(v));
    let grey = c[0] == c[1] && c[1] == c[2] && (8..=238).contains(&c[0]) && (c[0] - 8) % 10 == 0;
    cube || grey
}

fn dist2(a: [f64; 3], b: [f64; 3]) -> f64 {
    let d0 = a[0] - b[0];
    let d1 = a[1] - b[1];
    let d2 = a[2] - b[2];
    d0 * d0 + d1 * d1 + d2 * d2
}

/// brute force: (minimal distance, entry achieving it) over all 240 entries
fn brute(t: &Tables, lin: [f64; 3]) -> (f64, usize) {
    let mut best = f64::INFINITY;
    let mut arg = 0;
    for (k, e) in t.entry_lin.iter().enumerate() {
        let d = dist2(lin, *e);
        if d < best {
            best = d;
            arg = k;
        }
    }
    (best.sqrt(), arg)
}

/// Assumption: same definition as `rasterize::Color::luma` (Rec.709 weights applied to the
/// gamma-encoded channel values / 255), written independently and evaluated in f64.
pub fn luma(c: [u8; 3]) -> f64 {
    0.2126 * (c[0] as f64 / 255.0) + 0.7152 * (c[1] as f64 / 255.0) + 0.0722 * (c[2] as f64 / 255.0)
}

// ---------------------------------------------------------------------------------------
// SGR parser (ECMA-48 / xterm), colour part

#[derive(Clone, Copy, Debug, PartialEq, Eq)]
pub enum Spec {
    /// 30-37, 90-97, 40-47, 100-107 (raw parameter)
    Basic(u32),
    Indexed(u32),
    Rgb(u32, u32, u32),
}

fn num(s: &[u8]) -> Result<u32, String> {
    if s.is_empty() {
        return Ok(0);
    }
    let mut v: u32 = 0;
    for b in s {
        if !b.is_ascii_digit() {
            return Err(format!("non-digit byte 0x{b:02x} in SGR parameter"));
        }
        v = v
            .checked_mul(10)
            .and_then(|v| v.checked_add((b - b'0') as u32))
            .ok_or("SGR parameter overflows u32")?;
    }
    Ok(v)
}

/// Parse the encoder output: empty, or exactly one `ESC [ params m`.  Returns the colour in
/// effect for fg, bg, underline after the sequence (later parameters override earlier ones,
/// `0` resets) — `None` = not set by this sequence.
pub fn parse_sgr(out: &[u8]) -> Result<[Option<Spec>; 3], String> {
    let mut res = [None; 3];
    if out.is_empty() {
        return Ok(res);
    }
    let body = out
        .strip_prefix(b"\x1b[")
        .and_then(|b| b.strip_suffix(b"m"))
        .ok_or("output is not `ESC [ ... m`")?;
    if let Some(b) = body
        .iter()
        .find(|b| !(b.is_ascii_digit() || **b == b';' || **b == b':'))
    {
        return Err(format!("byte 0x{b:02x} inside the SGR sequence"));
    }
    let mut params = body.split(|b| *b == b';');
    while let Some(p) = params.next() {
        let mut subs = [0u32; 8];
        let mut nsubs = 0;
        for s in p.split(|b| *b == b':') {
            if nsubs == subs.len() {
                return Err("too many sub-parameters".into());
            }
            subs[nsubs] = num(s)?;
            nsubs += 1;
        }
        let head = subs[0];
        match head {
            0 if nsubs == 1 => res = [None; 3],
            38 | 48 | 58 => {
                let role = match head {
                    38 => Role::Fg,
                    48 => Role::Bg,
                    _ => Role::Underline,
                };
                let spec = if nsubs > 1 {
                    // colon form: 38:5:n | 38:2:r:g:b | 38:2:cs:r:g:b
                    match (subs[1], nsubs) {
                        (5, 3) => Spec::Indexed(subs[2]),
                        (2, 5) => Spec::Rgb(subs[2], subs[3], subs[4]),
                        (2, 6) => Spec::Rgb(subs[3], subs[4], subs[5]),
                        _ => return Err(format!("malformed colon colour parameter {head}")),
                    }
                } else {
                    // semicolon form: 38;5;n | 38;2;r;g;b (no colour-space field)
                    let mut next = || -> Result<u32, String> {
                        let p = params
                            .next()
                            .ok_or(format!("colour parameter {head} is truncated"))?;
                        if p.contains(&b':') {
                            return Err(format!("sub-parameters inside a `;` colour {head}"));
                        }
                        num(p)
                    };
                    match next()? {
                        5 => Spec::Indexed(next()?),
                        2 => {
                            let r = next()?;
                            let g = next()?;
                            let b = next()?;
                            Spec::Rgb(r, g, b)
                        }
                        m => return Err(format!("colour parameter {head} with unknown mode {m}")),
                    }
                };
                res[role as usize] = Some(spec);
            }
            30..=37 | 90..=97 if nsubs == 1 => res[Role::Fg as usize] = Some(Spec::Basic(head)),
            40..=47 | 100..=107 if nsubs == 1 => res[Role::Bg as usize] = Some(Spec::Basic(head)),
            39 if nsubs == 1 => res[Role::Fg as usize] = None,
            49 if nsubs == 1 => res[Role::Bg as usize] = None,
            59 if nsubs == 1 => res[Role::Underline as usize] = None,
            _ => {} // attributes (1,3,4,4:x,5,7,9,2x): not this property's business
        }
    }
    Ok(res)
}

// ---------------------------------------------------------------------------------------
// observation

pub struct Ctx {
    encs: [TTYEncoder; 3],
    buf: Vec<u8>,
    buf2: Vec<u8>,
}

impl Ctx {
    pub fn new() -> Self {
        Self::with_default_ctor(false)
    }

    /// `via_default`: the 256-colour encoder is obtained through `TTYEncoder::default()` instead
    /// of `TTYEncoder::new(caps)` (the default capabilities ARE 256 colours, no glyphs, no kitty
    /// keyboard: both constructions denote the same encoder and must reduce colours alike)
    pub fn with_default_ctor(via_default: bool) -> Self {
        let dc = TerminalCaps::default();
        let same = matches!(dc.depth, ColorDepth::EightBit) && !dc.glyphs && !dc.kitty_keyboard;
        let mut ctx = Self::plain();
        if via_default && same {
            ctx.encs[Depth::EightBit.idx()] = TTYEncoder::default();
        }
        ctx
    }

    fn plain() -> Self {
        let mk = |d: Depth| {
            TTYEncoder::new(TerminalCaps {
                depth: d.lib(),
                glyphs: false,
                kitty_keyboard: false,
            })
        };
        Self {
            encs: [mk(Depth::TrueColor), mk(Depth::EightBit), mk(Depth::Gray)],
            buf: Vec::with_capacity(64),
            buf2: Vec::with_capacity(64),
        }
    }
}

fn rgba(c: [u8; 3]) -> RGBA {
    RGBA::new(c[0], c[1], c[2], 255)
}

fn face_attrs(a: u8) -> FaceAttrs {
    let mut attrs = match a % 6 {
        1 => FaceAttrs::UNDERLINE,
        2 => FaceAttrs::UNDERLINE_DOUBLE,
        3 => FaceAttrs::UNDERLINE_CURLY,
        4 => FaceAttrs::UNDERLINE_DOTTED,
        5 => FaceAttrs::UNDERLINE_DASHED,
        _ => FaceAttrs::EMPTY,
    };
    let flags = a / 6;
    for (bit, f) in [
        FaceAttrs::BOLD,
        FaceAttrs::ITALIC,
        FaceAttrs::BLINK,
        FaceAttrs::REVERSE,
        FaceAttrs::STRIKE,
    ]
    .into_iter()
    .enumerate()
    {
        if flags & (1 << bit) != 0 {
            attrs = attrs.insert(f);
        }
    }
    attrs
}

/// colour given to `role` by the command built for (color, companion, slot)
fn colour_of_role(color: [u8; 3], companion: Option<[u8; 3]>, slot: Slot, role: Role) -> Option<[u8; 3]> {
    if role == slot.role() {
        Some(color)
    } else if slot.is_face() && role == Role::Underline {
        None // Face has no underline colour
    } else {
        companion
    }
}

fn command(
    color: [u8; 3],
    companion: Option<[u8; 3]>,
    slot: Slot,
    attrs: u8,
    with_underline_colour: bool,
) -> TerminalCommand {
    let col = |role| {
        if role == Role::Underline && !with_underline_colour {
            return None;
        }
        colour_of_role(color, companion, slot, role).map(rgba)
    };
    if slot.is_face() {
        TerminalCommand::Face(Face::new(col(Role::Fg), col(Role::Bg), face_attrs(attrs)))
    } else {
        let flags = attrs / 6;
        let flag = |bit: u8| {
            if flags & (1 << bit) != 0 {
                Some(flags & (1 << (bit + 1)) != 0)
            } else {
                None
            }
        };
        TerminalCommand::FaceModify(FaceModify {
            reset: flags & 16 != 0,
            fg: col(Role::Fg),
            bg: col(Role::Bg),
            underline: match attrs % 6 {
                1 => Some(UnderlineStyle::Straight),
                2 => Some(UnderlineStyle::Double),
                3 => Some(UnderlineStyle::Curly),
                4 => Some(UnderlineStyle::Dotted),
                5 => Some(UnderlineStyle::None),
                _ => None,
            },
            underline_color: col(Role::Underline),
            bold: flag(0),
            italic: flag(1),
            blink: flag(2),
            strike: None,
        })
    }
}

/// encode the command and parse the emitted SGR
fn observe(
    ctx: &mut Ctx,
    color: [u8; 3],
    companion: Option<[u8; 3]>,
    slot: Slot,
    depth: Depth,
    attrs: u8,
) -> Result<[Option<Spec>; 3], Fail> {
    let cmd = command(color, companion, slot, attrs, true);
    ctx.buf.clear();
    let Ctx { encs, buf, .. } = ctx;
    let enc = &mut encs[depth.idx()];
    let r = guard_val(|| enc.encode(&mut *buf, cmd))?;
    if let Err(e) = r {
        return Err(Fail::new(
            "encode/error",
            format!("encoding {slot:?} colour {color:?} at {depth:?} returned an error: {e}"),
        ));
    }
    // grey depth cannot express an underline colour: the command must encode exactly as the
    // same command without one ("emits nothing")
    if depth == Depth::Gray
        && !slot.is_face()
        && colour_of_role(color, companion, slot, Role::Underline).is_some()
    {
        let cmd = command(color, companion, slot, attrs, false);
        let Ctx { encs, buf2, .. } = ctx;
        buf2.clear();
        let enc = &mut encs[depth.idx()];
        let r = guard_val(|| enc.encode(&mut *buf2, cmd))?;
        if let Err(e) = r {
            return Err(Fail::new(
                "encode/error",
                format!("encoding {slot:?} at {depth:?} without underline colour returned an error: {e}"),
            ));
        }
        ensure!(
            ctx.buf == ctx.buf2,
            "gray/underline-colour-emitted",
            "grey depth, {slot:?}: underline colour changes the output from {:?} to {:?} (colour {color:?}, companion {companion:?})",
            String::from_utf8_lossy(&ctx.buf2),
            String::from_utf8_lossy(&ctx.buf)
        );
    }
    parse_sgr(&ctx.buf).map_err(|e| {
        Fail::new(
            "parse/not-one-sgr-sequence",
            format!(
                "{slot:?} colour {color:?} at {depth:?}: emitted {:?}: {e}",
                String::from_utf8_lossy(&ctx.buf)
            ),
        )
    })
}

// ---------------------------------------------------------------------------------------
// oracle

#[derive(Clone, Copy, Debug)]
pub enum Verdict {
    /// 256 colours: index, distance excess over the optimum, chosen entry is on the grey ramp
    Indexed { n: u32, excess: f64, ramp: bool },
    /// grey depth: level 0..=3 and whether luma lies in a midpoint band
    Level { level: u8, band: bool },
    /// grey depth, underline colour: nothing emitted
    Silent,
    True,
}

fn grey_level(role: Role, code: u32) -> Option<u8> {
    let base = match role {
        Role::Fg => 0,
        Role::Bg => 10,
        Role::Underline => return None,
    };
    match code.checked_sub(base)? {
        30 => Some(0),
        90 => Some(1),
        37 => Some(2),
        97 => Some(3),
        _ => None,
    }
}

fn kind(k: usize) -> &'static str {
    if k < 216 { "cube" } else { "ramp" }
}

/// Decide one (colour, role, depth) observation.  `lin` = linear-light value of `color`.
fn judge(
    t: &Tables,
    color: [u8; 3],
    lin: [f64; 3],
    role: Role,
    depth: Depth,
    spec: Option<Spec>,
) -> Result<Verdict, Fail> {
    match depth {
        Depth::TrueColor => match spec {
            Some(Spec::Rgb(r, g, b)) => {
                ensure!(
                    [r, g, b] == [color[0] as u32, color[1] as u32, color[2] as u32],
                    format!("true/{role:?}/colour-changed"),
                    "true colour, {role:?} {color:?}: transmitted as {r};{g};{b}"
                );
                Ok(Verdict::True)
            }
            other => Err(Fail::new(
                format!("true/{role:?}/not-direct-colour"),
                format!("true colour, {role:?} {color:?}: expected a direct-colour parameter, parsed {other:?}"),
            )),
        },
        Depth::EightBit => {
            let n = match spec {
                Some(Spec::Indexed(n)) => n,
                other => {
                    return Err(Fail::new(
                        format!("d256/{role:?}/not-indexed-colour"),
                        format!("256 colours, {role:?} {color:?}: expected `;5;n`, parsed {other:?}"),
                    ));
                }
            };
            ensure!(
                (16..=255).contains(&n),
                "d256/index-outside-16..=255",
                "256 colours, {role:?} {color:?}: index {n} is not one of the 240 non-system entries"
            );
            let k = (n - 16) as usize;
            let d = dist2(lin, t.entry_lin[k]).sqrt();
            let (dmin, kbest) = brute(t, lin);
            let excess = d - dmin;
            ensure!(
                excess <= TAU,
                format!("d256/not-nearest/{}-instead-of-{}", kind(k), kind(kbest)),
                "256 colours, {role:?} {color:?}: chose index {n} = {:?} at distance {d:.7}, but index {} = {:?} is at {dmin:.7} (excess {excess:.3e} > tau {TAU:e})",
                t.entries[k],
                kbest + 16,
                t.entries[kbest]
            );
            Ok(Verdict::Indexed {
                n,
                excess,
                ramp: k >= 216,
            })
        }
        Depth::Gray => {
            if role == Role::Underline {
                ensure!(
                    spec.is_none(),
                    "gray/underline-colour-emitted",
                    "grey depth, underline colour {color:?}: expected nothing, parsed {spec:?}"
                );
                return Ok(Verdict::Silent);
            }
            let level = match spec {
                Some(Spec::Basic(code)) => grey_level(role, code),
                _ => None,
            };
            let Some(level) = level else {
                return Err(Fail::new(
                    format!("gray/{role:?}/not-a-grey-level"),
                    format!(
                        "grey depth, {role:?} {color:?}: expected one of {:?}, parsed {spec:?}",
                        if role == Role::Fg { [30, 90, 37, 97] } else { [40, 100, 47, 107] }
                    ),
                ));
            };
            let l = luma(color);
            if color == [0, 0, 0] {
                ensure!(level == 0, "gray/black-not-first-level", "grey depth, {role:?}: black -> level {level}");
            }
            if color == [255, 255, 255] {
                ensure!(level == 3, "gray/white-not-last-level", "grey depth, {role:?}: white -> level {level}");
            }
            // nearest of the evenly spaced levels, either neighbour inside the band
            let off = (l - level as f64 / 3.0).abs();
            let lo = if level == 0 { f64::NEG_INFINITY } else { GREY_BOUNDARY[level as usize - 1].0 };
            let hi = if level == 3 { f64::INFINITY } else { GREY_BOUNDARY[level as usize].1 };
            ensure!(
                lo <= l && l <= hi,
                "gray/not-nearest-level",
                "grey depth, {role:?} {color:?}: luma {l:.5} mapped to level {level} (= {:.4}), which is {off:.4} away; nearest level is {}",
                level as f64 / 3.0,
                (l * 3.0).round()
            );
            let band = GREY_BOUNDARY.iter().any(|(a, b)| *a <= l && l <= *b);
            Ok(Verdict::Level { level, band })
        }
    }
}

fn fail_with_case(c: &Case, f: Fail) -> Fail {
    Fail::new(f.sig, format!("{} [case {:?}]", f.msg, c))
}

pub fn check_case(c: &Case) -> Outcome {
    let t = tables();
    // every other case (by a function of the case) takes its 256-colour encoder from Default
    let mut ctx = Ctx::with_default_ctor((c.color[0] ^ c.color[1] ^ c.color[2] ^ c.attrs) & 1 == 1);
    if let Some((alpha, same_rgb)) = c.prelude {
        // earlier use of the same encoder: a translucent colour in every colour slot
        let rgb = if same_rgb { c.color } else { c.other };
        let col = Some(RGBA::new(rgb[0], rgb[1], rgb[2], alpha));
        let enc = &mut ctx.encs[c.depth.idx()];
        let mut sink = Vec::new();
        let _ = guard_val(|| enc.encode(&mut sink, TerminalCommand::Face(Face::new(col, col, FaceAttrs::EMPTY))))
            .map_err(|f| fail_with_case(c, f))?;
        sink.clear();
        let _ = guard_val(|| {
            enc.encode(&mut sink, TerminalCommand::FaceModify(FaceModify { underline_color: col, ..FaceModify::default() }))
        })
        .map_err(|f| fail_with_case(c, f))?;
    }
    let companion = c.companion.then_some(c.other);
    let specs = observe(&mut ctx, c.color, companion, c.slot, c.depth, c.attrs)
        .map_err(|f| fail_with_case(c, f))?;
    let main_role = c.slot.role();
    let mut main = None;
    for role in ROLES {
        match colour_of_role(c.color, companion, c.slot, role) {
            Some(col) => {
                let v = judge(t, col, lin_of(col), role, c.depth, specs[role as usize])
                    .map_err(|f| fail_with_case(c, f))?;
                if role == main_role {
                    main = Some(v);
                }
            }
            None => {}
        }
    }
    let main = main.expect("the slot's own role always carries a colour");
    let mut pass = Pass::new(!is_palette(c.color))
        .label(format!("{:?}", c.depth))
        .label(format!("{:?}", c.slot))
        .label_if(c.companion, "companion-colours")
        .label_if(c.prelude.is_some(), "encoder-used-before-for-a-translucent-colour")
        .label_if(c.attrs != 0, "with-attributes")
        .label_if(is_palette(c.color), "palette-colour");
    match main {
        Verdict::Indexed { n, excess, ramp } => {
            pass = pass
                .label_if(
                    is_palette(c.color) && t.entries[(n - 16) as usize] == c.color,
                    "d256/palette-colour-keeps-its-own-index",
                )
                .label(if ramp { "d256/grey-ramp" } else { "d256/cube" })
                .label(if excess > 0.0 { "d256/within-tau-not-optimal" } else { "d256/optimal" });
        }
        Verdict::Level { level, band } => {
            pass = pass
                .label(format!("gray/level-{level}"))
                .label_if(band, "gray/midpoint-band");
            // pairwise monotonicity against `other`, encoded alone in the same slot
            let specs2 = observe(&mut ctx, c.other, None, c.slot, c.depth, 0)
                .map_err(|f| fail_with_case(c, f))?;
            let v2 = judge(t, c.other, lin_of(c.other), main_role, c.depth, specs2[main_role as usize])
                .map_err(|f| fail_with_case(c, f))?;
            if let Verdict::Level { level: level2, .. } = v2 {
                let (l1, l2) = (luma(c.color), luma(c.other));
                let ordered = (l1 - l2).abs() > LUMA_EPS;
                if ordered {
                    let ok = if l1 < l2 { level <= level2 } else { level >= level2 };
                    ensure!(
                        ok,
                        "gray/not-monotone",
                        "grey depth, {:?}: {:?} (luma {l1:.6}) -> level {level} but {:?} (luma {l2:.6}) -> level {level2} [case {:?}]",
                        main_role,
                        c.color,
                        c.other,
                        c
                    );
                    pass = pass.label(if level == level2 {
                        "gray/pair-same-level"
                    } else {
                        "gray/pair-different-levels"
                    });
                }
            }
        }
        Verdict::Silent => pass = pass.label("gray/underline-silent"),
        Verdict::True => pass = pass.label("true/unchanged"),
    }
    Ok(pass)
}

// ---------------------------------------------------------------------------------------
// sweep

const L_TRUE: usize = 0;
const L_CUBE: usize = 1;
const L_RAMP: usize = 2;
const L_OPT: usize = 3;
const L_SUBOPT: usize = 4;
const L_LEVEL0: usize = 5; // ..=8
const L_BAND: usize = 9;
const L_SILENT: usize = 10;
const L_PALETTE: usize = 11;
const N_LABELS: usize = 12;
const LABEL_NAMES: [&str; N_LABELS] = [
    "sweep/true/unchanged",
    "sweep/d256/cube",
    "sweep/d256/grey-ramp",
    "sweep/d256/optimal",
    "sweep/d256/within-tau-not-optimal",
    "sweep/gray/level-0",
    "sweep/gray/level-1",
    "sweep/gray/level-2",
    "sweep/gray/level-3",
    "sweep/gray/midpoint-band",
    "sweep/gray/underline-silent",
    "sweep/palette-colour",
];

#[derive(Clone, Copy)]
struct Extent {
    min: f64,
    min_at: [u8; 3],
    max: f64,
    max_at: [u8; 3],
}

impl Extent {
    const EMPTY: Extent = Extent {
        min: f64::INFINITY,
        min_at: [0; 3],
        max: f64::NEG_INFINITY,
        max_at: [0; 3],
    };
    fn add(&mut self, l: f64, c: [u8; 3]) {
        if l < self.min {
            self.min = l;
            self.min_at = c;
        }
        if l > self.max {
            self.max = l;
            self.max_at = c;
        }
    }
    fn merge(&mut self, o: &Extent) {
        if o.min < self.min {
            self.min = o.min;
            self.min_at = o.min_at;
        }
        if o.max > self.max {
            self.max = o.max;
            self.max_at = o.max_at;
        }
    }
}

struct Acc {
    evals: u64,
    nontrivial: u64,
    labels: [u64; N_LABELS],
    max_excess: f64,
    max_excess_at: [u8; 3],
    /// luma extent of every grey level, per slot
    extent: [[Extent; 4]; 5],
    fail: Option<(u64, Case, Fail)>,
}

impl Acc {
    fn new() -> Self {
        Acc {
            evals: 0,
            nontrivial: 0,
            labels: [0; N_LABELS],
            max_excess: 0.0,
            max_excess_at: [0; 3],
            extent: [[Extent::EMPTY; 4]; 5],
            fail: None,
        }
    }
}

/// all (slot, depth) observations of the colours `ord .. ord+len` of `colour_at`
fn sweep_chunk(colour_at: &(dyn Fn(u64) -> [u8; 3] + Sync), start: u64, end: u64) -> Acc {
    let t = tables();
    // sweeps: odd chunks take the 256-colour encoder from `TTYEncoder::default()`
    let mut ctx = Ctx::with_default_ctor((start / 4096) % 2 == 1 || start % 2 == 1);
    let mut acc = Acc::new();
    for ord in start..end {
        let color = colour_at(ord);
        let lin = t.lin_fast(color);
        let palette = is_palette(color);
        for (si, slot) in SLOTS.into_iter().enumerate() {
            let role = slot.role();
            for depth in DEPTHS {
                let r = observe(&mut ctx, color, None, slot, depth, 0)
                    .and_then(|specs| judge(t, color, lin, role, depth, specs[role as usize]));
                acc.evals += 1;
                if !palette {
                    acc.nontrivial += 1;
                } else {
                    acc.labels[L_PALETTE] += 1;
                }
                match r {
                    Ok(Verdict::True) => acc.labels[L_TRUE] += 1,
                    Ok(Verdict::Indexed { excess, ramp, .. }) => {
                        acc.labels[if ramp { L_RAMP } else { L_CUBE }] += 1;
                        acc.labels[if excess > 0.0 { L_SUBOPT } else { L_OPT }] += 1;
                        if excess > acc.max_excess {
                            acc.max_excess = excess;
                            acc.max_excess_at = color;
                        }
                    }
                    Ok(Verdict::Level { level, band }) => {
                        acc.labels[L_LEVEL0 + level as usize] += 1;
                        if band {
                            acc.labels[L_BAND] += 1;
                        }
                        acc.extent[si][level as usize].add(luma(color), color);
                    }
                    Ok(Verdict::Silent) => acc.labels[L_SILENT] += 1,
                    Err(f) => {
                        let case = Case {
                            color,
                            other: color,
                            companion: false,
                            slot,
                            depth,
                            attrs: 0,
                            prelude: None,
                        };
                        let f = fail_with_case(&case, f);
                        acc.fail = Some((ord, case, f));
                        return acc;
                    }
                }
            }
        }
    }
    acc
}

fn quick_colours() -> Vec<[u8; 3]> {
    let mut v: Vec<[u8; 3]> = Vec::new();
    // 16^3 lattice
    for r in 0..16u16 {
        for g in 0..16u16 {
            for b in 0..16u16 {
                v.push([(r * 17) as u8, (g * 17) as u8, (b * 17) as u8]);
            }
        }
    }
    // every palette entry +-1 per channel
    for e in &tables().entries {
        for dr in -1i16..=1 {
            for dg in -1i16..=1 {
                for db in -1i16..=1 {
                    let ch = |v: u8, d: i16| (v as i16 + d).clamp(0, 255) as u8;
                    v.push([ch(e[0], dr), ch(e[1], dg), ch(e[2], db)]);
                }
            }
        }
    }
    // every grey
    for g in 0..=255u8 {
        v.push([g, g, g]);
    }
    v.sort();
    v.dedup();
    v
}

fn run_sweep(tier: Tier, sw: &mut Sweep) -> Result<(), (Case, Fail)> {
    let quick = quick_colours();
    let (total, colour_at): (u64, Box<dyn Fn(u64) -> [u8; 3] + Sync>) = match tier {
        Tier::Quick => {
            let q = quick.clone();
            (q.len() as u64, Box::new(move |i| q[i as usize]))
        }
        Tier::Thorough => (
            1 << 24,
            Box::new(|i| [(i >> 16) as u8, (i >> 8) as u8, i as u8]),
        ),
    };
    const THREADS: u64 = 16;
    let per = total.div_ceil(THREADS);
    let colour_at = &*colour_at;
    let accs: Vec<Acc> = std::thread::scope(|s| {
        let handles: Vec<_> = (0..THREADS)
            .map(|i| {
                let start = (i * per).min(total);
                let end = ((i + 1) * per).min(total);
                s.spawn(move || sweep_chunk(colour_at, start, end))
            })
            .collect();
        handles
            .into_iter()
            .map(|h| h.join().expect("sweep thread"))
            .collect()
    });

    let mut first_fail: Option<(u64, Case, Fail)> = None;
    let mut extent = [[Extent::EMPTY; 4]; 5];
    let mut max_excess = 0.0f64;
    let mut max_excess_at = [0u8; 3];
    for a in accs {
        sw.evaluations += a.evals;
        sw.nontrivial += a.nontrivial;
        for (i, n) in a.labels.iter().enumerate() {
            if *n > 0 {
                *sw.labels.entry(LABEL_NAMES[i].to_string()).or_default() += n;
            }
        }
        if a.max_excess > max_excess {
            max_excess = a.max_excess;
            max_excess_at = a.max_excess_at;
        }
        for s in 0..5 {
            for l in 0..4 {
                extent[s][l].merge(&a.extent[s][l]);
            }
        }
        if let Some(f) = a.fail {
            if first_fail.as_ref().map(|g| f.0 < g.0).unwrap_or(true) {
                first_fail = Some(f);
            }
        }
    }
    if let Some((_, case, fail)) = first_fail {
        return Err((case, fail));
    }

    // global monotonicity over the swept domain: every colour of a lower level has luma
    // <= every colour of a higher level (up to the f32 evaluation error of the library)
    for (si, slot) in SLOTS.into_iter().enumerate() {
        for lo in 0..4 {
            for hi in lo + 1..4 {
                let (a, b) = (&extent[si][lo], &extent[si][hi]);
                if a.max.is_finite() && b.min.is_finite() && a.max > b.min + LUMA_EPS {
                    let case = Case {
                        color: a.max_at,
                        other: b.min_at,
                        companion: false,
                        slot,
                        depth: Depth::Gray,
                        attrs: 0,
                        prelude: None,
                    };
                    let fail = Fail::new(
                        "gray/not-monotone",
                        format!(
                            "grey depth, {slot:?}: {:?} (luma {:.6}) -> level {lo} but {:?} (luma {:.6}) -> level {hi} [case {case:?}]",
                            a.max_at, a.max, b.min_at, b.min
                        ),
                    );
                    return Err((case, fail));
                }
            }
        }
    }
    // levels must be used in order of their first appearance as luma grows (already implied
    // above); record the observed thresholds for the evidence file
    let thresholds: Vec<serde_json::Value> = (0..3)
        .map(|l| {
            serde_json::json!({
                "between_levels": [l, l + 1],
                "max_luma_of_lower": extent[0][l].max,
                "min_luma_of_upper": extent[0][l + 1].min,
            })
        })
        .collect();
    sw.samples.push(serde_json::json!({
        "d256_max_excess_over_optimum": max_excess,
        "d256_max_excess_at": max_excess_at,
        "tau": TAU,
        "gray_observed_thresholds_FaceFg": thresholds,
    }));
    if tier == Tier::Thorough {
        sw.exhaustive_note = Some(
            "all 2^24 opaque colours x {Face fg, Face bg, FaceModify fg, FaceModify bg, FaceModify underline colour} x {TrueColor, EightBit, Gray}; grey-level monotonicity checked globally over all 2^24 colours".into(),
        );
    }
    Ok(())
}

// ---------------------------------------------------------------------------------------
// generator

/// channel values where the nearest cube level / grey-ramp level changes (reference palette)
fn boundary_values() -> Vec<u8> {
    let t = tables();
    let mut out = Vec::new();
    let mut levels: Vec<u8> = CUBE_LEVELS.to_vec();
    levels.extend((0..24u8).map(|i| 8 + 10 * i));
    levels.sort();
    for set in [CUBE_LEVELS.to_vec(), levels] {
        for w in set.windows(2) {
            let mid = (t.lin[0][w[0] as usize] + t.lin[0][w[1] as usize]) / 2.0;
            if let Some(v) = (0..=255u8).find(|v| t.lin[0][*v as usize] >= mid) {
                out.push(v);
            }
        }
    }
    out.sort();
    out.dedup();
    out
}

fn shift(v: u8, d: i8) -> u8 {
    (v as i16 + d as i16).clamp(0, 255) as u8
}

fn shift3(c: [u8; 3], d: [i8; 3]) -> [u8; 3] {
    [shift(c[0], d[0]), shift(c[1], d[1]), shift(c[2], d[2])]
}

fn delta3(r: i8) -> BoxedStrategy<[i8; 3]> {
    [-r..=r, -r..=r, -r..=r].boxed()
}

fn channel() -> BoxedStrategy<u8> {
    let mut levels = CUBE_LEVELS.to_vec();
    levels.extend((0..24u8).map(|i| 8 + 10 * i));
    prop_oneof![
        3 => any::<u8>(),
        2 => (proptest::sample::select(boundary_values()), -2i8..=2).prop_map(|(v, d)| shift(v, d)),
        1 => (proptest::sample::select(levels), -1i8..=1).prop_map(|(v, d)| shift(v, d)),
    ]
    .boxed()
}

fn colour() -> BoxedStrategy<[u8; 3]> {
    let entries = tables().entries.clone();
    prop_oneof![
        // uniform over the 2^24 colours
        4 => any::<[u8; 3]>(),
        // channels biased to decision boundaries and palette levels
        3 => [channel(), channel(), channel()],
        // palette entries and their neighbours
        2 => (proptest::sample::select(entries), delta3(2)).prop_map(|(e, d)| shift3(e, d)),
        // greys and near-greys: cube-versus-ramp decision
        3 => (channel(), delta3(6)).prop_map(|(v, d)| shift3([v, v, v], d)),
        // colours whose luma is near a grey-depth threshold: green solved from red, blue
        2 => (
            any::<u8>(),
            any::<u8>(),
            proptest::sample::select(vec![1.0 / 6.0, 0.165, 0.5, 0.495, 5.0 / 6.0, 0.83]),
            -2i8..=2
        )
            .prop_map(|(r, b, target, d)| {
                let g = (target - 0.2126 * (r as f64 / 255.0) - 0.0722 * (b as f64 / 255.0)) / 0.7152;
                let g = (g * 255.0).round().clamp(0.0, 255.0) as u8;
                [r, shift(g, d), b]
            }),
    ]
    .boxed()
}

fn case_strategy() -> BoxedStrategy<Case> {
    let depth = prop_oneof![
        1 => Just(Depth::TrueColor),
        4 => Just(Depth::EightBit),
        3 => Just(Depth::Gray),
    ];
    let attrs = prop_oneof![2 => Just(0u8), 1 => 0u8..192];
    (
        colour(),
        colour(),
        delta3(3),
        any::<bool>(),
        any::<bool>(),
        proptest::sample::select(SLOTS.to_vec()),
        depth,
        attrs,
        proptest::option::weighted(
            0.15,
            (prop_oneof![1 => Just(0u8), 1 => Just(64u8), 1 => Just(128u8), 1 => Just(254u8), 2 => any::<u8>()], proptest::bool::weighted(0.7)),
        ),
    )
        .prop_map(|(color, far, d, near, companion, slot, depth, attrs, prelude)| Case {
            color,
            other: if near { shift3(color, d) } else { far },
            companion,
            slot,
            depth,
            attrs,
            prelude,
        })
        .boxed()
}

impl Property for C20 {
    type Case = Case;

    fn fuzz(&self) -> Option<FuzzSpec> {
        // entropy-driven target: libFuzzer's bytes replace the generator's random numbers
        Some(FuzzSpec { target: "gen", jobs: 8, runs: 1_200_000, max_len: 512, seeds: 64 })
    }

    fn id(&self) -> &'static str {
        "C20"
    }

    fn strategy(&self, _tier: Tier) -> BoxedStrategy<Case> {
        case_strategy()
    }

    fn check(&self, case: &Case) -> Outcome {
        check_case(case)
    }

    fn cases(&self, tier: Tier) -> u32 {
        tier.pick(200_000, 500_000)
    }

    fn rule(&self) -> String {
        format!(
            "sweep (quick): the 16^3 lattice (step 17) + all 240 palette entries +-1 per channel + every grey (v,v,v) = {} distinct colours; \
             sweep (thorough): ALL 2^24 colours; each x 5 slots (Face fg/bg, FaceModify fg/bg/underline colour) x 3 depths, plus global grey-level monotonicity over the swept colours. \
             generated: colour uniform / channel values at nearest-level boundaries of the reference palette / palette entries +-2 / near-greys / luma near a grey threshold; in 15% of the generated cases the encoder has first been used for a translucent colour (alpha 0/64/128/254/any) with the same RGB or with the partner colour's RGB, in all three roles (the sweeps run all colours through one encoder per depth, a history of opaque colours); \
             a second colour (near the first or independent) as monotonicity partner and optional companion in the other colour slots; optional style attributes. \
             non-trivial = the colour is not itself one of the 240 palette entries",
            quick_colours().len()
        )
    }

    fn assumptions(&self) -> Vec<String> {
        vec![
            "metric: Euclidean distance between the r,g,b components of LinColor::from(RGBA) (public rasterize conversion, f32) evaluated in f64; opaque colours, so premultiplied = straight and the alpha term is 0".into(),
            format!("tolerance tau = {TAU:e} on d(chosen) - d(optimum): the library compares against tables rounded to 6 decimals (entry error <= 5e-7, i.e. <= 1e-6 on a distance) in f32 arithmetic, so its choice can exceed the optimum by at most ~3e-6; tau leaves a factor ~7. Measured maximum over all 2^24 colours: see samples (d256_max_excess_over_optimum)"),
            "half of the generated cases and half of the sweep chunks obtain their 256-colour encoder from TTYEncoder::default() instead of TTYEncoder::new(caps): the default capabilities are exactly 256 colours / no glyphs / no kitty keyboard (checked at run time), so both denote the same encoder".into(),
            "xterm palette: indices 16..231 = 6x6x6 cube on levels 0,95,135,175,215,255 (16+36r+6g+b), 232..255 = greys 8+10i; indices 0..15 and the basic colours are never acceptable at 256-colour depth".into(),
            "luma = 0.2126 R + 0.7152 G + 0.0722 B on the gamma-encoded channel values / 255 — the definition of rasterize::Color::luma, which the library uses, rewritten independently in f64 (NOT linear-light luminance)".into(),
            format!("grey levels in increasing order 30<90<37<97 (bg 40<100<47<107) stand for luminances 0, 1/3, 2/3, 1; the boundary between two neighbouring levels may lie anywhere between the midpoint of the exact thirds (1/6, 1/2, 5/6) and the midpoint of the two-digit levels 0.33/0.66 the library uses (0.165, 0.495, 0.83), widened by {BAND} for f32 rounding; inside those three narrow bands either neighbour is accepted, outside them the nearer level is required; monotonicity is required only between colours whose f64 lumas differ by more than {LUMA_EPS:e} (f32 evaluation error)"),
            "sweep uses per-channel linear-light tables built from LinColor::from(RGBA::new(v,v,v,255)) (the conversion is per channel); generated cases convert every colour directly".into(),
            "the emitted colour of a role is the one in effect after the SGR sequence (last parameter wins, 0 resets); both `;` and `:` forms of 38/48/58 are accepted".into(),
            "the sweep in thorough tier makes the statement exhaustive (see exhaustive_scope)".into(),
        ]
    }

    fn sweep(&self, tier: Tier, _seed: u64, sw: &mut Sweep) -> Result<(), (Case, Fail)> {
        run_sweep(tier, sw)
    }
}
