//! Protocol printer: what a terminal legitimately sends (`RefTtyOut`, DESIGN §2.3), with the
//! event each encoding denotes.  Written from the protocol definitions (xterm ctlseqs,
//! fixterms, kitty keyboard/graphics, ECMA-48) plus the *pinned* naming table of the library
//! (which byte sequence is called which key), as the property defers to that table.

use crate::refsgr::{self, SgrParam};
use proptest::prelude::*;
use serde::{Deserialize, Serialize};
use std::collections::{BTreeMap, BTreeSet};
use surf_n_term::terminal::{Mouse, TerminalSize};
use surf_n_term::{
    DecMode, DecModeStatus, Face, Key, KeyMod, KeyName, Position, RGBA, Size, TerminalColor,
    TerminalCommand, TerminalEvent,
};

// ---- serialisable mirror of key names ---------------------------------------------------

#[derive(Clone, Copy, Debug, PartialEq, Eq, Serialize, Deserialize)]
pub enum KName {
    Backspace,
    Char(char),
    Delete,
    Insert,
    Down,
    End,
    Enter,
    Esc,
    F(usize),
    Home,
    Left,
    PageDown,
    PageUp,
    Right,
    Tab,
    Up,
}

impl KName {
    pub fn to_lib(self) -> KeyName {
        match self {
            KName::Backspace => KeyName::Backspace,
            KName::Char(c) => KeyName::Char(c),
            KName::Delete => KeyName::Delete,
            KName::Insert => KeyName::Insert,
            KName::Down => KeyName::Down,
            KName::End => KeyName::End,
            KName::Enter => KeyName::Enter,
            KName::Esc => KeyName::Esc,
            KName::F(n) => KeyName::F(n),
            KName::Home => KeyName::Home,
            KName::Left => KeyName::Left,
            KName::PageDown => KeyName::PageDown,
            KName::PageUp => KeyName::PageUp,
            KName::Right => KeyName::Right,
            KName::Tab => KeyName::Tab,
            KName::Up => KeyName::Up,
        }
    }
}

/// modifier bits in xterm/kitty order: shift=1 alt=2 ctrl=4 super=8 hyper=16 meta=32 caps=64 num=128
pub fn mods_to_lib(bits: u32) -> KeyMod {
    let mut m = KeyMod::EMPTY;
    for (bit, flag) in [
        (1, KeyMod::SHIFT),
        (2, KeyMod::ALT),
        (4, KeyMod::CTRL),
        (8, KeyMod::SUPER),
        (16, KeyMod::HYPER),
        (32, KeyMod::META),
        (64, KeyMod::CAPSLOCK),
        (128, KeyMod::NUMLOCK),
    ] {
        if bits & bit != 0 {
            m |= flag;
        }
    }
    m
}

/// One entry of the pinned legacy naming table: bytes -> (name, modifier bits).
#[derive(Clone, Debug, PartialEq, Eq, Serialize, Deserialize)]
pub struct LegacyKey {
    pub bytes: Vec<u8>,
    pub name: KName,
    pub mods: u32,
    /// the sequence is a bare-ESC-prefixed key that is a proper prefix of longer sequences
    /// (only unambiguous before another ESC)
    pub ambiguous: bool,
}

/// The library's fixed naming table (src/decoder.rs basic_events_nfa), transcribed once.
pub fn legacy_table() -> Vec<LegacyKey> {
    let mut t = Vec::new();
    let mut push = |bytes: Vec<u8>, name: KName, mods: u32| {
        // proper prefixes of longer recognised sequences: ESC itself and the CSI / SS3 / DCS /
        // OSC / APC introducers read as alt+key
        let ambiguous = bytes == [0x1b]
            || (bytes.len() == 2 && bytes[0] == 0x1b && b"[OP]_".contains(&bytes[1]));
        t.push(LegacyKey {
            bytes,
            name,
            mods,
            ambiguous,
        });
    };
    push(vec![0x1b], KName::Esc, 0);
    push(vec![0x7f], KName::Backspace, 0);
    push(vec![0x00], KName::Char(' '), 4);
    for c in b'a'..=b'z' {
        push(vec![0x1b, c], KName::Char(c as char), 2);
        push(vec![c & 0x1f], KName::Char(c as char), 4);
    }
    for c in b'A'..=b'Z' {
        push(vec![0x1b, c], KName::Char((c as char).to_ascii_lowercase()), 2 | 1);
    }
    for c in 0u8..=127 {
        if c.is_ascii_punctuation() || c.is_ascii_digit() {
            push(vec![0x1b, c], KName::Char(c as char), 2);
        }
    }
    let tilde: [(KName, &str); 20] = [
        (KName::Home, "1"),
        (KName::Insert, "2"),
        (KName::Delete, "3"),
        (KName::End, "4"),
        (KName::PageUp, "5"),
        (KName::PageDown, "6"),
        (KName::Insert, "7"),
        (KName::End, "8"),
        (KName::F(1), "11"),
        (KName::F(2), "12"),
        (KName::F(3), "13"),
        (KName::F(4), "14"),
        (KName::F(5), "15"),
        (KName::F(6), "17"),
        (KName::F(7), "18"),
        (KName::F(8), "19"),
        (KName::F(9), "20"),
        (KName::F(10), "21"),
        (KName::F(11), "23"),
        (KName::F(12), "24"),
    ];
    for (name, code) in tilde {
        push(format!("\x1b[{code}~").into_bytes(), name, 0);
        for m in 1..8u32 {
            push(format!("\x1b[{code};{}~", m + 1).into_bytes(), name, m);
        }
    }
    let letters: [(KName, &str, &str); 14] = [
        (KName::Up, "[", "A"),
        (KName::Down, "[", "B"),
        (KName::Right, "[", "C"),
        (KName::Left, "[", "D"),
        (KName::End, "[", "F"),
        (KName::Home, "[", "H"),
        (KName::F(1), "O", "P"),
        (KName::F(1), "[", "P"),
        (KName::F(2), "O", "Q"),
        (KName::F(2), "[", "Q"),
        (KName::F(3), "O", "R"),
        (KName::F(3), "[", "R"),
        (KName::F(4), "O", "S"),
        (KName::F(4), "[", "S"),
    ];
    for (name, intro, fin) in letters {
        push(format!("\x1b{intro}{fin}").into_bytes(), name, 0);
        if intro == "[" {
            for m in 1..8u32 {
                push(format!("\x1b[1;{}{fin}", m + 1).into_bytes(), name, m);
            }
        }
    }
    // de-duplicate identical byte strings (CSI 1;mP listed for both F-key spellings)
    let mut seen = BTreeSet::new();
    t.retain(|k| seen.insert(k.bytes.clone()));
    t
}

// ---- items -----------------------------------------------------------------------------

#[derive(Clone, Copy, Debug, PartialEq, Eq, Serialize, Deserialize)]
pub enum Term {
    St,
    Bel,
}

#[derive(Clone, Debug, PartialEq, Eq, Serialize, Deserialize)]
pub enum ColorFmt {
    /// rgb:h/h/h with `digits` hex digits per component; raw component values
    Rgb { digits: u8, comps: [u16; 3], upper: bool },
    /// #rrggbb
    Hash([u8; 3]),
}

#[derive(Clone, Debug, PartialEq, Eq, Serialize, Deserialize)]
pub enum ColorName {
    Fg,
    Bg,
    Palette(usize),
}

#[derive(Clone, Debug, PartialEq, Eq, Serialize, Deserialize)]
pub enum Item {
    /// index into `legacy_table()`
    Legacy(usize),
    /// printable text (any scalar values except C0 controls, DEL)
    Text(String),
    Mouse { code: u8, x: u32, y: u32, press: bool },
    Cpr { row: u32, col: u32 },
    DecRpm { mode: usize, status: usize },
    Da1(Vec<usize>),
    Sgr(Vec<SgrParam>),
    Decrpss(Vec<SgrParam>),
    Osc { name: ColorName, fmt: ColorFmt, term: Term },
    TermcapOk(Vec<(String, String)>),
    TermcapFail(Vec<String>),
    KittyKey { code: u32, alts: Vec<u32>, mods: Option<u32>, text: Option<u32> },
    KittyLevel(usize),
    KittyImage { id: u32, placement: Option<u32>, error: Option<String>, extra_keys: bool },
    SizePair { cells: (u32, u32), pixels: (u32, u32) },
    Paste(String),
    /// the CSI introducer followed by parameter bytes (digits and `;`) and then a character
    /// that no control sequence can contain (a non-ASCII scalar value): the longer match fails,
    /// the introducer is the alt+[ key (ambiguity resolved in favour of the key) and every byte
    /// behind it is interpreted afresh, in order
    CsiAbandoned { params: String, killer: char },
}

fn hex(s: &str, upper: bool) -> String {
    s.bytes()
        .map(|b| if upper { format!("{b:02X}") } else { format!("{b:02x}") })
        .collect()
}

pub const DEC_MODES: [(usize, DecMode); 9] = [
    (25, DecMode::VisibleCursor),
    (7, DecMode::AutoWrap),
    (80, DecMode::SixelScrolling),
    (1000, DecMode::MouseReport),
    (1003, DecMode::MouseMotions),
    (1006, DecMode::MouseSGR),
    (1049, DecMode::AltScreen),
    (2026, DecMode::SynchronizedOutput),
    (2004, DecMode::BracketedPaste),
];

pub const DEC_STATUS: [(usize, DecModeStatus); 5] = [
    (0, DecModeStatus::NotRecognized),
    (1, DecModeStatus::Enabled),
    (2, DecModeStatus::Disabled),
    (3, DecModeStatus::PermanentlyEnabled),
    (4, DecModeStatus::PermanentlyDisabled),
];

impl Item {
    pub fn family(&self) -> &'static str {
        match self {
            Item::Legacy(_) => "legacy-key",
            Item::Text(_) => "text",
            Item::Mouse { .. } => "mouse",
            Item::Cpr { .. } => "cpr",
            Item::DecRpm { .. } => "decrpm",
            Item::Da1(_) => "da1",
            Item::Sgr(_) => "sgr",
            Item::Decrpss(_) => "decrpss",
            Item::Osc { .. } => "osc-colour",
            Item::TermcapOk(_) | Item::TermcapFail(_) => "termcap",
            Item::KittyKey { .. } => "kitty-key",
            Item::KittyLevel(_) => "kitty-level",
            Item::KittyImage { .. } => "kitty-image",
            Item::SizePair { .. } => "size",
            Item::Paste(_) => "paste",
            Item::CsiAbandoned { .. } => "abandoned-csi",
        }
    }

    pub fn encode(&self, table: &[LegacyKey], out: &mut Vec<u8>) {
        match self {
            Item::Legacy(i) => out.extend(&table[*i].bytes),
            Item::Text(s) | Item::Paste(s) if matches!(self, Item::Text(_)) => out.extend(s.as_bytes()),
            Item::Text(_) => unreachable!(),
            Item::Paste(s) => {
                out.extend(b"\x1b[200~");
                out.extend(s.as_bytes());
                out.extend(b"\x1b[201~");
            }
            Item::CsiAbandoned { params, killer } => {
                out.extend(b"\x1b[");
                out.extend(params.as_bytes());
                let mut buf = [0u8; 4];
                out.extend(killer.encode_utf8(&mut buf).as_bytes());
            }
            Item::Mouse { code, x, y, press } => out.extend(
                format!("\x1b[<{code};{x};{y}{}", if *press { 'M' } else { 'm' }).as_bytes(),
            ),
            Item::Cpr { row, col } => out.extend(format!("\x1b[{row};{col}R").as_bytes()),
            Item::DecRpm { mode, status } => {
                out.extend(format!("\x1b[?{mode};{status}$y").as_bytes())
            }
            Item::Da1(attrs) => {
                let s: Vec<String> = attrs.iter().map(|a| a.to_string()).collect();
                out.extend(format!("\x1b[?{}c", s.join(";")).as_bytes())
            }
            Item::Sgr(params) => {
                out.extend(b"\x1b[");
                out.extend(refsgr::print(params).as_bytes());
                out.push(b'm');
            }
            Item::Decrpss(params) => {
                out.extend(b"\x1bP1$r");
                out.extend(refsgr::print(params).as_bytes());
                out.extend(b"m\x1b\\");
            }
            Item::Osc { name, fmt, term } => {
                out.extend(b"\x1b]");
                match name {
                    ColorName::Fg => out.extend(b"10;"),
                    ColorName::Bg => out.extend(b"11;"),
                    ColorName::Palette(i) => out.extend(format!("4;{i};").as_bytes()),
                }
                match fmt {
                    ColorFmt::Rgb { digits, comps, upper } => {
                        let d = *digits as usize;
                        let f = |v: u16| {
                            if *upper {
                                format!("{v:0d$X}")
                            } else {
                                format!("{v:0d$x}")
                            }
                        };
                        out.extend(
                            format!("rgb:{}/{}/{}", f(comps[0]), f(comps[1]), f(comps[2])).as_bytes(),
                        );
                    }
                    ColorFmt::Hash([r, g, b]) => {
                        out.extend(format!("#{r:02x}{g:02x}{b:02x}").as_bytes())
                    }
                }
                match term {
                    Term::St => out.extend(b"\x1b\\"),
                    Term::Bel => out.push(7),
                }
            }
            Item::TermcapOk(kvs) => {
                out.extend(b"\x1bP1+r");
                let s: Vec<String> = kvs
                    .iter()
                    .enumerate()
                    .map(|(i, (k, v))| format!("{}={}", hex(k, i % 2 == 1), hex(v, i % 2 == 0)))
                    .collect();
                out.extend(s.join(";").as_bytes());
                out.extend(b"\x1b\\");
            }
            Item::TermcapFail(names) => {
                out.extend(b"\x1bP0+r");
                let s: Vec<String> = names.iter().map(|k| hex(k, false)).collect();
                out.extend(s.join(";").as_bytes());
                out.extend(b"\x1b\\");
            }
            Item::KittyKey { code, alts, mods, text } => {
                let mut s = format!("\x1b[{code}");
                for (i, a) in alts.iter().enumerate() {
                    // an omitted alternate key is an EMPTY sub-field (kitty's own example:
                    // `CSI 1089::99;5u`, no shifted key, base-layout key 99)
                    if *a == 0 && i + 1 < alts.len() {
                        s.push(':');
                    } else {
                        s.push_str(&format!(":{a}"));
                    }
                }
                if mods.is_some() || text.is_some() {
                    s.push_str(&format!(";{}", mods.map(|m| m.to_string()).unwrap_or_default()));
                }
                if let Some(t) = text {
                    s.push_str(&format!(";{t}"));
                }
                s.push('u');
                out.extend(s.as_bytes());
            }
            Item::KittyLevel(n) => out.extend(format!("\x1b[?{n}u").as_bytes()),
            Item::KittyImage { id, placement, error, extra_keys } => {
                let mut s = format!("\x1b_Gi={id}");
                if let Some(p) = placement {
                    s.push_str(&format!(",p={p}"));
                }
                if *extra_keys {
                    s.push_str(",I=7");
                }
                s.push(';');
                s.push_str(error.as_deref().unwrap_or("OK"));
                s.push_str("\x1b\\");
                out.extend(s.as_bytes());
            }
            Item::SizePair { cells, pixels } => out.extend(
                format!("\x1b[8;{};{}t\x1b[4;{};{}t", cells.0, cells.1, pixels.0, pixels.1).as_bytes(),
            ),
        }
    }

    /// events these bytes denote
    pub fn expected(&self, table: &[LegacyKey], out: &mut Vec<TerminalEvent>) {
        match self {
            Item::Legacy(i) => {
                let k = &table[*i];
                out.push(TerminalEvent::Key(Key::new(k.name.to_lib(), mods_to_lib(k.mods))));
            }
            Item::Text(s) => {
                for c in s.chars() {
                    out.push(TerminalEvent::Key(KeyName::Char(c).into()));
                }
            }
            Item::Paste(s) => out.push(TerminalEvent::Paste(s.clone())),
            Item::CsiAbandoned { params, killer } => {
                let k = table.iter().find(|k| k.bytes == b"\x1b[").expect("table names the bare CSI introducer");
                out.push(TerminalEvent::Key(Key::new(k.name.to_lib(), mods_to_lib(k.mods))));
                for c in params.chars().chain(std::iter::once(*killer)) {
                    out.push(TerminalEvent::Key(KeyName::Char(c).into()));
                }
            }
            Item::Mouse { code, x, y, press } => {
                let b = *code as usize;
                // pinned naming table of the library for button codes
                let name = if b & 64 != 0 {
                    [
                        KeyName::MouseWheelDown,
                        KeyName::MouseWheelUp,
                        KeyName::MouseMove,
                        KeyName::MouseMove,
                    ][b & 3]
                } else {
                    [
                        KeyName::MouseLeft,
                        KeyName::MouseMiddle,
                        KeyName::MouseRight,
                        KeyName::MouseMove,
                    ][b & 3]
                };
                // xterm: 4=shift 8=meta 16=control
                let mut mode = mods_to_lib(((b >> 2) & 7) as u32);
                if *press {
                    mode |= KeyMod::PRESS;
                }
                out.push(TerminalEvent::Mouse(Mouse {
                    name,
                    mode,
                    pos: Position::new(*y as usize - 1, *x as usize - 1),
                }));
            }
            Item::Cpr { row, col } => out.push(TerminalEvent::CursorPosition(Position::new(
                *row as usize - 1,
                *col as usize - 1,
            ))),
            Item::DecRpm { mode, status } => {
                let mode = DEC_MODES.iter().find(|(n, _)| n == mode).unwrap().1;
                let status = DEC_STATUS.iter().find(|(n, _)| n == status).unwrap().1;
                out.push(TerminalEvent::DecMode { mode, status });
            }
            Item::Da1(attrs) => out.push(TerminalEvent::DeviceAttrs(
                attrs.iter().copied().collect::<BTreeSet<usize>>(),
            )),
            Item::Sgr(params) => out.push(TerminalEvent::Command(TerminalCommand::FaceModify(
                refsgr::to_face_modify(params),
            ))),
            Item::Decrpss(params) => {
                let mut st = refsgr::SgrState::default();
                st.apply_all(params);
                out.push(TerminalEvent::FaceGet(st.to_face()));
            }
            Item::Osc { name, fmt, .. } => {
                let name = match name {
                    ColorName::Fg => TerminalColor::Foreground,
                    ColorName::Bg => TerminalColor::Background,
                    ColorName::Palette(i) => TerminalColor::Palette(*i),
                };
                let color = match fmt {
                    ColorFmt::Hash([r, g, b]) => RGBA::new(*r, *g, *b, 255),
                    ColorFmt::Rgb { digits, comps, .. } => {
                        // exact for 1 and 2 digits; for 3/4 digits see `osc_color_matches`
                        let f = |v: u16| match digits {
                            1 => (v * 17) as u8,
                            2 => v as u8,
                            3 => (v >> 4) as u8,
                            _ => (v >> 8) as u8,
                        };
                        RGBA::new(f(comps[0]), f(comps[1]), f(comps[2]), 255)
                    }
                };
                out.push(TerminalEvent::Color { name, color });
            }
            Item::TermcapOk(kvs) => out.push(TerminalEvent::Termcap(
                kvs.iter()
                    .map(|(k, v)| (k.clone(), Some(v.clone())))
                    .collect::<BTreeMap<_, _>>(),
            )),
            Item::TermcapFail(names) => out.push(TerminalEvent::Termcap(
                names.iter().map(|k| (k.clone(), None)).collect::<BTreeMap<_, _>>(),
            )),
            Item::KittyKey { code, mods, .. } => {
                let name = match *code {
                    27 => KeyName::Esc,
                    13 => KeyName::Enter,
                    9 => KeyName::Tab,
                    127 => KeyName::Backspace,
                    c @ 57376..=57398 => KeyName::F(c as usize - 57376 + 13),
                    c => KeyName::Char(char::from_u32(c).expect("generator yields scalar values")),
                };
                let mode = match mods {
                    Some(m) if *m >= 1 => mods_to_lib(m - 1),
                    _ => KeyMod::EMPTY,
                };
                out.push(TerminalEvent::Key(Key::new(name, mode)));
            }
            Item::KittyLevel(n) => out.push(TerminalEvent::KeyboardLevel(*n)),
            Item::KittyImage { id, placement, error, .. } => out.push(TerminalEvent::KittyImage {
                id: *id as u64,
                placement: placement.map(|p| p as u64),
                error: error.clone(),
            }),
            Item::SizePair { cells, pixels } => out.push(TerminalEvent::Size(TerminalSize {
                cells: Size::new(cells.0 as usize, cells.1 as usize),
                pixels: Size::new(pixels.0 as usize, pixels.1 as usize),
            })),
        }
    }

    /// bare-ESC-prefixed legacy keys are only unambiguous at the end or before another ESC
    pub fn is_ambiguous_legacy(&self, table: &[LegacyKey]) -> bool {
        matches!(self, Item::Legacy(i) if table[*i].ambiguous)
    }

    pub fn boundary_param(&self) -> bool {
        match self {
            Item::Mouse { x, y, .. } => [1u32, 2, 223, 224, 255, 256, 65535].iter().any(|v| v == x || v == y),
            Item::Cpr { row, col } => [1u32, 2, 255, 256, 65535].iter().any(|v| v == row || v == col),
            Item::Osc { fmt: ColorFmt::Rgb { digits, .. }, .. } => *digits != 2,
            Item::KittyKey { code, .. } => *code > 0xffff || *code < 0x80,
            Item::Sgr(p) | Item::Decrpss(p) => p.len() >= 2,
            _ => false,
        }
    }
}

/// For 12/16-bit colour components the property does not fix how to reduce to 8 bits:
/// accept anything between truncation of the top 8 bits and rounded scaling.
pub fn osc_color_matches(fmt: &ColorFmt, got: RGBA) -> bool {
    use surf_n_term::Color;
    let [gr, gg, gb, ga] = got.to_rgba();
    if ga != 255 {
        return false;
    }
    match fmt {
        ColorFmt::Hash([r, g, b]) => [gr, gg, gb] == [*r, *g, *b],
        ColorFmt::Rgb { digits, comps, .. } => {
            let ok = |v: u16, got: u8| -> bool {
                match digits {
                    1 => got as u16 == v * 17,
                    2 => got as u16 == v,
                    d => {
                        let max = if *d == 3 { 0xfffu32 } else { 0xffffu32 };
                        let trunc = if *d == 3 { (v >> 4) as u32 } else { (v >> 8) as u32 };
                        let round = (v as u32 * 255 + max / 2) / max;
                        let lo = trunc.min(round);
                        let hi = trunc.max(round);
                        (lo..=hi).contains(&(got as u32))
                    }
                }
            };
            ok(comps[0], gr) && ok(comps[1], gg) && ok(comps[2], gb)
        }
    }
}

// ---- generators -------------------------------------------------------------------------

fn coord() -> BoxedStrategy<u32> {
    prop_oneof![
        3 => proptest::sample::select(vec![1u32, 2, 3, 80, 223, 224, 255, 256, 257, 999, 1000, 9999, 65534, 65535]),
        3 => 1u32..=300,
        1 => 1u32..=65535,
    ]
    .boxed()
}

/// any scalar value that the event decoder treats as printable text
pub fn text_char() -> BoxedStrategy<char> {
    prop_oneof![
        6 => (0x20u32..=0x7e).prop_map(|c| char::from_u32(c).unwrap()),
        2 => (0x80u32..=0x7ff).prop_map(|c| char::from_u32(c).unwrap()),
        2 => proptest::sample::select(vec!['\u{80}', '\u{9f}', '\u{7ff}', '\u{800}', '\u{d7ff}', '\u{e000}', '\u{fffd}', '\u{ffff}', '\u{10000}', '\u{10ffff}', '世', '🤩', '\u{301}']),
        2 => any::<char>().prop_filter("printable for the decoder", |c| *c >= '\u{80}' || (' '..='~').contains(c)),
    ]
    .boxed()
}

fn ascii_name() -> BoxedStrategy<String> {
    "[A-Za-z0-9]{1,8}".boxed()
}

pub fn item_strategy(table_len: usize) -> BoxedStrategy<Item> {
    let osc_fmt = prop_oneof![
        1 => any::<[u8; 3]>().prop_map(ColorFmt::Hash),
        4 => (1u8..=4, any::<[u16; 3]>(), any::<bool>()).prop_map(|(digits, c, upper)| {
            let mask = match digits { 1 => 0xf, 2 => 0xff, 3 => 0xfff, _ => 0xffff };
            ColorFmt::Rgb { digits, comps: [c[0] & mask, c[1] & mask, c[2] & mask], upper }
        }),
    ];
    let osc_name = prop_oneof![
        Just(ColorName::Fg),
        Just(ColorName::Bg),
        prop_oneof![0usize..=255, 0usize..=100000].prop_map(ColorName::Palette),
    ];
    let kitty_code = prop_oneof![
        2 => proptest::sample::select(vec![27u32, 13, 9, 127, 57376, 57377, 57398, 97, 65, 32, 0x10ffff, 55295, 63744]),
        2 => 57376u32..=57398,
        3 => any::<char>().prop_map(|c| c as u32).prop_filter("not PUA functional range", |c| !(57344..=63743).contains(c)),
    ];
    let msg = "[ -~&&[^\x1b]]{1,24}".prop_filter("not OK", |s| s != "OK");
    prop_oneof![
        6 => (0..table_len).prop_map(Item::Legacy),
        5 => proptest::collection::vec(text_char(), 1..6).prop_map(|v| Item::Text(v.into_iter().collect())),
        4 => (any::<u8>(), coord(), coord(), any::<bool>()).prop_map(|(code, x, y, press)| Item::Mouse { code, x, y, press }),
        3 => (coord(), coord()).prop_map(|(row, col)| Item::Cpr { row, col }),
        2 => (proptest::sample::select(DEC_MODES.map(|m| m.0).to_vec()), 0usize..=4).prop_map(|(mode, status)| Item::DecRpm { mode, status }),
        2 => proptest::collection::vec(prop_oneof![1usize..=100, 1usize..=100000], 1..6).prop_map(Item::Da1),
        5 => refsgr::params_strategy(false).prop_map(Item::Sgr),
        2 => refsgr::params_strategy(false).prop_map(Item::Decrpss),
        3 => (osc_name, osc_fmt, prop_oneof![Just(Term::St), Just(Term::Bel)]).prop_map(|(name, fmt, term)| Item::Osc { name, fmt, term }),
        2 => proptest::collection::vec((ascii_name(), "[ -~]{1,10}"), 0..4).prop_map(Item::TermcapOk),
        1 => proptest::collection::vec(ascii_name(), 1..4).prop_map(Item::TermcapFail),
        5 => (kitty_code, proptest::collection::vec(prop_oneof![Just(0u32), 1u32..200000], 0..3), proptest::option::of(prop_oneof![1u32..=256, Just(1u32), Just(0u32)]), proptest::option::of(1u32..0x10ffff))
            .prop_map(|(code, alts, mods, text)| Item::KittyKey { code, alts, mods, text }),
        1 => prop_oneof![0usize..=31, 0usize..=100000].prop_map(Item::KittyLevel),
        2 => (1u32..=u32::MAX, proptest::option::of(0u32..=u32::MAX), proptest::option::of(msg), any::<bool>())
            .prop_map(|(id, placement, error, extra_keys)| Item::KittyImage { id, placement, error, extra_keys }),
        1 => ((coord(), coord()), (coord(), coord())).prop_map(|(cells, pixels)| Item::SizePair { cells, pixels }),
        2 => proptest::collection::vec(prop_oneof![4 => text_char(), 1 => Just('\n'), 1 => Just('\t'), 1 => Just('\u{7}')], 0..12).prop_map(|v| Item::Paste(v.into_iter().collect())),
        // one sequence longer than any plausible internal buffer (1 KiB, 4 KiB)
        // (one in thirty of these: longer than 64 KiB, so that a read boundary can fall behind
        // any 16-bit limit inside one sequence)
        1 => (prop_oneof![10 => Just(1000usize), 10 => 1020usize..1030, 9 => 2000usize..5000, 1 => 65_530usize..100_000], "[ -~]{1,7}").prop_map(|(n, unit)| {
            Item::Paste(unit.chars().cycle().take(n).collect())
        }),
        2 => ("[0-9;]{0,6}", proptest::sample::select(vec!['\u{e9}', '\u{416}', '\u{4e16}', '\u{1f929}', '\u{80}', '\u{10ffff}']))
            .prop_map(|(params, killer)| Item::CsiAbandoned { params, killer }),
    ]
    .boxed()
}

/// Make a generated item sequence well defined under the property's stated ambiguities:
/// * a bare-ESC-prefixed legacy key may only be followed by end of input or by an item whose
///   encoding starts with ESC;
/// * plain text directly after a sequence ending in a state where it could be absorbed is
///   impossible here because every other item is self-delimiting;
/// * `CSI 1;nR` (n in 2..=8) denotes modified F3, so a cursor report with row 1 and such a
///   column is replaced by the key.
pub fn normalise(items: Vec<Item>, table: &[LegacyKey]) -> Vec<Item> {
    let mut out: Vec<Item> = Vec::new();
    for item in items {
        let item = match item {
            Item::Cpr { row: 1, col } if (2..=8).contains(&col) => {
                let bytes = format!("\x1b[1;{col}R").into_bytes();
                Item::Legacy(table.iter().position(|k| k.bytes == bytes).expect("table has modified F3"))
            }
            other => other,
        };
        if let Some(prev) = out.last() {
            if prev.is_ambiguous_legacy(table) {
                let mut enc = Vec::new();
                item.encode(table, &mut enc);
                if enc.first() != Some(&0x1b) {
                    // drop the ambiguity: skip this item
                    continue;
                }
                // ESC ESC: `ESC` followed by an ESC-introduced item is fine for 2-byte keys; for
                // the lone ESC key the pair `ESC ESC` is not in the table either, so also fine.
            }
            // two adjacent texts are merged semantically; keep as is
        }
        out.push(item);
    }
    // at the very end of input such a key stays pending in the decoder (more bytes could
    // still extend it), so it is not an event yet
    while out.last().map(|i| i.is_ambiguous_legacy(table)).unwrap_or(false) {
        out.pop();
    }
    out
}

#[allow(dead_code)]
pub fn face_default() -> Face {
    Face::default()
}
