//! C02 — input decoding is total: no byte stream can crash it or yield malformed events.
//!
//! Generator: `hostile::input` (raw bytes, grammar-aware hostile skeletons, mutated
//! well-formed output) cut into reads by a generated partition (incl. empty reads), plus a
//! targeted generator for out-of-range SGR colour components.  Runs in a worker process
//! because invalid code points end in a non-unwinding abort, not a panic.
//!
//! Oracles: no panic / abort / non-termination; exhausted input => `Ok(None)` (repeatedly);
//! characters are valid scalar values; raw events are non-empty and equal the input bytes of
//! their span; numeric fields equal the decimal value of their digits, or are clamped, or the
//! sequence is raw — never the true value modulo 2^k; spans tile the consumed input.
//!
//! API schedule (second pass over the same reads, `Case::Stream::api`): every read is handed to
//! the decoder through a generated choice of `decode` (one item per call), `decode_into` appending
//! to ONE long-lived output vector that is reused across all reads, or `decode_into` with a
//! vector that is fresh for that read.  Oracles: the count returned by every `decode_into` call
//! equals the growth of the vector during that call; a further call on the exhausted read (and on
//! an empty read after the last one) reports 0 / `None` and appends nothing; the items collected
//! this way equal those of the plain `decode` loop.

use crate::engine::*;
use crate::hostile;
use crate::refsgr::Role;
use proptest::prelude::*;
use serde::{Deserialize, Serialize};
use surf_n_term::decoder::verif_hooks::{CommandTokenizer, EventTokenizer, Token};
use surf_n_term::decoder::{Decoder, TTYCommandDecoder, TTYEventDecoder, Utf8Decoder};
use surf_n_term::{Color, KeyName, TerminalColor, TerminalCommand, TerminalEvent};

pub struct C02;

#[derive(Clone, Debug, Serialize, Deserialize)]
pub enum Case {
    Stream {
        input: Vec<u8>,
        cuts: Vec<u16>,
        /// API schedule of the second pass: selector of read `i` is `api[i % len]`
        /// (`% 3`: 0 = `decode` loop, 1 = `decode_into` on the long-lived vector, 2 =
        /// `decode_into` on a vector fresh for that read); empty = no second pass
        #[serde(default)]
        api: Vec<u8>,
    },
    /// well-formed SGR colour whose components may exceed 255
    SgrOverflow { role: Role, sep: u8, comps: [u64; 3], cs: bool, tail_bold: bool },
}

fn scalar_ok(c: char) -> bool {
    // read the raw bits: an invalid `char` is UB, do not let the optimiser assume validity
    let v: u32 = std::hint::black_box(unsafe { std::mem::transmute_copy::<char, u32>(&c) });
    v <= 0x10ffff && !(0xd800..=0xdfff).contains(&v)
}

fn esc(b: &[u8]) -> String {
    String::from_utf8_lossy(b).escape_debug().to_string()
}

/// drive a decoder through its public API exactly like the terminal read loop does
fn run_public<D: Decoder>(dec: &mut D, chunks: &[&[u8]], what: &str) -> Result<Vec<D::Item>, Fail>
where
    D::Error: std::fmt::Debug,
{
    let mut out = Vec::new();
    // every call either consumes input or emits an item made of earlier (rescheduled) bytes,
    // so the number of calls is bounded by the total input length
    let total: usize = chunks.iter().map(|c| c.len()).sum();
    let mut steps = 0usize;
    for chunk in chunks {
        let mut cur = std::io::Cursor::new(*chunk);
        loop {
            steps += 1;
            ensure!(
                steps <= 4 * total + 4 * chunks.len() + 16,
                format!("{what}/non-termination"),
                "decode loop did not finish after {steps} calls on {total} bytes of input"
            );
            match dec.decode(&mut cur) {
                Ok(Some(item)) => out.push(item),
                Ok(None) => {
                    ensure!(
                        cur.position() as usize == chunk.len(),
                        format!("{what}/none-before-exhaustion"),
                        "decode returned None with {} unread bytes",
                        chunk.len() - cur.position() as usize
                    );
                    break;
                }
                Err(e) => {
                    return Err(Fail::new(
                        format!("{what}/io-error"),
                        format!("decode returned an error on in-memory input: {e:?}"),
                    ));
                }
            }
        }
    }
    // once the input is exhausted the decoder reports that nothing more is available
    for _ in 0..3 {
        let empty: &[u8] = &[];
        match dec.decode(std::io::Cursor::new(empty)) {
            Ok(None) => {}
            Ok(Some(_)) => {
                return Err(Fail::new(
                    format!("{what}/event-from-empty-read"),
                    "decode on an empty buffer produced an item".to_string(),
                ));
            }
            Err(e) => {
                return Err(Fail::new(format!("{what}/io-error"), format!("{e:?}")));
            }
        }
    }
    Ok(out)
}

/// what the API-schedule pass exercised (for the labels)
#[derive(Default)]
struct ApiStats {
    /// `decode_into` calls (those after the last read not counted)
    into_calls: usize,
    /// `decode_into` calls whose output vector already held items
    into_nonempty: usize,
    /// reads decoded item by item with `decode`
    decode_reads: usize,
    /// reads decoded into a vector fresh for that read
    fresh_reads: usize,
}

/// Second pass: the same reads, each handed over through the API the schedule selects, all
/// items collected in one long-lived vector.  `errors_are_reports`: the decoder reports invalid
/// input as `Err` and decoding goes on with the rest of the read (Utf8Decoder); otherwise an
/// error on in-memory input is a failure (as in `run_public`).
fn run_api_schedule<D: Decoder>(
    dec: &mut D,
    chunks: &[&[u8]],
    api: &[u8],
    what: &str,
    errors_are_reports: bool,
    expect: &[D::Item],
) -> Result<ApiStats, Fail>
where
    D::Error: std::fmt::Debug,
    D::Item: PartialEq + std::fmt::Debug,
{
    let mut stats = ApiStats::default();
    // the long-lived output vector: never cleared, never replaced
    let mut out: Vec<D::Item> = Vec::new();
    let total: usize = chunks.iter().map(|c| c.len()).sum();
    // every call consumes input, emits an item or ends the read (see `run_public`)
    let limit = 8 * total + 8 * chunks.len() + 32;
    let mut steps = 0usize;
    // the count clause is reported after the exhaustion clause (which is the statement's own)
    let mut count_fail: Option<Fail> = None;
    let io_error = |e: &D::Error| {
        Fail::new(format!("{what}/io-error"), format!("decoder returned an error on in-memory input: {e:?}"))
    };
    // one decode_into call on `cur` appending to `vec`; Ok(Some(n)) = returned count
    // (checked against the growth), Ok(None) = reported an error
    let into_call = |dec: &mut D,
                         cur: &mut std::io::Cursor<&[u8]>,
                         vec: &mut Vec<D::Item>,
                         stats: &mut ApiStats,
                         count_fail: &mut Option<Fail>,
                         read: usize|
     -> Result<Option<usize>, Fail> {
        let before = vec.len();
        stats.into_calls += 1;
        if before > 0 {
            stats.into_nonempty += 1;
        }
        match dec.decode_into(&mut *cur, vec) {
            Ok(n) => {
                ensure!(
                    vec.len() >= before,
                    format!("{what}/decode-into-removed-items"),
                    "read {read}: the output vector shrank from {before} to {} items",
                    vec.len()
                );
                let grown = vec.len() - before;
                if n != grown && count_fail.is_none() {
                    *count_fail = Some(Fail::new(
                        format!("{what}/decode-into-count-differs-from-appended"),
                        format!(
                            "read {read}: decode_into returned {n} but appended {grown} item(s) to a vector that held {before}"
                        ),
                    ));
                }
                Ok(Some(n))
            }
            Err(e) if !errors_are_reports => Err(io_error(&e)),
            Err(_) => {
                ensure!(
                    vec.len() >= before,
                    format!("{what}/decode-into-removed-items"),
                    "read {read}: the output vector shrank from {before} to {} items",
                    vec.len()
                );
                Ok(None)
            }
        }
    };
    for (read, chunk) in chunks.iter().enumerate() {
        let sel = api[read % api.len()] % 3;
        let mut cur = std::io::Cursor::new(*chunk);
        let mut fresh: Vec<D::Item> = Vec::new();
        if sel == 0 {
            stats.decode_reads += 1;
        } else if sel == 2 {
            stats.fresh_reads += 1;
        }
        // ---- the read itself
        loop {
            steps += 1;
            ensure!(
                steps <= limit,
                format!("{what}/non-termination"),
                "API-schedule pass did not finish after {steps} calls on {total} bytes of input"
            );
            if sel == 0 {
                match dec.decode(&mut cur) {
                    Ok(Some(item)) => out.push(item),
                    Ok(None) => break,
                    Err(e) if !errors_are_reports => return Err(io_error(&e)),
                    Err(_) => {}
                }
            } else {
                let vec = if sel == 1 { &mut out } else { &mut fresh };
                if into_call(dec, &mut cur, vec, &mut stats, &mut count_fail, read)?.is_some() {
                    break;
                }
            }
        }
        // "all available items": the read is used up when the decoder says it has no more
        ensure!(
            cur.position() as usize == chunk.len(),
            format!("{what}/none-before-exhaustion"),
            "read {read}: the decoder reported the end of the items with {} unread bytes",
            chunk.len() - cur.position() as usize
        );
        // ---- the read is exhausted now: nothing more is available, through either call
        if sel == 0 {
            match dec.decode(&mut cur) {
                Ok(None) => {}
                Ok(Some(item)) => {
                    return Err(Fail::new(
                        format!("{what}/event-from-empty-read"),
                        format!("read {read}: decode on the exhausted read produced {item:?}"),
                    ));
                }
                Err(e) => return Err(io_error(&e)),
            }
        } else {
            let vec = if sel == 1 { &mut out } else { &mut fresh };
            let before = vec.len();
            stats.into_calls += 1;
            if before > 0 {
                stats.into_nonempty += 1;
            }
            match dec.decode_into(&mut cur, vec) {
                Ok(n) => ensure!(
                    n == 0 && vec.len() == before,
                    format!("{what}/decode-into-reports-more-on-exhausted-input"),
                    "read {read}: decode_into on the exhausted read returned {n}, the vector went from {before} to {} item(s); nothing more is available, it must return 0 and append nothing",
                    vec.len()
                ),
                Err(e) => return Err(io_error(&e)),
            }
        }
        out.append(&mut fresh);
    }
    // ---- after the last read: empty reads into the long-lived vector
    for _ in 0..2 {
        let empty: &[u8] = &[];
        let before = out.len();
        match dec.decode_into(std::io::Cursor::new(empty), &mut out) {
            Ok(n) => ensure!(
                n == 0 && out.len() == before,
                format!("{what}/decode-into-reports-more-on-exhausted-input"),
                "decode_into on an empty read after the last one returned {n}, the vector went from {before} to {} item(s); it must return 0 and append nothing",
                out.len()
            ),
            Err(e) => return Err(io_error(&e)),
        }
    }
    if let Some(f) = count_fail {
        return Err(f);
    }
    // decode_into "decodes all available items": same items as the item-by-item loop
    ensure!(
        out.as_slice() == expect,
        format!("{what}/items-depend-on-api"),
        "decode loop produced {:?}, the API schedule {:?} produced {:?}",
        expect,
        api,
        out
    );
    Ok(stats)
}

/// decimal digit runs of a span, as saturating u128
fn digit_runs(s: &[u8]) -> Vec<u128> {
    let mut out = Vec::new();
    let mut cur: Option<u128> = None;
    for &b in s {
        if b.is_ascii_digit() {
            let v = cur.unwrap_or(0);
            cur = Some(v.saturating_mul(10).saturating_add((b - b'0') as u128));
        } else if let Some(v) = cur.take() {
            out.push(v);
        }
    }
    if let Some(v) = cur {
        out.push(v);
    }
    out
}

const UMAX: u128 = usize::MAX as u128;

/// value `v` reported for a 1-based field whose digits denote `n`
fn ok_minus1(v: usize, n: u128) -> bool {
    let v = v as u128;
    if n == 0 {
        v == 0 // clamped
    } else if n <= UMAX {
        v == n - 1
    } else {
        v == UMAX || v == UMAX - 1 // clamped
    }
}

fn ok_plain(v: u128, n: u128, max: u128) -> bool {
    if n <= max { v == n } else { v == max }
}

/// `;`-separated decimal fields of `span[pre..len-post]`; an empty field denotes 0
fn fields(span: &[u8], pre: usize, post: usize) -> Vec<u128> {
    if span.len() < pre + post {
        return Vec::new();
    }
    span[pre..span.len() - post]
        .split(|b| *b == b';')
        .map(|f| digit_runs(f).first().copied().unwrap_or(0))
        .collect()
}

fn numeric_fields(ev: &TerminalEvent, span: &[u8]) -> Result<(), Fail> {
    let runs: Vec<u128> = match ev {
        // ESC [ r ; c R
        TerminalEvent::CursorPosition(_) => fields(span, 2, 1),
        // ESC [ < b ; x ; y M
        TerminalEvent::Mouse(_) => fields(span, 3, 1),
        // ESC [ ? n u
        TerminalEvent::KeyboardLevel(_) => fields(span, 3, 1),
        // ESC [ ? a ; b c
        TerminalEvent::DeviceAttrs(_) => fields(span, 3, 1),
        // ESC [ ? mode ; status $ y
        TerminalEvent::DecMode { .. } => fields(span, 3, 2),
        // ESC ] 4 ; i ; spec
        TerminalEvent::Color { .. } => fields(span, 2, 0).into_iter().take(2).collect(),
        // ESC [ 8 ; h ; w t ESC [ 4 ; h ; w t
        TerminalEvent::Size(_) => {
            let mid = span.iter().skip(1).position(|b| *b == 0x1b).map(|i| i + 1).unwrap_or(span.len());
            let mut v = fields(&span[..mid], 2, 1);
            v.extend(fields(&span[mid..], 2, 1));
            v
        }
        _ => Vec::new(),
    };
    let bad = |field: &str, got: String| {
        Err(Fail::new(
            format!("numeric/{field}"),
            format!(
                "span \"{}\" decoded as {:?}: field {field} = {got} is neither the transmitted value nor clamped",
                esc(span),
                ev
            ),
        ))
    };
    match ev {
        TerminalEvent::CursorPosition(pos) if runs.len() == 2 => {
            if !ok_minus1(pos.row, runs[0]) {
                return bad("cursor-row", pos.row.to_string());
            }
            if !ok_minus1(pos.col, runs[1]) {
                return bad("cursor-col", pos.col.to_string());
            }
        }
        TerminalEvent::Mouse(m) if runs.len() == 3 => {
            if !ok_minus1(m.pos.col, runs[1]) {
                return bad("mouse-col", m.pos.col.to_string());
            }
            if !ok_minus1(m.pos.row, runs[2]) {
                return bad("mouse-row", m.pos.row.to_string());
            }
        }
        TerminalEvent::KeyboardLevel(n) if runs.len() == 1 => {
            if !ok_plain(*n as u128, runs[0], UMAX) {
                return bad("keyboard-level", n.to_string());
            }
        }
        TerminalEvent::Size(ts) if runs.len() == 6 => {
            for (name, v, n) in [
                ("size-cell-height", ts.cells.height, runs[1]),
                ("size-cell-width", ts.cells.width, runs[2]),
                ("size-pixel-height", ts.pixels.height, runs[4]),
                ("size-pixel-width", ts.pixels.width, runs[5]),
            ] {
                if !ok_plain(v as u128, n, UMAX) {
                    return bad(name, v.to_string());
                }
            }
        }
        TerminalEvent::DecMode { mode, status } if runs.len() == 2 => {
            // a report is recognised only for the exact mode and status numbers of the DEC tables
            // (pinned in ttyout.rs): a number that merely agrees with one modulo 2^k is unknown
            let m = crate::ttyout::DEC_MODES.iter().find(|(_, dm)| dm == mode).map(|(n, _)| *n as u128);
            let st = crate::ttyout::DEC_STATUS.iter().find(|(_, ds)| ds == status).map(|(n, _)| *n as u128);
            if m != Some(runs[0]) {
                return bad("dec-mode-number", format!("{:?}", mode));
            }
            if st != Some(runs[1]) {
                return bad("dec-mode-status", format!("{:?}", status));
            }
        }
        TerminalEvent::DeviceAttrs(attrs) => {
            for a in attrs {
                if !runs.iter().any(|n| ok_plain(*a as u128, *n, UMAX)) {
                    return bad("device-attribute", a.to_string());
                }
            }
        }
        TerminalEvent::Color { name: TerminalColor::Palette(i), .. } if runs.len() >= 2 => {
            if !ok_plain(*i as u128, runs[1], UMAX) {
                return bad("palette-index", i.to_string());
            }
        }
        TerminalEvent::KittyImage { id, placement, .. } => {
            // ESC _ G k=v,k=v ; msg ESC \
            let body = &span[3.min(span.len())..];
            let kvs = body.split(|b| *b == b';').next().unwrap_or(&[]);
            let mut want_id: Option<u128> = None;
            let mut want_p: Option<u128> = None;
            for kv in kvs.split(|b| *b == b',') {
                let mut it = kv.splitn(2, |b| *b == b'=');
                let (Some(k), Some(v)) = (it.next(), it.next()) else { continue };
                let n = digit_runs(v);
                let all_digits = v.iter().all(u8::is_ascii_digit);
                if k == b"i" && all_digits {
                    want_id = Some(n.first().copied().unwrap_or(0));
                }
                if k == b"p" && all_digits {
                    want_p = Some(n.first().copied().unwrap_or(0));
                }
            }
            if let Some(n) = want_id {
                if !ok_plain(*id as u128, n, u64::MAX as u128) {
                    return bad("kitty-image-id", id.to_string());
                }
            }
            if let (Some(p), Some(n)) = (placement, want_p) {
                if !ok_plain(*p as u128, n, u64::MAX as u128) {
                    return bad("kitty-placement-id", p.to_string());
                }
            }
        }
        TerminalEvent::Key(key) if span.ends_with(b"u") && span.starts_with(b"\x1b[") && span.get(2) != Some(&b'?') => {
            // kitty keyboard: first field = unicode key code
            let first = span[2..span.len() - 1].split(|b| *b == b';' || *b == b':').next().unwrap_or(&[]);
            if !first.is_empty() && first.iter().all(u8::is_ascii_digit) {
                let n = digit_runs(first).first().copied().unwrap_or(0);
                match key.name {
                    KeyName::Char(c) => {
                        if c as u128 != n {
                            return bad("kitty-key-code", format!("{:?}", c));
                        }
                    }
                    KeyName::F(f) => {
                        if n < 57376 || (f as u128) != n - 57376 + 13 {
                            return bad("kitty-function-key", f.to_string());
                        }
                    }
                    _ => {}
                }
            }
        }
        _ => {}
    }
    Ok(())
}

fn chars_of_event(ev: &TerminalEvent, f: &mut dyn FnMut(char)) {
    match ev {
        TerminalEvent::Key(k) => {
            if let KeyName::Char(c) = k.name {
                f(c)
            }
        }
        TerminalEvent::Paste(s) => s.chars().for_each(f),
        TerminalEvent::Command(TerminalCommand::Char(c)) => f(*c),
        TerminalEvent::Termcap(map) => {
            for (k, v) in map {
                k.chars().for_each(&mut *f);
                if let Some(v) = v {
                    v.chars().for_each(&mut *f);
                }
            }
        }
        _ => {}
    }
}

fn check_tokens<T: std::fmt::Debug>(
    what: &str,
    input: &[u8],
    tokens: &[Token<T>],
    pending: usize,
) -> Result<(), Fail> {
    let mut pos = 0usize;
    for t in tokens {
        ensure!(
            t.end > pos && t.end <= input.len(),
            format!("{what}/span-order"),
            "token {:?} ends at {} after previous end {} (input {} bytes)",
            t.item,
            t.end,
            pos,
            input.len()
        );
        if let Err(raw) = &t.item {
            ensure!(!raw.is_empty(), format!("{what}/empty-raw"), "empty raw item");
            ensure!(
                raw.as_slice() == &input[pos..t.end],
                format!("{what}/raw-bytes-differ-from-input"),
                "raw item {:?} but the input bytes of its span are {:?}",
                esc(raw),
                esc(&input[pos..t.end])
            );
        }
        pos = t.end;
    }
    ensure!(
        pos + pending == input.len(),
        format!("{what}/bytes-lost-or-duplicated"),
        "tokens cover {pos} bytes, {pending} pending, input has {} bytes",
        input.len()
    );
    Ok(())
}

fn check_stream(input: &[u8], cuts: &[u16], api: &[u8]) -> Outcome {
    let cuts = hostile::cuts_from(cuts, input.len());
    let chunks = hostile::split(input, &cuts);

    // ---- event decoder, public API
    let events = run_public(&mut TTYEventDecoder::new(), &chunks, "event")?;
    // ---- event decoder with spans (hook)
    let mut tok = EventTokenizer::new();
    let mut tokens = Vec::new();
    for c in &chunks {
        tok.feed(c, &mut tokens)
            .map_err(|e| Fail::new("event/io-error", format!("{e:?}")))?;
    }
    check_tokens("event", input, &tokens, tok.pending())?;
    let from_tokens: Vec<TerminalEvent> = tokens
        .iter()
        .map(|t| match &t.item {
            Ok(ev) => ev.clone(),
            Err(raw) => TerminalEvent::Raw(raw.clone()),
        })
        .collect();
    ensure!(
        from_tokens == events,
        "harness/hook-disagrees-with-public-api",
        "public API events {:?}, hook tokens {:?}",
        events,
        from_tokens
    );
    let mut start = 0usize;
    for t in &tokens {
        let span = &input[start..t.end];
        start = t.end;
        let ev = match &t.item {
            Ok(ev) => ev,
            Err(_) => continue,
        };
        if let TerminalEvent::Raw(raw) = ev {
            ensure!(!raw.is_empty(), "event/empty-raw", "empty Raw event");
        }
        let mut bad_char = None;
        chars_of_event(ev, &mut |c| {
            if !scalar_ok(c) {
                bad_char = Some(c as u32);
            }
        });
        if let Some(v) = bad_char {
            return Err(Fail::new(
                "event/invalid-scalar-value",
                format!("span \"{}\": character {v:#x} is not a Unicode scalar value", esc(span)),
            ));
        }
        // a character event whose bytes are well-formed UTF-8 must be that character
        if let TerminalEvent::Key(k) = ev {
            if let (KeyName::Char(c), Ok(s)) = (k.name, std::str::from_utf8(span)) {
                if k.mode.is_empty() && s.chars().count() == 1 && !span.starts_with(b"\x1b") {
                    ensure!(
                        s.chars().next() == Some(c),
                        "event/utf8-char-differs",
                        "bytes {:?} are the character {:?} but decoded as {:?}",
                        span,
                        s,
                        c
                    );
                }
            }
        }
        numeric_fields(ev, span)?;
    }

    // ---- command decoder
    let cmds = run_public(&mut TTYCommandDecoder::new(), &chunks, "command")?;
    let mut ctok = CommandTokenizer::new();
    let mut ctokens = Vec::new();
    for c in &chunks {
        ctok.feed(c, &mut ctokens)
            .map_err(|e| Fail::new("command/io-error", format!("{e:?}")))?;
    }
    check_tokens("command", input, &ctokens, ctok.pending())?;
    ensure!(
        cmds.len() == ctokens.len(),
        "harness/hook-disagrees-with-public-api",
        "command decoder: public API {} items, hook {}",
        cmds.len(),
        ctokens.len()
    );
    for cmd in &cmds {
        match cmd {
            TerminalCommand::Char(c) => ensure!(
                scalar_ok(*c),
                "command/invalid-scalar-value",
                "command decoder produced an invalid character"
            ),
            TerminalCommand::Raw(raw) => {
                ensure!(!raw.is_empty(), "command/empty-raw", "empty Raw command")
            }
            _ => {}
        }
    }

    // ---- standalone UTF-8 decoder
    let mut u8dec = Utf8Decoder::new();
    let mut u8chars: Vec<char> = Vec::new();
    for chunk in &chunks {
        let mut cur = std::io::Cursor::new(*chunk);
        let mut steps = 0;
        loop {
            steps += 1;
            ensure!(steps <= 2 * chunk.len() + 8, "utf8/non-termination", "Utf8Decoder loop");
            match u8dec.decode(&mut cur) {
                Ok(Some(c)) => {
                    u8chars.push(c);
                    ensure!(
                        scalar_ok(c),
                        "utf8/invalid-scalar-value",
                        "Utf8Decoder produced an invalid character from {:?}",
                        esc(input)
                    );
                }
                Ok(None) => break,
                Err(_) => {} // invalid input is reported as an error, decoding continues
            }
        }
    }
    for _ in 0..2 {
        let empty: &[u8] = &[];
        ensure!(
            matches!(u8dec.decode(std::io::Cursor::new(empty)), Ok(None)),
            "utf8/event-from-empty-read",
            "Utf8Decoder produced something from an empty read"
        );
    }
    // pure well-formed UTF-8 must decode to exactly its characters
    if let Ok(s) = std::str::from_utf8(input) {
        let mut d = Utf8Decoder::new();
        let mut got = String::new();
        for chunk in &chunks {
            let mut cur = std::io::Cursor::new(*chunk);
            while let Ok(Some(c)) = d.decode(&mut cur) {
                got.push(c);
            }
        }
        ensure!(got == s, "utf8/valid-input-differs", "Utf8Decoder({:?}) = {:?}", s, got);
    }
    let nchars = u8chars.len();

    // ---- API schedule: decode / decode_into on a long-lived vector / decode_into on a fresh one
    let mut into_calls = 0usize;
    let mut into_nonempty = 0usize;
    let mut mixed = false;
    let mut fresh = false;
    if !api.is_empty() {
        let runs = [
            run_api_schedule(&mut TTYEventDecoder::new(), &chunks, api, "event", false, &events)?,
            run_api_schedule(&mut TTYCommandDecoder::new(), &chunks, api, "command", false, &cmds)?,
            run_api_schedule(&mut Utf8Decoder::new(), &chunks, api, "utf8", true, &u8chars)?,
        ];
        for st in &runs {
            into_calls += st.into_calls;
            into_nonempty += st.into_nonempty;
            mixed |= st.decode_reads > 0 && st.decode_reads < chunks.len();
            fresh |= st.fresh_reads > 0;
        }
    }

    let has_esc = input.contains(&0x1b);
    let has_multi = input.iter().any(|b| *b >= 0xc0);
    let raws = events.iter().filter(|e| matches!(e, TerminalEvent::Raw(_))).count();
    Ok(Pass::new((has_esc || has_multi) && chunks.len() >= 2 && input.len() >= 2)
        .label_if(has_esc, "has-escape")
        .label_if(has_multi, "has-multibyte-lead")
        .label_if(raws > 0, "produced-raw")
        .label_if(raws < events.len(), "produced-recognised")
        .label_if(chunks.iter().any(|c| c.is_empty()), "has-empty-read")
        .label_if(nchars > 0, "utf8-chars")
        .label_if(!api.is_empty(), "api-schedule")
        .label_if(into_calls > 0, "decode-into")
        .label_if(into_nonempty > 0, "decode-into-on-nonempty-vector")
        .label_if(fresh, "decode-into-fresh-vector-per-read")
        .label_if(mixed, "mixed-decode-and-decode-into")
        .label_if(tok.pending() > 0, "ends-pending")
        .label_if(input.len() > 64, "len>64"))
}

fn check_sgr_overflow(role: Role, sep: u8, comps: [u64; 3], cs: bool, tail_bold: bool) -> Outcome {
    let code = match role {
        Role::Fg => 38,
        Role::Bg => 48,
        Role::Ul => 58,
    };
    let s = if sep == b':' {
        if cs {
            format!("\x1b[{code}:2::{}:{}:{}", comps[0], comps[1], comps[2])
        } else {
            format!("\x1b[{code}:2:{}:{}:{}", comps[0], comps[1], comps[2])
        }
    } else {
        format!("\x1b[{code};2;{};{};{}", comps[0], comps[1], comps[2])
    };
    let s = format!("{s}{}m", if tail_bold { ";1" } else { "" });
    let events = run_public(&mut TTYEventDecoder::new(), &[s.as_bytes()], "event")?;
    ensure!(events.len() == 1, "sgr-overflow/event-count", "{:?} -> {:?}", s, events);
    let clamp = |v: u64| v.min(255) as u8;
    let in_range = comps.iter().all(|c| *c <= 255);
    match &events[0] {
        TerminalEvent::Raw(_) if !in_range => {}
        TerminalEvent::Command(TerminalCommand::FaceModify(m)) => {
            let col = match role {
                Role::Fg => m.fg,
                Role::Bg => m.bg,
                Role::Ul => m.underline_color,
            };
            match col {
                None => ensure!(!in_range, "sgr-overflow/in-range-colour-dropped", "{:?} -> {:?}", s, m),
                Some(c) => {
                    let [r, g, b, a] = c.to_rgba();
                    ensure!(
                        [r, g, b] == [clamp(comps[0]), clamp(comps[1]), clamp(comps[2])] && a == 255,
                        "numeric/sgr-colour-component-wraps",
                        "\"{}\": colour decoded as {:?}; components must be min(v,255) or the parameter rejected, never v mod 256",
                        esc(s.as_bytes()),
                        [r, g, b]
                    );
                }
            }
            if tail_bold {
                ensure!(
                    m.bold == Some(true),
                    "sgr-overflow/following-parameter-lost",
                    "\"{}\": the parameter after the colour was lost: {:?}",
                    esc(s.as_bytes()),
                    m
                );
            }
        }
        other => {
            return Err(Fail::new(
                "sgr-overflow/unexpected-event",
                format!("{:?} -> {:?}", s, other),
            ));
        }
    }
    Ok(Pass::new(!in_range).label("sgr-colour-components").label_if(!in_range, "component>255"))
}

impl Property for C02 {
    type Case = Case;

    fn fuzz(&self) -> Option<FuzzSpec> {
        Some(FuzzSpec { target: "c02", jobs: 8, runs: 600_000, max_len: 512, seeds: 300 })
    }

    /// two bytes of read partition (high bytes of two cut selectors), then the input
    fn case_from_bytes(&self, data: &[u8]) -> Option<Case> {
        if data.len() < 2 {
            return None;
        }
        let cuts = vec![(data[0] as u16) << 8 | 0x55, (data[1] as u16) << 8 | 0xaa];
        // fixed API schedule for the byte layout: every read appends to the long-lived vector
        Some(Case::Stream { input: data[2..].to_vec(), cuts, api: vec![1] })
    }

    fn case_to_bytes(&self, case: &Case) -> Option<Vec<u8>> {
        match case {
            Case::Stream { input, cuts, .. } => {
                let mut out = vec![cuts.first().map(|c| (c >> 8) as u8).unwrap_or(0), cuts.get(1).map(|c| (c >> 8) as u8).unwrap_or(0)];
                out.extend_from_slice(input);
                Some(out)
            }
            _ => None,
        }
    }

    fn id(&self) -> &'static str {
        "C02"
    }

    fn claims_termination(&self) -> bool {
        true
    }

    fn case_timeout_s(&self) -> u64 {
        60
    }

    fn isolate(&self) -> bool {
        true
    }

    fn strategy(&self, tier: Tier) -> BoxedStrategy<Case> {
        let max_raw = tier.pick(64usize, 1024usize);
        let comp = prop_oneof![
            3 => 0u64..=255,
            3 => proptest::sample::select(vec![256u64, 257, 300, 511, 512, 65535, 65536, 65791, 1 << 32, u64::MAX]),
            1 => any::<u64>(),
        ];
        prop_oneof![
            20 => (
                hostile::input(max_raw),
                proptest::collection::vec(any::<u16>(), 0..6),
                // API schedule of the second pass: none / every read into the long-lived
                // vector / a generated mix of decode, long-lived and per-read vectors
                prop_oneof![
                    3 => Just(Vec::new()),
                    2 => Just(vec![1u8]),
                    3 => proptest::collection::vec(0u8..3, 1..=6),
                ]
            )
                .prop_map(|(input, cuts, api)| Case::Stream { input, cuts, api }),
            1 => (
                prop_oneof![Just(Role::Fg), Just(Role::Bg), Just(Role::Ul)],
                prop_oneof![Just(b':'), Just(b';')],
                [comp.clone(), comp.clone(), comp],
                any::<bool>(),
                any::<bool>()
            )
                .prop_map(|(role, sep, comps, cs, tail_bold)| Case::SgrOverflow { role, sep, comps, cs, tail_bold }),
        ]
        .boxed()
    }

    fn check(&self, case: &Case) -> Outcome {
        match case {
            Case::Stream { input, cuts, api } => check_stream(input, cuts, api),
            Case::SgrOverflow { role, sep, comps, cs, tail_bold } => {
                check_sgr_overflow(*role, *sep, *comps, *cs, *tail_bold)
            }
        }
    }

    fn cases(&self, tier: Tier) -> u32 {
        tier.pick(60_000, 1_500_000)
    }

    fn rule(&self) -> String {
        "inputs: raw bytes (<=64, thorough <=1024), ESC/digit/;-heavy noise, concatenations of 1-6 hostile skeletons of every recognised sequence family with parameters from {empty, 0, 1, 00, 2^k+-1, 2^32, 2^64+-1, 20-40 digit runs}, empty parameter lists, truncated (unterminated) sequences, every UTF-8 lead byte with 0-3 continuation bytes incl. overlong/surrogate/>U+10FFFF forms, mutated (bit flip, insert, delete, duplicate, truncate) protocol-printer output and repository test strings, well-formed concatenations; each cut into 1-6 reads (incl. empty reads); plus well-formed SGR colours with components up to 2^64-1. Fed to TTYEventDecoder, TTYCommandDecoder (public API and span-reporting hook) and Utf8Decoder inside a worker process. API schedule (5 of 8 stream cases): a second pass hands the same reads to a new decoder of each of the three kinds, read by read through a generated choice of decode (item by item), decode_into appending to one long-lived output vector reused across all reads, or decode_into on a vector fresh for that read (schedules: all reads long-lived, or 1-6 generated selectors cycled over the reads); after every read one more call on the exhausted read, after the last read two decode_into calls on an empty read; checked: returned count of every decode_into call = growth of the vector in that call, 0 and nothing appended (None for decode) on exhausted input, read fully consumed, collected items = items of the plain decode loop. non-trivial = input has an ESC or a multi-byte lead, at least 2 bytes and at least 2 reads".into()
    }

    fn assumptions(&self) -> Vec<String> {
        vec![
            "clamping is accepted as: value 0 in a 1-based field -> 0; value above usize::MAX -> usize::MAX (or MAX-1 for 1-based fields); colour components -> min(v,255) or the colour parameter dropped".into(),
            "modifier/button bit masks are not numeric fields: unknown high bits may be ignored".into(),
            "for DA1 every reported attribute must be a transmitted (or clamped) value; absence of an out-of-range attribute is not a violation".into(),
            "a process abort or crash of the worker is attributed to the case in flight".into(),
            "decode_into ('decode all available items from provided buffer and put them into output vector') has only its usize to report with: it is read as the number of items that call appended (the Read::read_to_end convention, and what the bench prints), so 0 is its 'nothing more is available'; a call that returns Err (Utf8Decoder on invalid input) has no count and is only required not to remove items".into(),
            "the items a decoder produces for a given sequence of reads do not depend on whether a read is drained with decode or with decode_into, nor on what the output vector already holds".into(),
        ]
    }
}
