//! C01 — incremental rendering always leaves the terminal showing the drawn surface.
//!
//! Histories of frames / skipped frames / forced clears / dropped frames / renderer
//! re-creations are run on the real `TerminalRenderer` against a recording terminal; the
//! commands it issues are applied to a reference screen (`Screen`, xterm/VTE/kitty semantics).
//! After every delivered frame:
//!   (1) ground truth: the display of the reference screen equals the display the surface
//!       denotes (text cells + image placements), and
//!   (2) differential: it equals what a brand-new renderer paints for the same surface on a
//!       blank reference screen.

use crate::engine::*;
use crate::mockterm::RecTerm;
use proptest::prelude::*;
use serde::{Deserialize, Serialize};
use std::collections::{BTreeMap, BTreeSet};
use std::sync::LazyLock;
use surf_n_term::render::{CellKind, TerminalRenderer};
use surf_n_term::{
    BBox, Cell, Face, FillRule, Glyph, Image, Path, Position, RGBA, Size, Surface, SurfaceMut,
    SurfaceOwned, Terminal, TerminalCaps, TerminalCommand, TerminalSize,
};
use unicode_width::UnicodeWidthChar;

pub struct C01;

const PPC: Size = Size { height: 4, width: 2 };

/// Size a terminal of `h`x`w` cells reports: `cells * PPC + r` pixels per axis with
/// `r = rem % cells` (so `0 <= r < cells`: the cell is still `PPC` pixels, the window simply is
/// not a whole number of cells big, as with any window manager that does not snap to the cell
/// grid). `rem == (0, 0)` is the exact multiple older cases were generated with.
fn term_size(h: usize, w: usize, rem: (u8, u8)) -> TerminalSize {
    let r = |cells: usize, rem: u8| if cells == 0 { 0 } else { rem as usize % cells };
    TerminalSize {
        cells: Size::new(h, w),
        pixels: Size::new(h * PPC.height + r(h, rem.0), w * PPC.width + r(w, rem.1)),
    }
}

// ---- pools ------------------------------------------------------------------------------

fn face_pool(i: u8) -> Face {
    match i % 5 {
        0 => Face::default(),
        1 => "bg=#203040".parse().unwrap(),
        2 => "bg=#a0b0c0".parse().unwrap(),
        3 => "fg=#ff0000,underline".parse().unwrap(),
        _ => "fg=#00ff00,bg=#000080,reverse".parse().unwrap(),
    }
}

const NARROW: [char; 6] = [' ', ' ', 'a', 'b', 'c', 'd'];
const WIDE: [char; 2] = ['世', '🤩'];

struct Pools {
    images: Vec<Image>,
    glyphs: Vec<Glyph>,
}

fn mk_image(rows: usize, cols: usize, seed: u8) -> Image {
    let size = Size::new(rows * PPC.height, cols * PPC.width);
    Image::from(SurfaceOwned::new_with(size, |p| {
        RGBA::new(seed, (p.row * 16 + p.col) as u8, seed.wrapping_mul(3), 255)
    }))
}

static POOLS: LazyLock<Pools> = LazyLock::new(|| Pools {
    // sizes in cells: 1x1, 2x2, 1x3 ; the same Arc is reused across frames
    // 3..=6 are windows into one backing picture: equal sizes at different offsets (a viewport
    // panned over a picture) -- same buffer, same size, different pixels
    images: {
        let backing = mk_image(2, 4, 40);
        let (ph, pw) = (PPC.height, PPC.width);
        vec![
            mk_image(1, 1, 10),
            mk_image(2, 2, 20),
            mk_image(1, 3, 30),
            backing.crop(.., 0..2 * pw),
            backing.crop(.., 2 * pw..4 * pw),
            backing.crop(0..ph, 0..pw),
            backing.crop(ph..2 * ph, 3 * pw..4 * pw),
        ]
    },
    glyphs: vec![
        Glyph::new(Path::empty(), FillRule::default(), Some(BBox::new((0.0, 0.0), (1.0, 1.0))), Size::new(1, 2), "g".to_string(), None),
        Glyph::new(Path::empty(), FillRule::default(), Some(BBox::new((0.0, 0.0), (1.0, 1.0))), Size::new(2, 1), "h".to_string(), None),
    ],
});

// ---- case -------------------------------------------------------------------------------

#[derive(Clone, Copy, Debug, PartialEq, Eq, Serialize, Deserialize)]
pub enum Kind {
    Narrow(u8),
    Wide(u8),
    Image(u8),
    Glyph(u8),
}

#[derive(Clone, Copy, Debug, Serialize, Deserialize)]
pub struct Put {
    pub row: u16,
    pub col: u16,
    /// place relative to the previous put of this paint: 0 = absolute, 1 = right neighbour,
    /// 2 = same cell, 3 = cell below
    pub rel: u8,
    pub kind: Kind,
    pub face: u8,
}

#[derive(Clone, Debug, Serialize, Deserialize)]
pub enum Op {
    /// paint cells into the renderer's surface (immediate mode: surface starts blank)
    Paint(Vec<Put>),
    /// re-paint the cells of the previous delivered frame (so that unchanged cells occur)
    Repaint,
    /// render the frame, commands are delivered to the terminal; checked
    Frame,
    /// TerminalAction::WaitNoFrame: surface reset, nothing rendered
    NoFrame,
    /// renderer.clear(), delivered
    Clear,
    /// frames rendered but never delivered (dropped from the output queue), then the
    /// mandatory renderer.clear() which is delivered (terminal.rs:121-128)
    Dropped(Vec<Vec<Put>>),
    /// resize: clear() delivered, the screen content is scrambled (reflow) and possibly gets
    /// a new size, a fresh renderer is created with clear=true
    Recreate { height: u8, width: u8, scramble: Vec<(u8, u8)> },
}

#[derive(Clone, Debug, Serialize, Deserialize)]
pub struct Case {
    pub height: u8,
    pub width: u8,
    pub ops: Vec<Op>,
    /// when present the history is driven through `Terminal::run_render` instead (`ops` unused)
    #[serde(default)]
    pub render_loop: Option<RenderLoop>,
    /// pixels the terminal reports beyond `cells * PPC`, per axis, modulo the number of cells
    /// (see `term_size`); kept across `Recreate`
    #[serde(default)]
    pub px_rem: (u8, u8),
}

/// A session of the library's own render loop on a terminal whose output queue is scripted
#[derive(Clone, Debug, Serialize, Deserialize)]
pub struct RenderLoop {
    /// what the handler paints at each invocation; after the last one it quits
    pub frames: Vec<Vec<Put>>,
    /// invocations (index modulo the number of frames) that answer `WaitNoFrame`
    pub no_frame: Vec<u8>,
    /// the terminal accepts nothing during polls `stall.0 .. stall.0 + stall.1`
    pub stall: (u8, u8),
    /// outside the stall: number of queued frames the terminal accepts per poll (cyclic)
    pub deliver: Vec<u8>,
    /// polls that report a `Resize` event carrying the unchanged size (the window was resized
    /// and resized back, or only its pixel size changed): the loop answers with `clear()` and a
    /// new renderer, the screen content itself is untouched
    #[serde(default)]
    pub resize_polls: Vec<u8>,
    /// persistent content: painted by the handler, below the cells of `frames`, at every
    /// invocation of an interval (an application that keeps a picture / caption on the screen
    /// while other parts change), possibly only while the terminal keeps up
    #[serde(default)]
    pub layers: Vec<Layer>,
}

/// Content the handler of a render-loop session paints again at every invocation
/// `from .. from + len`, as long as `Terminal::frames_pending()` (the back pressure the
/// library reports to the application) does not exceed `max_pending`
#[derive(Clone, Debug, Serialize, Deserialize)]
pub struct Layer {
    pub puts: Vec<Put>,
    pub from: u8,
    pub len: u8,
    /// 255 = painted whatever the lag
    pub max_pending: u8,
}

// ---- reference screen -------------------------------------------------------------------

#[derive(Clone, Copy, Debug, PartialEq, Eq)]
enum Half {
    No,
    Left,
    Right,
}

#[derive(Clone, Debug, PartialEq, Eq)]
struct MCell {
    ch: char,
    face: Face,
    half: Half,
}

impl MCell {
    fn blank(face: Face) -> Self {
        Self { ch: ' ', face, half: Half::No }
    }
}

#[derive(Clone, Debug, PartialEq, Eq, PartialOrd, Ord)]
struct Placement {
    key: u64,
    row: usize,
    col: usize,
    height: usize,
    width: usize,
}

#[derive(Clone)]
struct Screen {
    h: usize,
    w: usize,
    cells: Vec<MCell>,
    placements: Vec<Placement>,
    cursor: (usize, usize),
    face: Face,
    problems: Vec<(String, String)>,
    /// number of forced clears (clear(), frame drop + clear(), renderer re-creation) issued so far
    epoch: usize,
    /// placement -> value of `epoch` when it was (last) drawn
    drawn_at: BTreeMap<PKey, usize>,
    /// placements that are on the screen although the renderer issued their ImageErase: the
    /// erase was part of a frame that was dropped from the output queue (listed design limit)
    erase_lost: BTreeSet<PKey>,
    /// placements on the screen whose ImageErase was issued by the clear() that answers a
    /// Resize event and was discarded, in the same round of the render loop, by frames_drop()
    erase_lost_resize: BTreeSet<PKey>,
}

/// identity of a placement: image content hash, row, column
type PKey = (u64, usize, usize);

#[derive(Clone, Debug, PartialEq, Eq)]
enum Shown {
    /// set of placements covering the cell (z-order among overlapping images is terminal
    /// specific — kitty orders by image id, sixel by time — so only the set is compared)
    Images(BTreeSet<(u64, usize, usize)>),
    Text(char, Face, Half),
}

impl Screen {
    fn new(h: usize, w: usize) -> Self {
        Self {
            h,
            w,
            cells: vec![MCell::blank(Face::default()); h * w],
            placements: Vec::new(),
            cursor: (0, 0),
            face: Face::default(),
            problems: Vec::new(),
            epoch: 0,
            drawn_at: BTreeMap::new(),
            erase_lost: BTreeSet::new(),
            erase_lost_resize: BTreeSet::new(),
        }
    }

    fn at(&mut self, r: usize, c: usize) -> &mut MCell {
        &mut self.cells[r * self.w + c]
    }

    fn orphan(&mut self, r: usize, c: usize) {
        if c < self.w {
            let cell = self.at(r, c);
            cell.ch = ' ';
            cell.half = Half::No;
        }
    }

    /// writing over one half of a wide character turns the other half into a space keeping
    /// that cell's face
    fn break_halves(&mut self, r: usize, from: usize, to: usize) {
        if from < self.w && self.at(r, from).half == Half::Right && from > 0 {
            self.orphan(r, from - 1);
        }
        if to > 0 && to <= self.w && self.at(r, to - 1).half == Half::Left {
            self.orphan(r, to);
        }
    }

    fn apply(&mut self, cmd: &TerminalCommand) {
        match cmd {
            TerminalCommand::Face(f) => self.face = *f,
            TerminalCommand::CursorTo(p) => {
                if self.h == 0 || self.w == 0 {
                    return;
                }
                // terminals clamp the cursor to the screen (an image reaching below the last
                // row makes the renderer address such rows); judged by the resulting display
                self.cursor = (p.row.min(self.h - 1), p.col.min(self.w - 1));
            }
            TerminalCommand::Char(ch) => {
                let width = ch.width().unwrap_or(0);
                if width == 0 || self.h == 0 {
                    return;
                }
                let (r, c) = self.cursor;
                if c + width > self.w {
                    self.problems.push((
                        "command/write-past-right-edge".into(),
                        format!("Char({ch:?}) of width {width} at column {c} of a {} column screen (relies on autowrap)", self.w),
                    ));
                    return;
                }
                self.break_halves(r, c, c + width);
                let face = self.face;
                if width == 2 {
                    *self.at(r, c) = MCell { ch: *ch, face, half: Half::Left };
                    *self.at(r, c + 1) = MCell { ch: ' ', face, half: Half::Right };
                } else {
                    *self.at(r, c) = MCell { ch: *ch, face, half: Half::No };
                }
                self.cursor.1 = c + width;
            }
            TerminalCommand::EraseChars(n) => {
                if self.h == 0 || self.w == 0 {
                    return;
                }
                let (r, c) = self.cursor;
                if c >= self.w {
                    return;
                }
                let end = (c + (*n).max(1)).min(self.w);
                self.break_halves(r, c, end);
                let face = self.face;
                for col in c..end {
                    *self.at(r, col) = MCell::blank(face);
                }
            }
            TerminalCommand::Image(img, pos) => {
                let size = img.size_cells(PPC);
                let p = Placement { key: img.hash(), row: pos.row, col: pos.col, height: size.height, width: size.width };
                // same image at the same cell = same placement id: replaced, not duplicated
                self.placements.retain(|q| !(q.key == p.key && q.row == p.row && q.col == p.col));
                // drawn again: whatever happened to an earlier erase of it, the placement on
                // the screen is now this one
                let pk = (p.key, p.row, p.col);
                self.erase_lost.remove(&pk);
                self.erase_lost_resize.remove(&pk);
                self.drawn_at.insert(pk, self.epoch);
                self.placements.push(p);
            }
            TerminalCommand::ImageErase(img, pos) => {
                let key = img.hash();
                match pos {
                    Some(pos) => self.placements.retain(|q| !(q.key == key && q.row == pos.row && q.col == pos.col)),
                    None => self.placements.retain(|q| q.key != key),
                }
                let gone = |pk: &PKey| pk.0 == key && pos.map_or(true, |pos| (pk.1, pk.2) == (pos.row, pos.col));
                self.erase_lost.retain(|pk| !gone(pk));
                self.erase_lost_resize.retain(|pk| !gone(pk));
                self.drawn_at.retain(|pk, _| !gone(pk));
            }
            other => self.problems.push((
                "command/unexpected".into(),
                format!("renderer issued {other:?}"),
            )),
        }
    }

    /// Placements that are on this screen and whose erase is lost with the discarded command
    /// sequence `cmds` (commands that were issued, in this order, after everything the screen
    /// has executed, and never reach it): an ImageErase that is not followed by a re-draw of
    /// the same image at the same cell within `cmds`.
    fn erases_lost_with<'a>(&self, cmds: impl IntoIterator<Item = &'a TerminalCommand>) -> BTreeSet<PKey> {
        let mut lost: BTreeSet<PKey> = BTreeSet::new();
        for cmd in cmds {
            match cmd {
                TerminalCommand::ImageErase(img, Some(pos)) => {
                    lost.insert((img.hash(), pos.row, pos.col));
                }
                TerminalCommand::ImageErase(img, None) => {
                    let key = img.hash();
                    lost.extend(self.placements.iter().filter(|p| p.key == key).map(|p| (p.key, p.row, p.col)));
                }
                TerminalCommand::Image(img, pos) => {
                    lost.remove(&(img.hash(), pos.row, pos.col));
                }
                _ => {}
            }
        }
        lost.retain(|pk| self.placements.iter().any(|p| (p.key, p.row, p.col) == *pk));
        lost
    }

    fn covering(placements: &[Placement], r: usize, c: usize) -> BTreeSet<(u64, usize, usize)> {
        placements
            .iter()
            .filter(|p| r >= p.row && r < p.row + p.height && c >= p.col && c < p.col + p.width)
            .map(|p| (p.key, p.row, p.col))
            .collect()
    }

    fn display(&self) -> Vec<Shown> {
        let mut out = Vec::with_capacity(self.h * self.w);
        for r in 0..self.h {
            for c in 0..self.w {
                let cov = Self::covering(&self.placements, r, c);
                if !cov.is_empty() {
                    out.push(Shown::Images(cov));
                } else {
                    let cell = &self.cells[r * self.w + c];
                    out.push(Shown::Text(cell.ch, cell.face, cell.half));
                }
            }
        }
        out
    }
}

// ---- expected display of a surface ---------------------------------------------------------

struct Expected {
    shown: Vec<Shown>,
    /// cells where a wide character is partly covered by an image: only oracle (2) applies
    dont_care: Vec<bool>,
    placements: Vec<Placement>,
}

fn expected_of(cells: &[Cell], h: usize, w: usize, tsize: TerminalSize) -> Expected {
    let mut placements = Vec::new();
    for r in 0..h {
        for c in 0..w {
            let cell = &cells[r * w + c];
            // what a cell covers: an image the cells its pixels need, a glyph the size in cells
            // it was declared with (whatever picture the library hands to the terminal for it)
            let img = match cell.kind() {
                CellKind::Image(img) => Some((img.clone(), img.size_cells(PPC))),
                CellKind::Glyph(g) => Some((g.rasterize(cell.face(), tsize), g.size())),
                CellKind::Char(_) => None,
            };
            if let Some((img, size)) = img {
                if size.height > 0 && size.width > 0 {
                    placements.push(Placement { key: img.hash(), row: r, col: c, height: size.height, width: size.width });
                }
            }
        }
    }
    let mut shown = Vec::with_capacity(h * w);
    let mut dont_care = vec![false; h * w];
    for r in 0..h {
        let mut row: Vec<Option<Shown>> = vec![None; w];
        let mut c = 0;
        while c < w {
            let cov = Screen::covering(&placements, r, c);
            if !cov.is_empty() {
                row[c] = Some(Shown::Images(cov));
                c += 1;
                continue;
            }
            let cell = &cells[r * w + c];
            match cell.kind() {
                CellKind::Char(ch) => {
                    let width = ch.width().unwrap_or(0);
                    if width == 2 && c + 1 < w {
                        row[c] = Some(Shown::Text(*ch, cell.face(), Half::Left));
                        let cov2 = Screen::covering(&placements, r, c + 1);
                        if cov2.is_empty() {
                            row[c + 1] = Some(Shown::Text(' ', cell.face(), Half::Right));
                        } else {
                            // right half under an image: terminal specific
                            row[c + 1] = Some(Shown::Images(cov2));
                            dont_care[r * w + c] = true;
                            dont_care[r * w + c + 1] = true;
                        }
                        c += 2;
                    } else {
                        row[c] = Some(Shown::Text(*ch, cell.face(), Half::No));
                        c += 1;
                    }
                }
                _ => {
                    // image/glyph of zero size: shows nothing of its own
                    row[c] = Some(Shown::Text(' ', Face::default(), Half::No));
                    dont_care[r * w + c] = true;
                    c += 1;
                }
            }
        }
        shown.extend(row.into_iter().map(|s| s.expect("every column filled")));
    }
    Expected { shown, dont_care, placements }
}

// ---- interpreter -------------------------------------------------------------------------

fn cell_of(put: &Put) -> Cell {
    let face = face_pool(put.face);
    match put.kind {
        Kind::Narrow(i) => Cell::new_char(face, NARROW[i as usize % NARROW.len()]),
        Kind::Wide(i) => Cell::new_char(face, WIDE[i as usize % WIDE.len()]),
        Kind::Image(i) => Cell::new_image(POOLS.images[i as usize % POOLS.images.len()].clone()).with_face(face),
        Kind::Glyph(i) => Cell::new_glyph(face, POOLS.glyphs[i as usize % POOLS.glyphs.len()].clone()),
    }
}

fn paint(surf: &mut impl SurfaceMut<Item = Cell>, puts: &[Put], h: usize, w: usize) {
    if h == 0 || w == 0 {
        return;
    }
    let mut prev: Option<(usize, usize)> = None;
    for put in puts {
        let abs = ((put.row as usize * h) >> 16, (put.col as usize * w) >> 16);
        let (r, c) = match (put.rel, prev) {
            (1, Some((r, c))) if c + 1 < w => (r, c + 1),
            (2, Some(p)) => p,
            (3, Some((r, c))) if r + 1 < h => (r + 1, c),
            _ => abs,
        };
        prev = Some((r, c));
        let mut cell = cell_of(put);
        // outside the domain: a wide character that does not fit in the last column
        if let CellKind::Char(ch) = cell.kind() {
            if ch.width().unwrap_or(0) == 2 && c + 1 >= w {
                cell = Cell::new_char(cell.face(), 'a');
            }
        }
        surf.set(Position::new(r, c), cell);
    }
}

fn snapshot(surf: &impl Surface<Item = Cell>) -> Vec<Cell> {
    surf.iter().cloned().collect()
}

fn show(s: &Shown) -> String {
    match s {
        Shown::Images(set) => format!("images{:?}", set.iter().map(|(k, r, c)| format!("{:x}@{r},{c}", k & 0xffff)).collect::<Vec<_>>()),
        Shown::Text(ch, face, half) => format!("{ch:?}/{face:?}/{half:?}"),
    }
}

struct Run {
    frames: usize,
    labels: BTreeSet<&'static str>,
}

/// the listed design limit: an image whose erase was issued in a frame that was dropped
const KNOWN_STALE: &str = "stale-image-after-dropped-frames";
/// see `Screen::erase_lost_resize`
const RESIZE_STALE: &str = "stale-image-resize-clear-discarded-by-drop";

fn classify_mismatch(screen: &Screen, model: &Shown, want: &Shown) -> &'static str {
    let none = BTreeSet::new();
    match (model, want) {
        (Shown::Images(m), w) => {
            let wanted = if let Shown::Images(w) = w { w } else { &none };
            if !m.is_superset(wanted) {
                return "wrong-images";
            }
            // every image the surface has is shown, plus images it does not have: stale images.
            // The design limit covers exactly the placements whose erase was part of a dropped
            // frame; any other stale image is a violation even after frames were dropped
            let unexplained: Vec<&PKey> = m.difference(wanted).filter(|pk| !screen.erase_lost.contains(*pk)).collect();
            if unexplained.is_empty() {
                KNOWN_STALE
            } else if unexplained.iter().all(|pk| screen.erase_lost_resize.contains(*pk)) {
                RESIZE_STALE
            } else if unexplained.iter().any(|pk| screen.drawn_at.get(*pk).is_some_and(|e| *e < screen.epoch)) {
                // drawn before a forced clear that has been issued since
                "stale-image-survives-forced-clear"
            } else if matches!(w, Shown::Images(_)) {
                "wrong-images"
            } else {
                "stale-image"
            }
        }
        (Shown::Text(..), Shown::Images(_)) => "missing-image",
        (Shown::Text(a, _, ha), Shown::Text(b, _, hb)) if a != b || ha != hb => "wrong-character",
        _ => "wrong-face",
    }
}

/// Oracles (1) and (2) for one delivered frame: the reference screen against the display the
/// surface denotes, and against a from-scratch repaint of the same surface. A mismatch of the
/// listed design-limit class is reported only if the frame has no mismatch of another class.
#[allow(clippy::too_many_arguments)]
fn check_display(
    screen: &Screen,
    snap: &[Cell],
    h: usize,
    w: usize,
    tsize: TerminalSize,
    ctx: &str,
    cmds: &[TerminalCommand],
) -> Result<Expected, Fail> {
    let exp = expected_of(snap, h, w, tsize);
    let model = screen.display();
    let mut deferred: Option<Fail> = None;
    // (1) ground truth
    for (i, (m, e)) in model.iter().zip(exp.shown.iter()).enumerate() {
        if exp.dont_care[i] {
            continue;
        }
        if m != e {
            // a picture that the surface does have at that very cell, but which reaches a cell
            // the surface's cell does not cover: not a stale image, the picture handed to the
            // terminal is bigger than the cells it stands for
            let none = BTreeSet::new();
            let wanted = if let Shown::Images(e) = e { e } else { &none };
            let oversized = matches!(m, Shown::Images(m) if m.difference(wanted).any(|pk| exp.placements.iter().any(|p| (p.key, p.row, p.col) == *pk)));
            let class = if oversized { "picture-exceeds-the-cells-of-its-cell" } else { classify_mismatch(screen, m, e) };
            let fail = Fail::new(
                format!("display/{class}"),
                format!(
                    "{ctx}: cell ({},{}) of the {h}x{w} terminal shows {} but the surface has {}; commands of this frame: {:?}",
                    i / w.max(1), i % w.max(1), show(m), show(e), cmds
                ),
            );
            if class == KNOWN_STALE || class == RESIZE_STALE {
                deferred.get_or_insert(fail);
                continue;
            }
            return Err(fail);
        }
    }
    // (2) differential: brand-new renderer, blank terminal, same surface
    let mut term2 = RecTerm::with_size(tsize, true);
    let mut fresh = TerminalRenderer::new(&mut term2, false)
        .map_err(|e| Fail::new("renderer/new-error", format!("{e:?}")))?;
    {
        let mut s2 = fresh.surface();
        for (dst, src) in s2.iter_mut().zip(snap.iter()) {
            *dst = src.clone();
        }
    }
    guard_val(|| fresh.frame(&mut term2))?
        .map_err(|e| Fail::new("renderer/frame-error", format!("{e:?}")))?;
    let mut blank = Screen::new(h, w);
    for cmd in term2.take() {
        blank.apply(&cmd);
    }
    let scratch = blank.display();
    for (i, (m, s)) in model.iter().zip(scratch.iter()).enumerate() {
        if m != s {
            let class = if exp.dont_care[i] {
                "wide-char-partly-under-image"
            } else {
                classify_mismatch(screen, m, s)
            };
            let fail = Fail::new(
                format!("differential/{class}"),
                format!(
                    "{ctx}: cell ({},{}) shows {} but repainting the same surface from scratch on a blank terminal gives {}; commands of this frame: {:?}",
                    i / w.max(1), i % w.max(1), show(m), show(s), cmds
                ),
            );
            if class == KNOWN_STALE || class == RESIZE_STALE {
                deferred.get_or_insert(fail);
                continue;
            }
            return Err(fail);
        }
    }
    match deferred {
        Some(fail) => Err(fail),
        None => Ok(exp),
    }
}

pub fn run_case(case: &Case) -> Outcome {
    if let Some(rl) = &case.render_loop {
        return run_loop_case(case.height as usize, case.width as usize, case.px_rem, rl);
    }
    let (mut h, mut w) = (case.height as usize, case.width as usize);
    let mut term = RecTerm::with_size(term_size(h, w, case.px_rem), true);
    let mut screen = Screen::new(h, w);
    let mut renderer = TerminalRenderer::new(&mut term, false)
        .map_err(|e| Fail::new("renderer/new-error", format!("{e:?}")))?;
    let mut last_delivered: Vec<(Position, Cell)> = Vec::new();
    let mut run = Run { frames: 0, labels: BTreeSet::new() };
    let mut prev_snapshot: Option<Vec<Cell>> = None;

    for (step, op) in case.ops.iter().enumerate() {
        match op {
            Op::Paint(puts) => paint(&mut renderer.surface(), puts, h, w),
            Op::Repaint => {
                let mut surf = renderer.surface();
                for (pos, cell) in &last_delivered {
                    if pos.row < h && pos.col < w {
                        surf.set(*pos, cell.clone());
                    }
                }
            }
            Op::NoFrame => {
                renderer.surface().clear();
                run.labels.insert("no-frame");
            }
            Op::Clear => {
                let nonblank = screen.cells.iter().any(|c| *c != MCell::blank(Face::default())) || !screen.placements.is_empty();
                guard_val(|| renderer.clear(&mut term))?
                    .map_err(|e| Fail::new("renderer/clear-error", format!("{e:?}")))?;
                for cmd in term.take() {
                    screen.apply(&cmd);
                }
                screen.epoch += 1;
                if nonblank {
                    run.labels.insert("clear-on-nonblank-screen");
                }
            }
            Op::Dropped(frames) => {
                let mut discarded: Vec<TerminalCommand> = Vec::new();
                for puts in frames {
                    paint(&mut renderer.surface(), puts, h, w);
                    guard_val(|| renderer.frame(&mut term))?
                        .map_err(|e| Fail::new("renderer/frame-error", format!("{e:?}")))?;
                    discarded.extend(term.take()); // never reaches the terminal
                }
                // the design limit: erases that were part of the dropped frames
                let lost = screen.erases_lost_with(&discarded);
                if !lost.is_empty() {
                    run.labels.insert("image-erase-in-dropped-frame");
                }
                screen.erase_lost.extend(lost);
                guard_val(|| renderer.clear(&mut term))?
                    .map_err(|e| Fail::new("renderer/clear-error", format!("{e:?}")))?;
                for cmd in term.take() {
                    screen.apply(&cmd);
                }
                screen.epoch += 1;
                run.labels.insert("dropped-frames");
            }
            Op::Recreate { height, width, scramble } => {
                guard_val(|| renderer.clear(&mut term))?
                    .map_err(|e| Fail::new("renderer/clear-error", format!("{e:?}")))?;
                for cmd in term.take() {
                    screen.apply(&cmd);
                }
                h = *height as usize;
                w = *width as usize;
                // reflow: arbitrary text content, no images (they were erased by clear())
                let old = screen;
                screen = Screen::new(h, w);
                // placements that survived clear() stay where they were (kitty keeps them)
                screen.placements = old.placements;
                screen.drawn_at = old.drawn_at;
                screen.erase_lost = old.erase_lost;
                screen.epoch = old.epoch + 1;
                if h > 0 && w > 0 {
                    for (i, (ch, face)) in scramble.iter().enumerate() {
                        let idx = (i * 7 + *ch as usize) % (h * w);
                        screen.cells[idx] = MCell { ch: NARROW[2 + (*ch as usize % 4)], face: face_pool(*face), half: Half::No };
                    }
                }
                term = RecTerm::with_size(term_size(h, w, case.px_rem), true);
                renderer = TerminalRenderer::new(&mut term, true)
                    .map_err(|e| Fail::new("renderer/new-error", format!("{e:?}")))?;
                last_delivered.clear();
                prev_snapshot = None;
                run.labels.insert("recreate");
            }
            Op::Frame => {
                let snap = snapshot(&renderer.surface());
                guard_val(|| renderer.frame(&mut term))?
                    .map_err(|e| Fail::new("renderer/frame-error", format!("{e:?}")))?;
                let cmds = term.take();
                for cmd in &cmds {
                    screen.apply(cmd);
                }
                run.frames += 1;
                if let Some((sig, msg)) = screen.problems.first() {
                    return Err(Fail::new(sig.clone(), format!("step {step}: {msg}; commands {:?}", cmds)));
                }
                let exp = check_display(&screen, &snap, h, w, term.size, &format!("step {step} (frame #{})", run.frames), &cmds)?;
                // labels
                if let Some(prev) = &prev_snapshot {
                    if prev.len() == snap.len() {
                        let changed = prev.iter().zip(snap.iter()).filter(|(a, b)| a != b).count();
                        if changed > 0 {
                            run.labels.insert("frame-differs-from-previous");
                        }
                        let wide = |v: &[Cell]| v.iter().any(|c| matches!(c.kind(), CellKind::Char(ch) if ch.width() == Some(2)));
                        if wide(prev) && wide(&snap) && changed > 0 {
                            run.labels.insert("wide-in-both-frames");
                        }
                        let img = |v: &[Cell]| v.iter().any(|c| !matches!(c.kind(), CellKind::Char(_)));
                        if img(prev) && changed > 0 {
                            run.labels.insert("image-kept-moved-or-removed");
                        }
                    }
                }
                if cmds.iter().any(|c| matches!(c, TerminalCommand::EraseChars(n) if *n >= 5)) {
                    run.labels.insert("blank-run>=5");
                }
                if !exp.placements.is_empty() {
                    run.labels.insert("frame-with-image");
                }
                if term.size.pixels != Size::new(h * PPC.height, w * PPC.width) {
                    run.labels.insert("term:pixel-size-not-a-multiple-of-cells");
                    if snap.iter().any(|c| matches!(c.kind(), CellKind::Glyph(_))) {
                        run.labels.insert("term:pixel-remainder+frame-with-glyph");
                    }
                }
                if exp.dont_care.iter().any(|d| *d) {
                    run.labels.insert("wide-partly-under-image");
                }
                last_delivered = snap
                    .iter()
                    .enumerate()
                    .filter(|(_, c)| **c != Cell::default())
                    .map(|(i, c)| (Position::new(i / w.max(1), i % w.max(1)), c.clone()))
                    .collect();
                prev_snapshot = Some(snap);
            }
        }
    }
    let nt = run.frames >= 2
        && run.labels.contains("frame-differs-from-previous")
        && ["wide-in-both-frames", "image-kept-moved-or-removed", "blank-run>=5", "clear-on-nonblank-screen", "dropped-frames", "recreate"]
            .iter()
            .any(|l| run.labels.contains(l));
    let mut pass = Pass::new(nt).label_if(run.frames >= 2, "frames>=2");
    for l in run.labels {
        pass = pass.label(l);
    }
    Ok(pass)
}

// ---- the library's render loop on a scripted terminal -------------------------------------

/// Terminal whose output queue is owned by the harness: every poll closes the chunk being
/// written (as the real terminal's poll flushes) and hands a scripted number of queued chunks
/// to the screen; `frames_drop` keeps the chunk in flight and discards the others, as
/// `IOQueue::clear_but_last` does.
struct LoopTerm {
    size: TerminalSize,
    caps: TerminalCaps,
    open: Vec<TerminalCommand>,
    queue: std::collections::VecDeque<Chunk>,
    delivered: Vec<Chunk>,
    /// what each `frames_drop` discarded
    discarded: Vec<Discarded>,
    /// the poll of the current round reported a Resize event
    resize_round: bool,
    tag: usize,
    polls: usize,
    drops: usize,
    max_pending: usize,
    stall: (usize, usize),
    deliver: Vec<u8>,
    resize_polls: Vec<u8>,
    resizes: usize,
}

/// Commands between two flushes of the output queue (a "frame" of `frames_pending`)
struct Chunk {
    /// handler invocation the commands belong to
    tag: usize,
    /// number of frame drops / of forced clears (frame drops + Resize events) that preceded
    /// the commands of this chunk
    drops: usize,
    clears: usize,
    cmds: Vec<TerminalCommand>,
}

/// What one `frames_drop` threw away
struct Discarded {
    /// the commands of the queued frames, in order
    frames: Vec<TerminalCommand>,
    /// the commands issued in the round that dropped the frames, before it did so
    open: Vec<TerminalCommand>,
    /// that round had started with a Resize event
    resize_round: bool,
}

impl LoopTerm {
    fn close_chunk(&mut self) {
        if !self.open.is_empty() {
            let cmds = std::mem::take(&mut self.open);
            self.queue.push_back(Chunk { tag: self.tag, drops: self.drops, clears: self.drops + self.resizes, cmds });
        }
    }
    fn accept(&mut self, n: usize) {
        for _ in 0..n {
            match self.queue.pop_front() {
                Some(chunk) => self.delivered.push(chunk),
                None => break,
            }
        }
    }
}

impl std::io::Write for LoopTerm {
    fn write(&mut self, buf: &[u8]) -> std::io::Result<usize> {
        Ok(buf.len())
    }
    fn flush(&mut self) -> std::io::Result<()> {
        self.close_chunk();
        Ok(())
    }
}

impl Terminal for LoopTerm {
    fn execute(&mut self, cmd: TerminalCommand) -> Result<(), surf_n_term::Error> {
        self.open.push(cmd);
        Ok(())
    }
    fn waker(&self) -> surf_n_term::TerminalWaker {
        surf_n_term::TerminalWaker::new(|| Ok(()))
    }
    fn poll(&mut self, _timeout: Option<std::time::Duration>) -> Result<Option<surf_n_term::TerminalEvent>, surf_n_term::Error> {
        self.close_chunk();
        let stalled = self.polls >= self.stall.0 && self.polls < self.stall.0 + self.stall.1;
        if !stalled {
            let n = if self.deliver.is_empty() { 1 } else { self.deliver[self.polls % self.deliver.len()] as usize };
            self.accept(n);
        }
        let resize = self.resize_polls.iter().any(|p| *p as usize == self.polls);
        self.polls += 1;
        self.resize_round = resize;
        if resize {
            self.resizes += 1;
            return Ok(Some(surf_n_term::TerminalEvent::Resize(self.size)));
        }
        Ok(None)
    }
    fn dyn_ref(&mut self) -> &mut dyn Terminal {
        self
    }
    fn size(&self) -> Result<TerminalSize, surf_n_term::Error> {
        Ok(self.size)
    }
    fn position(&mut self) -> Result<Position, surf_n_term::Error> {
        Ok(Position::origin())
    }
    fn frames_pending(&self) -> usize {
        // queued chunks plus the trailing one being written
        self.queue.len() + 1
    }
    fn frames_drop(&mut self) {
        self.drops += 1;
        let frames = self.queue.drain(1.min(self.queue.len())..).flat_map(|c| c.cmds).collect();
        let open = std::mem::take(&mut self.open);
        self.discarded.push(Discarded { frames, open, resize_round: self.resize_round });
    }
    fn capabilities(&self) -> &TerminalCaps {
        &self.caps
    }
}

fn run_loop_case(h: usize, w: usize, px_rem: (u8, u8), rl: &RenderLoop) -> Outcome {
    use surf_n_term::TerminalAction;
    let mut term = LoopTerm {
        size: term_size(h, w, px_rem),
        caps: TerminalCaps { depth: surf_n_term::encoder::ColorDepth::TrueColor, glyphs: true, kitty_keyboard: false },
        open: Vec::new(),
        queue: Default::default(),
        delivered: Vec::new(),
        discarded: Vec::new(),
        resize_round: false,
        tag: 0,
        polls: 0,
        drops: 0,
        max_pending: 0,
        stall: (rl.stall.0 as usize, rl.stall.1 as usize),
        deliver: rl.deliver.clone(),
        resize_polls: rl.resize_polls.clone(),
        resizes: 0,
    };
    let n = rl.frames.len();
    let skip: BTreeSet<usize> = if n == 0 { BTreeSet::new() } else { rl.no_frame.iter().map(|i| *i as usize % n).collect() };
    // what the application drew at each invocation (None = no frame requested)
    let mut drawn: Vec<Option<Vec<Cell>>> = Vec::new();
    let mut step = 0usize;
    let result = guard_val(|| {
        term.run_render(|term, _event, mut view| -> Result<TerminalAction<()>, surf_n_term::Error> {
            term.max_pending = term.max_pending.max(term.frames_pending());
            if step >= n {
                // last invocation: an empty frame, then quit
                term.tag = step;
                drawn.push(Some(snapshot(&view)));
                step += 1;
                return Ok(TerminalAction::Quit(()));
            }
            term.tag = step;
            let action = if skip.contains(&step) {
                drawn.push(None);
                // TerminalAction::WaitNoFrame would make the next poll wait for ever on a real
                // terminal; on the scripted one a poll never blocks
                TerminalAction::WaitNoFrame
            } else {
                for layer in &rl.layers {
                    let on = step >= layer.from as usize && step < layer.from as usize + layer.len as usize;
                    if on && term.frames_pending() <= layer.max_pending as usize {
                        paint(&mut view, &layer.puts, h, w);
                    }
                }
                paint(&mut view, &rl.frames[step], h, w);
                drawn.push(Some(snapshot(&view)));
                TerminalAction::Sleep(std::time::Duration::ZERO)
            };
            step += 1;
            Ok(action)
        })
    })?;
    result.map_err(|e| Fail::new("loop/run-render-error", format!("{e:?}")))?;
    // the terminal catches up
    term.close_chunk();
    let rest = term.queue.len();
    term.accept(rest);

    let mut screen = Screen::new(h, w);
    let mut labels: BTreeSet<&'static str> = BTreeSet::new();
    let mut frames = 0usize;
    let mut last_tag = None;
    let mut drops_seen = 0usize;
    for Chunk { tag, drops, clears, cmds } in &term.delivered {
        // Frame drops that took place before the commands of this chunk were issued. Everything
        // issued before such a drop and not discarded by it has reached the screen by now.
        // `must_go`: images on the screen whose erase was in none of the discarded frames, so
        // the renderer still knew them when it had to clear
        let mut must_go: Option<BTreeSet<PKey>> = None;
        while drops_seen < *drops {
            let d = &term.discarded[drops_seen];
            drops_seen += 1;
            // the design limit: an image on the screen whose erase was part of a dropped frame
            let lost = screen.erases_lost_with(&d.frames);
            if !lost.is_empty() {
                labels.insert("loop:image-erase-in-dropped-frame");
            }
            screen.erase_lost.extend(lost);
            if d.resize_round {
                let lost: BTreeSet<PKey> = screen.erases_lost_with(&d.open).difference(&screen.erase_lost).cloned().collect();
                screen.erase_lost_resize.extend(lost);
            }
            must_go = Some(
                screen
                    .placements
                    .iter()
                    .map(|p| (p.key, p.row, p.col))
                    .filter(|pk| !screen.erase_lost.contains(pk) && !screen.erase_lost_resize.contains(pk))
                    .collect(),
            );
        }
        let after_drop = *drops > 0;
        screen.epoch = *clears;
        let cmds: Vec<TerminalCommand> = cmds
            .iter()
            .filter(|c| !matches!(c, TerminalCommand::DecModeSet { mode: surf_n_term::DecMode::SynchronizedOutput, .. }))
            .cloned()
            .collect();
        for cmd in &cmds {
            screen.apply(cmd);
        }
        if let Some((sig, msg)) = screen.problems.first() {
            return Err(Fail::new(sig.clone(), format!("render loop, frame of invocation {tag}: {msg}; commands {:?}", cmds)));
        }
        // a Resize event handled by an invocation that asks for no frame: the loop's clear()
        // may erase images, nothing else is rendered and nothing is claimed about the screen
        if matches!(drawn.get(*tag), Some(None)) && cmds.iter().all(|c| matches!(c, TerminalCommand::ImageErase(..))) {
            continue;
        }
        let Some(Some(snap)) = drawn.get(*tag) else {
            return Err(Fail::new(
                "loop/frame-without-drawing",
                format!("a frame was rendered for invocation {tag} although the handler asked for no frame; commands {:?}", cmds),
            ));
        };
        frames += 1;
        last_tag = Some(*tag);
        let checked = check_display(
            &screen,
            snap,
            h,
            w,
            term.size,
            &format!("render loop, frame of handler invocation {tag} (delivered as #{frames}; {} frame drops before it)", if after_drop { "one or more" } else { "no" }),
            &cmds,
        );
        let exp = match checked {
            Ok(exp) => exp,
            Err(f) => return Err(f),
        };
        if after_drop {
            labels.insert("loop:frame-delivered-after-a-drop");
        }
        if let Some(must_go) = must_go {
            // the first frame after a drop: images that were on the screen, that no dropped
            // frame erased, and that this frame no longer has where they were -- only the
            // forced clear can have removed them
            if must_go.iter().any(|pk| !exp.placements.iter().any(|p| (p.key, p.row, p.col) == *pk)) {
                labels.insert("loop:image-erased-by-forced-clear-of-drop");
            }
        }
    }
    // the frame of the last invocation was rendered after any drop, so it has been delivered
    let last_drawn = drawn.iter().rposition(|d| d.is_some());
    ensure!(
        last_tag == last_drawn,
        "loop/last-frame-missing",
        "the last frame delivered is that of invocation {:?} but the last one drawn was {:?}",
        last_tag,
        last_drawn
    );
    let dropped = term.drops > 0;
    let mut pass = Pass::new(dropped && labels.contains("loop:frame-delivered-after-a-drop"))
        .label("render-loop")
        .label_if(dropped, "loop:frames-dropped")
        .label_if(term.resizes > 0, "loop:resize-events")
        .label_if(!skip.is_empty(), "loop:no-frame-invocations")
        .label_if(!rl.layers.is_empty(), "loop:persistent-layers")
        .label_if(term.size.pixels != Size::new(h * PPC.height, w * PPC.width), "term:pixel-size-not-a-multiple-of-cells")
        .label_if(frames >= 2, "frames>=2");
    for l in labels {
        pass = pass.label(l);
    }
    Ok(pass)
}

// ---- generator ----------------------------------------------------------------------------

fn put() -> BoxedStrategy<Put> {
    let kind = prop_oneof![
        8 => (0u8..6).prop_map(Kind::Narrow),
        3 => (0u8..2).prop_map(Kind::Wide),
        2 => (0u8..7).prop_map(Kind::Image),
        1 => (0u8..2).prop_map(Kind::Glyph),
    ];
    (any::<u16>(), any::<u16>(), prop_oneof![3 => Just(0u8), 3 => Just(1u8), 1 => Just(2u8), 1 => Just(3u8)], kind, 0u8..5)
        .prop_map(|(row, col, rel, kind, face)| Put { row, col, rel, kind, face })
        .boxed()
}

fn puts() -> BoxedStrategy<Vec<Put>> {
    prop_oneof![
        4 => proptest::collection::vec(put(), 0..10),
        // a run of equal blanks with a non-default face (EraseChars path)
        1 => (any::<u16>(), any::<u16>(), 1usize..9, 1u8..5).prop_map(|(row, col, n, face)| {
            (0..n)
                .map(|i| Put { row, col, rel: if i == 0 { 0 } else { 1 }, kind: Kind::Narrow(0), face })
                .collect()
        }),
    ]
    .boxed()
}

impl Property for C01 {
    type Case = Case;

    fn fuzz(&self) -> Option<FuzzSpec> {
        // entropy-driven target: libFuzzer's bytes replace the generator's random numbers
        Some(FuzzSpec { target: "gen", jobs: 8, runs: 200_000, max_len: 4096, seeds: 64 })
    }

    fn id(&self) -> &'static str {
        "C01"
    }

    fn strategy(&self, tier: Tier) -> BoxedStrategy<Case> {
        let (maxh, maxw, maxops) = tier.pick((7u8, 11u8, 12usize), (9u8, 40u8, 30usize));
        let op = move || {
            prop_oneof![
                8 => puts().prop_map(Op::Paint),
                3 => Just(Op::Repaint),
                8 => Just(Op::Frame),
                1 => Just(Op::NoFrame),
                1 => Just(Op::Clear),
                1 => proptest::collection::vec(puts(), 1..3).prop_map(Op::Dropped),
                1 => (1..=maxh, 1..=maxw, proptest::collection::vec((any::<u8>(), 0u8..5), 0..12))
                    .prop_map(|(height, width, scramble)| Op::Recreate { height, width, scramble }),
            ]
        };
        // pixels beyond cells x 4x2 (taken modulo the number of cells): half of the terminals
        // report an exact multiple, the others a remainder on one or both axes
        let px_rem = || prop_oneof![3 => Just((0u8, 0u8)), 2 => (any::<u8>(), any::<u8>()), 1 => (Just(0u8), any::<u8>())];
        let direct = (1..=maxh, 1..=maxw, proptest::collection::vec(op(), 1..maxops), px_rem()).prop_map(|(height, width, mut ops, px_rem)| {
            ops.push(Op::Frame);
            Case { height, width, ops, render_loop: None, px_rem }
        });
        // the render loop drops frames when more than 32 are pending: sessions long enough to
        // get there (a stall of 0..60 polls in a session of 1..60 frames), painting little
        let small = proptest::collection::vec(put(), 0..4);
        // persistent content (mostly pictures): repainted at every invocation of an interval,
        // and by some applications only while the terminal keeps up -- `max_pending` is the
        // number of pending frames up to which the layer is painted: any lag (255), a random
        // limit, or the limit at which the library itself starts dropping frames (32)
        let layer_put = (put(), prop_oneof![3 => (0u8..7).prop_map(Kind::Image), 1 => (0u8..2).prop_map(Kind::Glyph), 2 => (0u8..6).prop_map(Kind::Narrow)])
            .prop_map(|(put, kind)| Put { kind, ..put });
        let layer = (
            proptest::collection::vec(layer_put, 1..3),
            prop_oneof![1 => Just(0u8), 1 => 0u8..24],
            prop_oneof![1 => 1u8..70, 1 => 30u8..70],
            prop_oneof![2 => Just(255u8), 1 => 0u8..40, 2 => Just(32u8)],
        )
            .prop_map(|(puts, from, len, max_pending)| Layer { puts, from, len, max_pending });
        let looped = (
            1..=maxh.min(5),
            1..=maxw.min(8),
            prop_oneof![2 => proptest::collection::vec(small.clone(), 1..60), 1 => proptest::collection::vec(small, 40..64)],
            proptest::collection::vec(any::<u8>(), 0..3),
            (0u8..20, prop_oneof![2 => 0u8..60, 1 => 33u8..60]),
            proptest::collection::vec(0u8..4, 0..4),
            prop_oneof![1 => Just(Vec::new()), 1 => proptest::collection::vec(0u8..40, 1..4)],
            prop_oneof![1 => Just(Vec::new()), 2 => proptest::collection::vec(layer, 1..3)],
            px_rem(),
        )
            .prop_map(|(height, width, frames, no_frame, stall, deliver, resize_polls, layers, px_rem)| Case {
                height,
                width,
                px_rem,
                ops: Vec::new(),
                render_loop: Some(RenderLoop { frames, no_frame, stall, deliver, resize_polls, layers }),
            });
        prop_oneof![11 => direct, 1 => looped].boxed()
    }

    fn check(&self, case: &Case) -> Outcome {
        run_case(case)
    }

    fn cases(&self, tier: Tier) -> u32 {
        tier.pick(60_000, 1_000_000)
    }

    fn rule(&self) -> String {
        "terminal 1..7 x 1..11 cells (thorough up to 9x40), cell = 4x2 pixels; half of the terminals report exactly cells x 4x2 pixels, the others cells x 4x2 + r pixels with 0 <= r < cells on each axis (a window that is not a whole number of cells big: pixels_per_cell() is still 4x2, but pixels/cells is not an integer), kept across Recreate and used for the from-scratch renderer too; history of 1-12 ops (thorough 30): Paint (0-9 cells: narrow chars from {' ',a,b,c,d}, wide chars 世/🤩, 7 pool images reused by Arc (1x1/2x2/1x3 cells, plus four equal-sized windows at different offsets into one backing picture), 2 glyphs; 5 pool faces; positions absolute or right-neighbour / same cell / below the previous put, plus runs of equal coloured blanks), Repaint (previous frame's cells again), Frame (delivered + checked), NoFrame, Clear, Dropped (1-2 frames rendered but never delivered, then the mandatory clear()), Recreate (clear(), screen scrambled, possibly resized, new renderer with clear=true). One case in 12 instead drives the library's own render loop (Terminal::run_render) on a terminal whose output queue is scripted: 1-63 handler invocations (a third of the sessions at least 40) painting 0-3 cells each (some answering WaitNoFrame), in two thirds of the sessions on top of 1-2 persistent layers (1-2 cells, mostly pictures/glyphs, painted again at every invocation of an interval from..from+len, either whatever the lag or only while Terminal::frames_pending() is at most a limit: random 0-39, or 32, the number of pending frames above which the loop itself drops frames) so that an image stays on the screen unchanged over many frames and disappears at an arbitrary round, including the round that drops frames; the terminal accepting 0-3 queued frames per poll and nothing at all during a stall of 0-59 polls (a third of the sessions at least 33), so that the loop's frame dropping (more than 32 frames pending: frames_drop + clear()) takes place, and in half of these cases 1-3 polls reporting a Resize event with the unchanged size (the loop answers with clear() and a new renderer); every frame that reaches the screen is checked, and the frame of the last invocation must be among them. A stale image is attributed to the listed design limit (signature display/stale-image-after-dropped-frames) only if the ImageErase of that very placement (image, cell) was issued in a frame that was then dropped (Dropped op / chunks discarded by frames_drop) and the placement has not been drawn again since; a frame is reported under that signature only if it has no other mismatch. Any other stale image is a violation: display/stale-image-survives-forced-clear when it was drawn before a forced clear (clear(), frame drop + clear(), re-creation, Resize) issued since, display/stale-image otherwise. A second listed finding has a signature of its own (display/stale-image-resize-clear-discarded-by-drop): an image whose erase was issued by the clear() answering a Resize event and discarded by frames_drop in the same round of the render loop. A picture that the surface has at that cell but that covers, on the screen, a cell outside the extent of its cell (glyph: declared size) is reported as display/picture-exceeds-the-cells-of-its-cell. After every delivered frame the reference screen's display must equal (1) the display the surface denotes and (2) the display a brand-new renderer produces for the same surface on a blank screen. non-trivial = >=2 delivered frames, the later differing from the earlier, and one of: wide char in both, image kept/moved/removed, blank run >=5, forced clear on a non-blank screen, dropped frames, re-creation; render-loop cases: a frame delivered after the loop dropped frames. Labels of the render-loop sessions: loop:persistent-layers, loop:image-erase-in-dropped-frame (the design limit's precondition), loop:image-erased-by-forced-clear-of-drop (an image on the screen that no dropped frame erased and that the first frame after the drop no longer has: only the loop's forced clear can remove it)".into()
    }

    fn assumptions(&self) -> Vec<String> {
        vec![
            "terminal semantics: Char writes at the cursor with the current face and advances by its width; overwriting one half of a wide character blanks the other half keeping that cell's face; EraseChars(n) blanks max(n,1) cells with the current face; images are drawn above text; drawing the same image at the same cell replaces that placement".into(),
            "z-order among overlapping images is terminal specific (kitty: by image id, sixel: by time): only the set of images covering a cell is compared".into(),
            "a wide character whose right half lies under an image is terminal specific: those two cells are exempt from oracle (1) and judged by the differential oracle only".into(),
            "image identity = pixel content hash + position; glyph rasterisation is trusted to be deterministic".into(),
            "extent of a placement: on the reference screen a picture covers ceil(pixels / (4x2)) cells from its cell on (integer cell size = TerminalSize::pixels_per_cell(), left-over pixels are padding); in the display the surface denotes an image cell covers the same, a glyph cell covers exactly the size in cells it was declared with (Glyph::size()), whatever the pixel size of the terminal".into(),
            "zero-width characters and wide characters in the last column are outside the domain".into(),
            "render loop: the scripted terminal's frames_drop discards every queued chunk but the one in flight and the chunk being filled (as IOQueue::clear_but_last does); commands discarded that way never reach the reference screen; the statement's 'skipped frames' and 'forced clear' clauses are taken to cover the loop's frame dropping, except for the listed design limit (an ImageErase that was itself part of a dropped frame)".into(),
        ]
    }
}
