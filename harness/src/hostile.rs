//! Input generators for the decoder properties (C02, C03): raw bytes, grammar-aware hostile
//! strings (every sequence skeleton with extreme/empty/overlong parameters, missing
//! terminators, malformed UTF-8) and mutations of well-formed protocol-printer output.

use crate::c04::TABLE;
use crate::ttyout;
use proptest::prelude::*;

/// decimal parameter values: empty, zero, leading zeros, powers of two +-1, 2^32, 2^64 +-1, huge
pub fn param() -> BoxedStrategy<String> {
    let pow2 = (0u32..=65).prop_flat_map(|k| {
        let base: u128 = 1u128 << k;
        prop_oneof![Just(base - 1), Just(base), Just(base + 1)]
    });
    prop_oneof![
        2 => Just(String::new()),
        3 => Just("0".to_string()),
        3 => Just("1".to_string()),
        1 => Just("00".to_string()),
        1 => Just("007".to_string()),
        6 => (0u32..=300).prop_map(|v| v.to_string()),
        4 => pow2.prop_map(|v| v.to_string()),
        // numbers that agree with a meaningful small value (DEC modes, statuses, SGR codes, key
        // codes) modulo 2^8 / 2^16 / 2^32 / 2^64: a truncating cast would turn them into it
        2 => (proptest::sample::select(vec![0u128, 1, 2, 4, 7, 25, 38, 48, 80, 97, 1000, 1003, 1006, 1049, 2004, 2026]), proptest::sample::select(vec![8u32, 16, 32, 64]))
            .prop_map(|(m, k)| ((1u128 << k) + m).to_string()),
        1 => Just("4294967296".to_string()),
        1 => Just("18446744073709551615".to_string()),
        1 => Just("18446744073709551616".to_string()),
        1 => Just("18446744073709551617".to_string()),
        2 => "[0-9]{20,40}",
        1 => "0{18,30}[1-9]",
    ]
    .boxed()
}

fn params(sep: &'static str, n: std::ops::RangeInclusive<usize>) -> BoxedStrategy<String> {
    proptest::collection::vec(param(), n)
        .prop_map(move |v| v.join(sep))
        .boxed()
}

fn text_no_esc() -> BoxedStrategy<Vec<u8>> {
    proptest::collection::vec(
        prop_oneof![
            8 => 0x20u8..=0x7e,
            1 => Just(b';'),
            1 => Just(b'='),
            1 => Just(7u8),
            1 => Just(b'\n'),
            2 => 0x80u8..=0xff,
            1 => 0u8..=0x1a,
        ],
        0..16,
    )
    .boxed()
}

fn hexs() -> BoxedStrategy<String> {
    prop_oneof![4 => "([0-9a-fA-F]{2}){0,6}", 1 => "[0-9a-fA-F]{0,7}", 1 => "[0-9a-fg]{0,6}"].boxed()
}

/// malformed and boundary UTF-8: every kind of lead byte with 0..=3 continuation bytes
pub fn utf8ish() -> BoxedStrategy<Vec<u8>> {
    let lead = prop_oneof![
        2 => 0xc0u8..=0xdf,
        2 => 0xe0u8..=0xef,
        2 => 0xf0u8..=0xf7,
        1 => 0xf8u8..=0xff,
        1 => 0x80u8..=0xbf,
        1 => proptest::sample::select(vec![0xc0u8, 0xc1, 0xe0, 0xed, 0xef, 0xf0, 0xf4, 0xf5, 0xf7]),
    ];
    let cont = prop_oneof![
        6 => 0x80u8..=0xbf,
        2 => proptest::sample::select(vec![0x80u8, 0x8f, 0x90, 0x9f, 0xa0, 0xbf]),
        1 => any::<u8>(),
    ];
    prop_oneof![
        6 => (lead, proptest::collection::vec(cont, 0..=3)).prop_map(|(l, c)| {
            let mut v = vec![l];
            v.extend(c);
            v
        }),
        // specific ill-formed scalar encodings
        1 => proptest::sample::select(vec![
            vec![0xedu8, 0xa0, 0x80],       // U+D800 surrogate
            vec![0xed, 0xbf, 0xbf],         // U+DFFF
            vec![0xf4, 0x90, 0x80, 0x80],   // U+110000
            vec![0xf7, 0xbf, 0xbf, 0xbf],   // U+1FFFFF
            vec![0xc0, 0x80],               // overlong NUL
            vec![0xe0, 0x80, 0x80],         // overlong
            vec![0xf0, 0x80, 0x80, 0x80],   // overlong
            vec![0xc1, 0xbf],
            vec![0xf4, 0x8f, 0xbf, 0xbf],   // U+10FFFF (valid)
            vec![0xef, 0xbf, 0xbf],         // U+FFFF (valid)
        ]),
        2 => any::<char>().prop_map(|c| c.to_string().into_bytes()),
    ]
    .boxed()
}

/// one hostile sequence skeleton
pub fn skeleton() -> BoxedStrategy<Vec<u8>> {
    let s = |f: BoxedStrategy<String>| f.prop_map(String::into_bytes).boxed();
    let bytes = |pre: &'static [u8], mid: BoxedStrategy<Vec<u8>>, post: &'static [u8]| {
        mid.prop_map(move |m| {
            let mut v = pre.to_vec();
            v.extend(m);
            v.extend(post);
            v
        })
        .boxed()
    };
    prop_oneof![
        // CPR / modified keys
        4 => s(params(";", 0..=3).prop_flat_map(|p| proptest::sample::select(vec!['R', 'A', 'H', 'P', '~', 'u', 't', 'c', 'm', 'M', 'y']).prop_map(move |f| format!("\x1b[{p}{f}")).boxed()).boxed()),
        // mouse
        4 => s((params(";", 0..=4), any::<bool>()).prop_map(|(p, up)| format!("\x1b[<{p}{}", if up { 'M' } else { 'm' })).boxed()),
        // kitty keyboard
        4 => s((proptest::collection::vec(params(":", 0..=3), 0..=3)).prop_map(|f| format!("\x1b[{}u", f.join(";"))).boxed()),
        2 => s(param().prop_map(|p| format!("\x1b[?{p}u")).boxed()),
        // DECRPM / DA1
        3 => s(params(";", 0..=3).prop_map(|p| format!("\x1b[?{p}$y")).boxed()),
        3 => s(params(";", 0..=5).prop_map(|p| format!("\x1b[?{p}c")).boxed()),
        // SGR
        5 => s(proptest::collection::vec(params(":", 1..=6), 0..=6).prop_map(|f| format!("\x1b[{}m", f.join(";"))).boxed()),
        // size pair
        2 => s((params(";", 0..=3), params(";", 0..=3)).prop_map(|(a, b)| format!("\x1b[8;{a}t\x1b[4;{b}t")).boxed()),
        // OSC
        3 => s((param(), param(), hexs(), hexs(), hexs(), any::<bool>()).prop_map(|(a, b, r, g, bl, bel)| format!("\x1b]{a};{b};rgb:{r}/{g}/{bl}{}", if bel { "\x07" } else { "\x1b\\" })).boxed()),
        2 => (param(), text_no_esc(), any::<bool>()).prop_map(|(a, t, bel)| {
            let mut v = format!("\x1b]{a};").into_bytes();
            v.extend(t);
            v.extend(if bel { &b"\x07"[..] } else { &b"\x1b\\"[..] });
            v
        }).boxed(),
        // DECRPSS
        3 => s((proptest::sample::select(vec!["0", "1", "2", ""]), proptest::collection::vec(params(":", 1..=5), 0..=5), any::<bool>()).prop_map(|(c, f, m)| format!("\x1bP{c}$r{}{}\x1b\\", f.join(";"), if m { "m" } else { "q" })).boxed()),
        // XTGETTCAP
        3 => s((proptest::sample::select(vec!["0", "1"]), proptest::collection::vec((hexs(), proptest::option::of(hexs())), 0..=4)).prop_map(|(c, kv)| {
            let items: Vec<String> = kv.into_iter().map(|(k, v)| match v { Some(v) => format!("{k}={v}"), None => k }).collect();
            format!("\x1bP{c}+r{}\x1b\\", items.join(";"))
        }).boxed()),
        // kitty graphics response
        3 => (proptest::collection::vec(("[a-zA-Z0-9]{0,3}", param()), 0..=4), text_no_esc()).prop_map(|(kv, t)| {
            let items: Vec<String> = kv.into_iter().map(|(k, v)| format!("{k}={v}")).collect();
            let mut v = format!("\x1b_G{};", items.join(",")).into_bytes();
            v.extend(t);
            v.extend(b"\x1b\\");
            v
        }).boxed(),
        // paste
        3 => bytes(b"\x1b[200~", text_no_esc(), b"\x1b[201~"),
        // malformed UTF-8
        6 => utf8ish(),
        // bare introducers and control bytes
        3 => proptest::sample::select(vec![
            b"\x1b".to_vec(), b"\x1b[".to_vec(), b"\x1bO".to_vec(), b"\x1bP".to_vec(), b"\x1b]".to_vec(), b"\x1b_".to_vec(),
            b"\x1b[<".to_vec(), b"\x1b[?".to_vec(), b"\x1b[200~".to_vec(), b"\x1b\\".to_vec(), b"\x07".to_vec(), b"\x00".to_vec(), b"\x7f".to_vec(),
            b"\x1b[1;".to_vec(), b"\x1b_G".to_vec(), b"\x1bP1+r".to_vec(), b"\x1bP1$r".to_vec(), b"\x1b[8;".to_vec(),
        ]),
        // plain text
        3 => proptest::collection::vec(0x20u8..=0x7e, 1..6).boxed(),
    ]
    .boxed()
}

/// truncate a skeleton (missing terminator)
fn truncated(inner: BoxedStrategy<Vec<u8>>) -> BoxedStrategy<Vec<u8>> {
    (inner, any::<u16>(), 0u8..4)
        .prop_map(|(mut v, cut, do_cut)| {
            if do_cut == 0 && !v.is_empty() {
                let keep = (cut as usize * (v.len() + 1)) >> 16;
                v.truncate(keep);
            }
            v
        })
        .boxed()
}

/// well-formed printer output (bytes of 1..=5 items)
pub fn wellformed() -> BoxedStrategy<Vec<u8>> {
    let n = TABLE.len();
    proptest::collection::vec(ttyout::item_strategy(n), 1..=5)
        .prop_map(|items| {
            let mut out = Vec::new();
            for i in &items {
                i.encode(&TABLE, &mut out);
            }
            out
        })
        .boxed()
}

/// byte strings from the repository's own decoder tests
pub fn golden() -> Vec<Vec<u8>> {
    vec![
        b"\x1bOR\x1b[15~AB\x1bM".to_vec(),
        b"\x1bOT".to_vec(),
        b"\x1b[97;15R".to_vec(),
        b"\x1b[8;101;202t\x1b[4;3104;1482t".to_vec(),
        b"\x1b[<0;94;14M\x1b[<26;33;26m\x1b[<65;142;30M".to_vec(),
        "\u{1F431}".as_bytes().to_vec(),
        b"\x1b[?1000;1$y\x1b[?2026;0$y".to_vec(),
        b"\x1b_Gi=127;OK\x1b\\\x1b_Gi=31,p=11,ignored=attr;error message\x1b\\".to_vec(),
        b"\x1bP1+r62656c=5e47;626f6c64=1b5b316d\x1b\\\x1bP0+r73757266;7465726d\x1b\\".to_vec(),
        b"\x1b[?62;c\x1b[?64;4c".to_vec(),
        b"\x1b]4;1;rgb:cc/24/1d\x1b\\\x1b]10;#ebdbb2\x07".to_vec(),
        b"\x1b[48;5;150m\x1b[1m\x1b[38:2:255:128:64m\x1b[m\x1b[32m\x1b[1;4;91;102m\x1b[24m\x1b[4:3m\x1b[58;2;1;2;3m".to_vec(),
        b"\x1bP1$r48:2:1:2:3m\x1b\\\x1bP1$r0;48:2::6:5:4m\x1b\\".to_vec(),
        b"\x1b[?15u\x1b[27;7u\x1b[99;5u\x1b[1;6P\x1b[9;0u".to_vec(),
        b"\x1b[200~some awesome text\x1b[201~".to_vec(),
    ]
}

/// mutation of a base string: splice, truncate, duplicate, bit flip, byte insert
fn mutated(base: BoxedStrategy<Vec<u8>>) -> BoxedStrategy<Vec<u8>> {
    (base, proptest::collection::vec((0u8..6, any::<u16>(), any::<u16>(), any::<u8>()), 1..4))
        .prop_map(|(mut v, muts)| {
            for (kind, a, b, byte) in muts {
                if v.is_empty() {
                    v.push(byte);
                    continue;
                }
                let i = (a as usize * v.len()) >> 16;
                let j = (b as usize * (v.len() + 1)) >> 16;
                match kind {
                    0 => v[i] ^= 1 << (byte % 8),
                    1 => v[i] = byte,
                    2 => v.insert(j, byte),
                    3 => {
                        v.remove(i);
                    }
                    4 => {
                        // duplicate a slice
                        let (lo, hi) = (i.min(j), i.max(j));
                        let dup: Vec<u8> = v[lo..hi.min(v.len())].to_vec();
                        let at = hi.min(v.len());
                        v.splice(at..at, dup);
                    }
                    _ => v.truncate(j),
                }
            }
            v
        })
        .boxed()
}

/// The full input distribution; `max_raw` bounds the length of pure random byte strings.
pub fn input(max_raw: usize) -> BoxedStrategy<Vec<u8>> {
    let concat = |parts: BoxedStrategy<Vec<Vec<u8>>>| parts.prop_map(|p| p.concat()).boxed();
    let golden_s = proptest::sample::select(golden()).boxed();
    prop_oneof![
        // (i) raw bytes
        2 => proptest::collection::vec(any::<u8>(), 0..max_raw).boxed(),
        1 => proptest::collection::vec(prop_oneof![3 => Just(0x1bu8), 2 => b'0'..=b'9', 1 => Just(b';'), 1 => Just(b'['), 1 => Just(b'<'), 1 => Just(b'?'), 2 => any::<u8>()], 0..48).boxed(),
        // (ii) grammar-aware hostile
        6 => concat(proptest::collection::vec(truncated(skeleton()), 1..=6).boxed()),
        // (iii) mutations of well-formed output and of the repository's test strings
        3 => mutated(wellformed()),
        2 => mutated(golden_s.clone()),
        // well-formed concatenations (so that chunk independence is also exercised on valid input)
        3 => wellformed(),
        1 => concat(proptest::collection::vec(prop_oneof![wellformed(), truncated(skeleton())], 2..=4).boxed()),
        1 => golden_s,
    ]
    .boxed()
}

/// a partition of `len` bytes into reads, from cut fractions (duplicates = empty reads)
pub fn cuts_from(fracs: &[u16], len: usize) -> Vec<usize> {
    let mut cuts: Vec<usize> = fracs.iter().map(|f| (*f as usize * (len + 1)) >> 16).collect();
    cuts.sort();
    cuts
}

pub fn split<'a>(input: &'a [u8], cuts: &[usize]) -> Vec<&'a [u8]> {
    let mut out = Vec::new();
    let mut prev = 0;
    for &c in cuts {
        let c = c.min(input.len()).max(prev);
        out.push(&input[prev..c]);
        prev = c;
    }
    out.push(&input[prev..]);
    out
}
