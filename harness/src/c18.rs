//! C18 — key-chord maps behave as a last-writer-wins, prefix-free dictionary of chords.
//!
//! Three kinds of case:
//! * `Map`    — a registration history (`register` / `register_override`) replayed against a
//!              dictionary model; after EVERY step every non-empty chord over the key pool up
//!              to length 4 is looked up and `for_each` is compared with the model.
//! * `Stream` — a history, then segments typed key by key into `KeyMap::lookup_state` and
//!              `KeyMapHandler::handle`: a bound chord from idle, or an unbound key followed
//!              by a bound chord.  The handler then lives on through 0..3 *rebinds*: optionally
//!              a proper prefix of a bound chord is typed and left pending, then the bindings
//!              are replaced (`KeyMapHandler::clear()` + a new history that may repeat part of
//!              the old one) or extended in place (`register` on top, no reset), and more
//!              segments are typed.
//! * `Parse`  — a string given to `FromStr` of `Key`, `KeyChord` or `KeyName`: never panics,
//!              and whatever is accepted prints to a string that parses back to the same value.

use crate::engine::*;
use proptest::prelude::*;
use serde::{Deserialize, Serialize};
use std::collections::{BTreeMap, BTreeSet};
use std::ops::Bound;
use surf_n_term::keys::KeyMapResult;
use surf_n_term::{Key, KeyChord, KeyMap, KeyMapHandler, KeyMod, KeyName};

pub struct C18;

// ---------------------------------------------------------------------------------------
// cases

/// Index into `key_of`: 0..POOL are used in chords, POOL..POOL+EXTRA only as typed noise.
type K = u8;
const POOL: u8 = 6;
const EXTRA: u8 = 2;
/// exhaustive lookups cover every chord over the pool of length 1..=MAX_LOOKUP_LEN
const MAX_LOOKUP_LEN: usize = 4;

#[derive(Clone, Debug, PartialEq, Eq, Serialize, Deserialize)]
pub enum Op {
    /// `register(chord, fresh value)`; an empty chord is allowed (must do nothing)
    Register(Vec<K>),
    /// build another map by registering these chords, then `register_override(&other)`
    Override(Vec<Vec<K>>),
}

#[derive(Clone, Debug, PartialEq, Eq, Serialize, Deserialize)]
pub struct Seg {
    /// an unbound key typed first (selector into the keys that begin no bound chord)
    pub noise: Option<u16>,
    /// selector into the bound chords (sorted)
    pub chord: u16,
    /// before the unbound key: a proper prefix (selector, length selector) of a bound chord of
    /// two or more keys is typed and then abandoned -- the unbound key arrives mid-chord
    #[serde(default)]
    pub partial: Option<(u16, u8)>,
}

/// A handler-level operation between two runs of segments: the bindings of the SAME
/// `KeyMapHandler` are replaced or extended, possibly while keys are pending.
#[derive(Clone, Debug, PartialEq, Eq, Serialize, Deserialize)]
pub struct Rebind {
    /// typed into the handler right before the operation and left pending: a proper prefix
    /// (chord selector, length selector) of a bound chord of two or more keys
    #[serde(default)]
    pub pending: Option<(u16, u8)>,
    /// true: `KeyMapHandler::clear()`, then the new history is registered (bit i of `keep` set =
    /// operation i of the previous history is registered again first, as a reloaded
    /// configuration would), then `ops`.  false: `ops` are registered on top of the current
    /// bindings, nothing resets the matcher.
    #[serde(default)]
    pub clear: bool,
    #[serde(default)]
    pub keep: u16,
    #[serde(default)]
    pub ops: Vec<Op>,
    #[serde(default)]
    pub segs: Vec<Seg>,
}

#[derive(Clone, Copy, Debug, PartialEq, Eq, Serialize, Deserialize)]
pub enum Target {
    Key,
    Chord,
    Name,
}

#[derive(Clone, Debug, Serialize, Deserialize)]
pub enum Case {
    Map { ops: Vec<Op> },
    Stream {
        ops: Vec<Op>,
        segs: Vec<Seg>,
        #[serde(default)]
        rebinds: Vec<Rebind>,
    },
    Parse { target: Target, s: String },
}

fn key_of(k: K) -> Key {
    match k {
        0 => Key::new(KeyName::Char('a'), KeyMod::EMPTY),
        1 => Key::new(KeyName::Char('a'), KeyMod::CTRL),
        2 => Key::new(KeyName::Char('b'), KeyMod::EMPTY),
        3 => Key::new(KeyName::Char('x'), KeyMod::CTRL),
        4 => Key::new(KeyName::F(1), KeyMod::ALT | KeyMod::SHIFT),
        // differs from key 0 in letter case only (upper-case characters reach the map from the
        // decoder, never from the chord parser): the map must keep the two apart
        5 => Key::new(KeyName::Char('A'), KeyMod::EMPTY),
        // noise-only keys
        6 => Key::new(KeyName::Char('b'), KeyMod::ALT),
        _ => Key::new(KeyName::Enter, KeyMod::EMPTY),
    }
}

fn keys_of(c: &[K]) -> Vec<Key> {
    c.iter().map(|k| key_of(*k)).collect()
}

fn idx_of(key: &Key) -> Option<K> {
    (0..POOL + EXTRA).find(|k| key_of(*k) == *key)
}

fn show(c: &[K]) -> String {
    if c.is_empty() {
        return "<empty>".into();
    }
    c.iter()
        .map(|k| format!("{:?}", key_of(*k)))
        .collect::<Vec<_>>()
        .join(" ")
}

// ---------------------------------------------------------------------------------------
// dictionary model (written from the property statement)

#[derive(Clone, Copy, Debug, PartialEq, Eq)]
enum Look {
    Success(u32),
    Continue,
    Failure,
}

#[derive(Debug, PartialEq, Eq)]
enum Prev {
    Nothing,
    Value(u32),
    /// the chord was a proper prefix of these bound chords (suffix -> value)
    SubMap(BTreeMap<Vec<K>, u32>),
}

#[derive(Default, Clone, Copy)]
struct Effects {
    rebound_same: bool,
    superseded_prefix: usize,
    superseded_extensions: usize,
}

#[derive(Default, Clone, Debug)]
struct Model {
    bound: BTreeMap<Vec<K>, u32>,
}

impl Model {
    fn previous(&self, c: &[K]) -> Prev {
        if c.is_empty() {
            return Prev::Nothing;
        }
        if let Some(v) = self.bound.get(c) {
            return Prev::Value(*v);
        }
        let sub: BTreeMap<Vec<K>, u32> = self
            .bound
            .iter()
            .filter(|(k, _)| k.len() > c.len() && k.starts_with(c))
            .map(|(k, v)| (k[c.len()..].to_vec(), *v))
            .collect();
        if sub.is_empty() {
            Prev::Nothing
        } else {
            Prev::SubMap(sub)
        }
    }

    fn register(&mut self, c: &[K], v: u32) -> Effects {
        let mut eff = Effects::default();
        if c.is_empty() {
            return eff;
        }
        let doomed: Vec<Vec<K>> = self
            .bound
            .keys()
            .filter(|k| c.starts_with(k) || k.starts_with(c))
            .cloned()
            .collect();
        for k in doomed {
            if k.len() == c.len() {
                eff.rebound_same = true;
            } else if k.len() < c.len() {
                eff.superseded_prefix += 1;
            } else {
                eff.superseded_extensions += 1;
            }
            self.bound.remove(&k);
        }
        self.bound.insert(c.to_vec(), v);
        eff
    }

    fn lookup(&self, q: &[K]) -> Look {
        // lexicographic order: the extensions of q directly follow q
        match self
            .bound
            .range::<[K], _>((Bound::Included(q), Bound::Unbounded))
            .next()
        {
            Some((k, v)) if k.as_slice() == q => Look::Success(*v),
            Some((k, _)) if k.starts_with(q) => Look::Continue,
            _ => Look::Failure,
        }
    }

    fn begins_chord(&self, k: K) -> bool {
        self.bound.keys().any(|c| c[0] == k)
    }
}

// ---------------------------------------------------------------------------------------
// map oracle

fn lib_look(r: KeyMapResult<&u32>) -> Look {
    match r {
        KeyMapResult::Success(v) => Look::Success(*v),
        KeyMapResult::Continue => Look::Continue,
        KeyMapResult::Failure => Look::Failure,
    }
}

fn enumerate(map: &KeyMap<u32>) -> Result<(Vec<(Vec<K>, u32)>, bool), Fail> {
    let mut out = Vec::new();
    let mut foreign = false;
    map.for_each(|chord, v| {
        let mut c = Vec::with_capacity(chord.len());
        for k in chord {
            match idx_of(k) {
                Some(i) => c.push(i),
                None => foreign = true,
            }
        }
        out.push((c, *v));
    });
    Ok((out, foreign))
}

/// `for_each` lists exactly the model's pairs (as a set).
fn compare_enumeration(map: &KeyMap<u32>, model: &Model, ctx: &str) -> Result<(), Fail> {
    let (listed, foreign) = guard(|| enumerate(map))?;
    ensure!(
        !foreign,
        "enumeration/unknown-key",
        "{ctx}: for_each listed a chord containing a key that was never registered: {:?}",
        map
    );
    let listed_set: BTreeSet<(Vec<K>, u32)> = listed.into_iter().collect();
    let want: BTreeSet<(Vec<K>, u32)> = model.bound.iter().map(|(k, v)| (k.clone(), *v)).collect();
    if listed_set != want {
        let missing: Vec<String> = want
            .difference(&listed_set)
            .map(|(c, v)| format!("{}=>{}", show(c), v))
            .collect();
        let extra: Vec<String> = listed_set
            .difference(&want)
            .map(|(c, v)| format!("{}=>{}", show(c), v))
            .collect();
        let class = match (missing.is_empty(), extra.is_empty()) {
            (false, true) => "missing-bound-chord",
            (true, false) => "lists-unbound-chord",
            _ => "differs",
        };
        return Err(Fail::new(
            format!("enumeration/{class}"),
            format!(
                "{ctx}: for_each differs from the dictionary model: missing [{}], not bound in the model [{}]",
                missing.join(", "),
                extra.join(", ")
            ),
        ));
    }
    Ok(())
}

/// every non-empty chord over the first `pool` keys up to `max_len`
fn compare_lookups(
    map: &KeyMap<u32>,
    model: &Model,
    pool: u8,
    max_len: usize,
    ctx: &str,
) -> Result<(), Fail> {
    fn rec(
        map: &KeyMap<u32>,
        model: &Model,
        pool: u8,
        max_len: usize,
        q: &mut Vec<K>,
        qk: &mut Vec<Key>,
        ctx: &str,
    ) -> Result<(), Fail> {
        for k in 0..pool {
            q.push(k);
            qk.push(key_of(k));
            let got = lib_look(map.lookup(qk));
            let want = model.lookup(q);
            if got != want {
                let class = match (want, got) {
                    (Look::Success(_), Look::Success(_)) => "stale-or-wrong-value".to_string(),
                    _ => format!(
                        "want-{}-got-{}",
                        match want {
                            Look::Success(_) => "success",
                            Look::Continue => "continue",
                            Look::Failure => "failure",
                        },
                        match got {
                            Look::Success(_) => "success",
                            Look::Continue => "continue",
                            Look::Failure => "failure",
                        }
                    ),
                };
                return Err(Fail::new(
                    format!("lookup/{class}"),
                    format!(
                        "{ctx}: lookup({}) = {:?}, dictionary model = {:?}; bound chords: {:?}",
                        show(q),
                        got,
                        want,
                        model
                            .bound
                            .iter()
                            .map(|(c, v)| format!("{}=>{}", show(c), v))
                            .collect::<Vec<_>>()
                    ),
                ));
            }
            if q.len() < max_len {
                rec(map, model, pool, max_len, q, qk, ctx)?;
            }
            q.pop();
            qk.pop();
        }
        Ok(())
    }
    guard(|| rec(map, model, pool, max_len, &mut Vec::new(), &mut Vec::new(), ctx))
}

/// Return value of `register`, as far as its doc comment goes: "Returns previously registered
/// value or key_map associated with provided chord."
fn compare_return(
    ret: Option<Result<u32, KeyMap<u32>>>,
    prev: &Prev,
    c: &[K],
    ctx: &str,
) -> Result<(), Fail> {
    match (prev, ret) {
        (Prev::Nothing, None) => Ok(()),
        (Prev::Value(v), Some(Ok(r))) if *v == r => Ok(()),
        (Prev::SubMap(sub), Some(Err(m))) => {
            let (listed, foreign) = guard(|| enumerate(&m))?;
            let listed: BTreeSet<(Vec<K>, u32)> = listed.into_iter().collect();
            let want: BTreeSet<(Vec<K>, u32)> = sub.iter().map(|(k, v)| (k.clone(), *v)).collect();
            ensure!(
                !foreign && listed == want,
                "register-return/wrong-submap",
                "{ctx}: register({}) returned a key map {:?} but the bindings below that chord were {:?}",
                show(c),
                m,
                sub.iter().map(|(k, v)| format!("{}=>{}", show(k), v)).collect::<Vec<_>>()
            );
            Ok(())
        }
        (prev, ret) => Err(Fail::new(
            format!(
                "register-return/want-{}",
                match prev {
                    Prev::Nothing => "none",
                    Prev::Value(_) => "previous-value",
                    Prev::SubMap(_) => "previous-submap",
                }
            ),
            format!(
                "{ctx}: register({}) returned {:?}, but what was associated with that chord before was {:?}",
                show(c),
                ret,
                prev
            ),
        )),
    }
}

#[derive(Default)]
struct HistStats {
    registers: usize,
    overrides: usize,
    empty_chord: usize,
    rebound_same: usize,
    superseded_prefix: usize,
    superseded_extensions: usize,
    override_supersedes: usize,
    ret_value: usize,
    ret_submap: usize,
    max_bound: usize,
}

impl HistStats {
    fn nontrivial(&self) -> bool {
        self.superseded_prefix + self.superseded_extensions > 0
    }
    fn note(&mut self, e: Effects) {
        self.rebound_same += e.rebound_same as usize;
        self.superseded_prefix += e.superseded_prefix;
        self.superseded_extensions += e.superseded_extensions;
    }
    fn labels(&self, prefix: &str, mut p: Pass) -> Pass {
        for (cond, l) in [
            (self.superseded_prefix > 0, "supersedes-bound-prefix"),
            (self.superseded_extensions > 0, "supersedes-bound-extensions"),
            (
                self.superseded_prefix > 0 && self.superseded_extensions > 0,
                "supersedes-both-directions",
            ),
            (self.rebound_same > 0, "rebinds-same-chord"),
            (self.overrides > 0, "has-override"),
            (self.override_supersedes > 0, "override-supersedes"),
            (self.empty_chord > 0, "registers-empty-chord"),
            (self.ret_value > 0, "register-returned-previous-value"),
            (self.ret_submap > 0, "register-returned-previous-submap"),
            (self.max_bound >= 4, "bound>=4"),
            (self.registers + self.overrides == 0, "empty-history"),
        ] {
            if cond {
                p = p.label(format!("{prefix}/{l}"));
            }
        }
        p
    }
}

/// Replays a history on a `KeyMap` and on the model (values `value_base`+1, +2, ...).  With `every_step` the lookups over the
/// pool (`pool` keys, length ≤ `max_len`) and the enumeration are compared after every step.
/// `on_register` receives every elementary registration in model order (used to replay the
/// same history on a `KeyMapHandler`, which has no `register_override`).
fn replay_history(
    ops: &[Op],
    pool: u8,
    max_len: usize,
    every_step: bool,
    value_base: u32,
    mut on_register: impl FnMut(&[K], u32),
) -> Result<(KeyMap<u32>, Model, HistStats), Fail> {
    let mut map: KeyMap<u32> = KeyMap::new();
    let mut model = Model::default();
    let mut st = HistStats::default();
    let mut next_value = value_base;
    for (step, op) in ops.iter().enumerate() {
        // the return value is judged after the state of the map (the dictionary behaviour is
        // what the property is about; the return value is only documented)
        let mut returned = None;
        match op {
            Op::Register(c) => {
                next_value += 1;
                let v = next_value;
                let ctx = format!("step {step} register({}, {v})", show(c));
                let prev = model.previous(c);
                let keys = keys_of(c);
                let ret = guard_val(|| map.register(&keys, v))?;
                match &prev {
                    Prev::Value(_) => st.ret_value += 1,
                    Prev::SubMap(_) => st.ret_submap += 1,
                    Prev::Nothing => {}
                }
                returned = Some((ret, prev, c, ctx));
                let eff = model.register(c, v);
                st.note(eff);
                st.registers += 1;
                st.empty_chord += c.is_empty() as usize;
                on_register(c, v);
            }
            Op::Override(chords) => {
                let mut other: KeyMap<u32> = KeyMap::new();
                let mut other_model = Model::default();
                for c in chords {
                    next_value += 1;
                    let keys = keys_of(c);
                    guard_val(|| other.register(&keys, next_value))?;
                    other_model.register(c, next_value);
                }
                let ctx = format!("step {step} (the other map of register_override)");
                compare_enumeration(&other, &other_model, &ctx)?;
                guard_val(|| map.register_override(&other))?;
                // the other map is prefix-free, hence the order of its pairs is irrelevant
                let mut any = false;
                for (c, v) in &other_model.bound {
                    let eff = model.register(c, *v);
                    any |= eff.superseded_prefix + eff.superseded_extensions > 0;
                    st.note(eff);
                    on_register(c, *v);
                }
                st.override_supersedes += any as usize;
                st.overrides += 1;
            }
        }
        st.max_bound = st.max_bound.max(model.bound.len());
        if every_step || step + 1 == ops.len() {
            let ctx = format!("after step {step} of {:?}", DisplayOps(ops));
            compare_enumeration(&map, &model, &ctx)?;
            if every_step {
                compare_lookups(&map, &model, pool, max_len, &ctx)?;
            }
        }
        if let Some((ret, prev, c, ctx)) = returned {
            compare_return(ret, &prev, c, &ctx)?;
        }
    }
    Ok((map, model, st))
}

struct DisplayOps<'a>(&'a [Op]);
impl std::fmt::Debug for DisplayOps<'_> {
    fn fmt(&self, f: &mut std::fmt::Formatter<'_>) -> std::fmt::Result {
        let mut l = f.debug_list();
        for op in self.0 {
            match op {
                Op::Register(c) => l.entry(&format_args!("register({})", show(c))),
                Op::Override(cs) => l.entry(&format_args!(
                    "override[{}]",
                    cs.iter().map(|c| show(c)).collect::<Vec<_>>().join(" | ")
                )),
            };
        }
        l.finish()
    }
}

fn check_map(ops: &[Op]) -> Outcome {
    let (_, _, st) = replay_history(ops, POOL, MAX_LOOKUP_LEN, true, 0, |_, _| {})?;
    Ok(st.labels("map", Pass::new(st.nontrivial()).label("map")))
}

// ---------------------------------------------------------------------------------------
// stateful matcher oracle

fn pick<T>(sel: u16, items: &[T]) -> &T {
    &items[sel as usize * items.len() / 65536]
}

/// What the harness knows about the handler's matcher before the next key is typed.
#[derive(Clone, Copy, PartialEq, Eq)]
enum Sync {
    /// a fresh handler, one whose last `handle` fired a chord, or one on which `clear()` was
    /// called after the last key (registrations feed no keys and leave this as it is)
    Idle,
    /// a proper prefix was typed on purpose and left pending (the bindings may have been
    /// extended since, so nothing is known about what those keys mean now)
    Pending,
}

#[derive(Default)]
struct StreamStats {
    plain: usize,
    noisy: usize,
    multi: usize,
    noise_inside: usize,
    partials: usize,
    partials_long: usize,
    supersession: bool,
    // handler-level operations
    rebinds: usize,
    clears: usize,
    clears_pending: usize,
    clears_keep_some: usize,
    clear_then_typed: usize,
    clear_pending_then_typed: usize,
    clear_pending_then_noisy: usize,
    stale_would_match: usize,
    ontop: usize,
    ontop_idle_then_typed: usize,
    ontop_pending: usize,
    resync: usize,
}

/// One set of bindings the handler lives through.
struct Epoch<'a> {
    map: &'a KeyMap<u32>,
    model: &'a Model,
    /// how the handler got here (for messages)
    origin: String,
    /// signature infix of the handler's verdicts on the first segment of the epoch
    tag: &'static str,
    /// the prefix that was pending when `clear()` was called (empty: none / no clear)
    cleared_pending: Vec<K>,
}

/// Replays `ops` (values from `base`+1) on a new `KeyMap` and the model, and registers every
/// elementary registration after the first `skip` ones on the handler.  Returns the number of
/// elementary registrations as the fourth component.
fn replay_on_handler(
    ops: &[Op],
    base: u32,
    skip: usize,
    handler: &mut KeyMapHandler<u32>,
) -> Result<(KeyMap<u32>, Model, HistStats, usize), Fail> {
    let mut handler_panic = None;
    let mut n = 0usize;
    let (map, model, hist) = replay_history(ops, POOL, MAX_LOOKUP_LEN, false, base, |c, v| {
        n += 1;
        if n > skip && !c.is_empty() && handler_panic.is_none() {
            let keys = keys_of(c);
            if let Err(f) = guard_val(|| handler.register(&keys, v)) {
                handler_panic = Some(f);
            }
        }
    })?;
    if let Some(f) = handler_panic {
        return Err(f);
    }
    Ok((map, model, hist, n))
}

fn type_segments(
    ep: &Epoch,
    handler: &mut KeyMapHandler<u32>,
    segs: &[Seg],
    sync: &mut Sync,
    st: &mut StreamStats,
) -> Result<(), Fail> {
    let (map, model) = (ep.map, ep.model);
    let bound: Vec<(&Vec<K>, u32)> = model.bound.iter().map(|(c, v)| (c, *v)).collect();
    if bound.is_empty() || segs.is_empty() {
        return Ok(());
    }
    // both lists contain the two keys that are never registered, hence are never empty
    let unbound: Vec<K> = (0..POOL + EXTRA).filter(|k| !model.begins_chord(*k)).collect();
    let foreign: Vec<K> = (0..POOL + EXTRA)
        .filter(|k| !model.bound.keys().any(|c| c.contains(k)))
        .collect();
    let bound_desc = || {
        bound
            .iter()
            .map(|(c, v)| format!("{}=>{}", show(c), v))
            .collect::<Vec<_>>()
    };
    // `state` is the caller-managed chord vector of lookup_state; idle = empty
    let mut state: Vec<Key> = Vec::new();
    for (si, seg) in segs.iter().enumerate() {
        let first = si == 0;
        let tag = if first { ep.tag } else { "" };
        let (chord, value) = *pick(seg.chord, &bound);
        let mut noise = seg.noise.map(|n| *pick(n, &unbound));
        let mut abandoned = String::new();
        // the first key this segment feeds to the matcher
        let mut first_typed: Option<K> = None;
        let was_pending = *sync == Sync::Pending;
        if was_pending {
            // keys are pending in the handler and nothing resets it: the property promises
            // nothing for a chord typed now, except after an unbound key.  That key is taken
            // from the keys that occur in no bound chord at all.
            noise = Some(*pick(seg.noise.unwrap_or(seg.chord), &foreign));
            st.resync += 1;
        }
        // lookup_state: idle is defined by the empty vector, so make it so
        state.clear();
        // an abandoned partial chord in front of the unbound key: the unbound key is then taken
        // from the keys that occur in no bound chord at all, so that it cannot complete or
        // continue the abandoned chord
        if let (Some(n), Some((csel, plen))) = (seg.noise, seg.partial) {
            let long: Vec<&Vec<K>> = bound.iter().map(|(c, _)| *c).filter(|c| c.len() >= 2).collect();
            if !long.is_empty() && !foreign.is_empty() {
                let pc = *pick(csel, &long);
                let plen = 1 + plen as usize % (pc.len() - 1);
                for k in &pc[..plen] {
                    guard_val(|| {
                        map.lookup_state(&mut state, key_of(*k));
                    })?;
                    guard_val(|| {
                        handler.handle(key_of(*k));
                    })?;
                }
                noise = Some(*pick(n, &foreign));
                abandoned = show(&pc[..plen].to_vec());
                first_typed = Some(pc[0]);
                st.partials += 1;
                st.partials_long += (plen >= 2) as usize;
            }
        }
        if first && ep.tag == "after-clear/" {
            st.clear_then_typed += 1;
            if !ep.cleared_pending.is_empty() {
                st.clear_pending_then_typed += 1;
                st.clear_pending_then_noisy += noise.is_some() as usize;
                // would keys that survived the clear be taken for the beginning of something in
                // the new bindings?  (frequency of the situation in which a reset that forgets
                // the pending keys can be told from one that does not)
                let mut q = ep.cleared_pending.clone();
                q.push(first_typed.or(noise).unwrap_or(chord[0]));
                st.stale_would_match += (model.lookup(&q) != Look::Failure) as usize;
            }
        }
        if first && ep.tag == "after-register/" && !was_pending {
            st.ontop_idle_then_typed += 1;
        }
        if let Some(u) = noise {
            guard_val(|| {
                map.lookup_state(&mut state, key_of(u));
            })?;
            guard_val(|| {
                handler.handle(key_of(u));
            })?;
            st.noisy += 1;
            st.noise_inside += chord.contains(&u) as usize;
        } else {
            st.plain += 1;
        }
        st.multi += (chord.len() > 1) as usize;
        for (i, k) in chord.iter().enumerate() {
            let last = i + 1 == chord.len();
            let got_state = guard_val(|| map.lookup_state(&mut state, key_of(*k)).copied())?;
            let got_handler = guard_val(|| handler.handle(key_of(*k)).copied())?;
            for (api, got) in [("lookup_state", got_state), ("handler", got_handler)] {
                // the way the handler got here matters for the handler only
                let tag = if api == "handler" { tag } else { "" };
                let ctx = || {
                    format!(
                        "{}, segment {si}: {}typing bound chord [{}] (value {value}) {}, key #{i} ({:?}) via {api} returned {:?}; bound chords {:?}; earlier segments {:?}",
                        ep.origin,
                        match noise {
                            Some(u) if !abandoned.is_empty() => format!(
                                "after the abandoned partial chord [{abandoned}] and the unbound key {:?}, ",
                                key_of(u)
                            ),
                            Some(u) => format!("after the unbound key {:?}, ", key_of(u)),
                            None => String::new(),
                        },
                        show(chord),
                        if was_pending && api == "handler" {
                            "with keys pending before the unbound key"
                        } else {
                            "from idle"
                        },
                        key_of(*k),
                        got,
                        bound_desc(),
                        &segs[..si]
                    )
                };
                if last {
                    let class = if noise.is_some() {
                        "unbound-key-prevents-chord"
                    } else if got.is_none() {
                        "no-fire-at-last-key"
                    } else {
                        "fires-wrong-value"
                    };
                    ensure!(got == Some(value), format!("matcher/{api}/{tag}{class}"), "{}", ctx());
                } else if noise.is_none() {
                    // the property states "exactly at its last key" only for a chord typed
                    // from idle; after an unbound key it only promises that the chord fires
                    ensure!(
                        got.is_none(),
                        format!("matcher/{api}/{tag}fires-before-last-key"),
                        "{}",
                        ctx()
                    );
                }
            }
        }
        // the chord fired at its last key: nothing is pending
        *sync = Sync::Idle;
    }
    Ok(())
}

fn check_stream(ops: &[Op], segs: &[Seg], rebinds: &[Rebind]) -> Outcome {
    let mut handler: KeyMapHandler<u32> = KeyMapHandler::new();
    let mut st = StreamStats::default();
    let mut sync = Sync::Idle;
    // the history whose bindings the handler currently holds, the base of its values, and the
    // number of elementary registrations it consists of
    let mut cur_ops: Vec<Op> = ops.to_vec();
    let mut cur_base = 0u32;
    let (mut map, mut model, hist, mut n_elem) = replay_on_handler(&cur_ops, cur_base, 0, &mut handler)?;
    st.supersession |= hist.nontrivial();
    let mut pass = Pass::new(false).label("stream");
    type_segments(
        &Epoch {
            map: &map,
            model: &model,
            origin: "fresh handler, history registered".into(),
            tag: "",
            cleared_pending: Vec::new(),
        },
        &mut handler,
        segs,
        &mut sync,
        &mut st,
    )?;
    for (ri, rb) in rebinds.iter().enumerate() {
        st.rebinds += 1;
        // a proper prefix of a bound chord, typed from idle and left pending
        let mut pending: Vec<K> = Vec::new();
        if let (Some((csel, plen)), Sync::Idle) = (rb.pending, sync) {
            let long: Vec<&Vec<K>> = model.bound.keys().filter(|c| c.len() >= 2).collect();
            if !long.is_empty() {
                let pc = *pick(csel, &long);
                let plen = 1 + plen as usize % (pc.len() - 1);
                for (i, k) in pc[..plen].iter().enumerate() {
                    let got = guard_val(|| handler.handle(key_of(*k)).copied())?;
                    ensure!(
                        got.is_none(),
                        "matcher/handler/fires-before-last-key",
                        "rebind {ri}: typing the proper prefix [{}] of the bound chord [{}] from idle, key #{i} via handler returned {:?}; bound chords {:?}",
                        show(&pc[..plen]),
                        show(pc),
                        got,
                        model.bound.iter().map(|(c, v)| format!("{}=>{}", show(c), v)).collect::<Vec<_>>()
                    );
                }
                pending = pc[..plen].to_vec();
                sync = Sync::Pending;
            }
        }
        let pending_desc = if pending.is_empty() {
            match sync {
                Sync::Idle => "the handler idle".to_string(),
                Sync::Pending => "keys of an earlier rebind still pending".to_string(),
            }
        } else {
            format!("the prefix [{}] typed and pending", show(&pending))
        };
        let (origin, tag, skip);
        if rb.clear {
            guard_val(|| handler.clear())?;
            // clear() is the handler's reset: no bindings, no keys -- the state of new()
            sync = Sync::Idle;
            st.clears += 1;
            st.clears_pending += !pending.is_empty() as usize;
            let mut new_ops: Vec<Op> = cur_ops
                .iter()
                .enumerate()
                .filter(|(i, _)| *i < 16 && rb.keep >> *i & 1 == 1)
                .map(|(_, op)| op.clone())
                .collect();
            st.clears_keep_some += !new_ops.is_empty() as usize;
            new_ops.extend(rb.ops.iter().cloned());
            cur_ops = new_ops;
            cur_base = 1000 * (ri as u32 + 1);
            skip = 0;
            tag = "after-clear/";
            origin = format!(
                "rebind {ri}: with {pending_desc}, KeyMapHandler::clear() then {:?} registered",
                DisplayOps(&cur_ops)
            );
        } else {
            st.ontop += 1;
            st.ontop_pending += (sync == Sync::Pending) as usize;
            cur_ops.extend(rb.ops.iter().cloned());
            skip = n_elem;
            tag = "after-register/";
            origin = format!(
                "rebind {ri}: with {pending_desc}, {:?} registered on top (no clear)",
                DisplayOps(rb.ops.as_slice())
            );
        }
        let (m, md, hist, n) = replay_on_handler(&cur_ops, cur_base, skip, &mut handler)?;
        map = m;
        model = md;
        n_elem = n;
        st.supersession |= hist.nontrivial();
        type_segments(
            &Epoch {
                map: &map,
                model: &model,
                origin,
                tag,
                cleared_pending: if rb.clear { pending } else { Vec::new() },
            },
            &mut handler,
            &rb.segs,
            &mut sync,
            &mut st,
        )?;
    }
    pass.nontrivial = st.multi > 0 || st.noisy > 0;
    if st.plain + st.noisy == 0 {
        pass = pass.label("stream/nothing-to-type");
    }
    pass = pass
        .label_if(st.plain > 0, "stream/chord-from-idle")
        .label_if(st.noisy > 0, "stream/unbound-key-then-chord")
        .label_if(st.multi > 0, "stream/multi-key-chord")
        .label_if(st.noise_inside > 0, "stream/unbound-key-occurs-inside-the-chord")
        .label_if(st.partials > 0, "stream/abandoned-partial-chord-then-unbound-key")
        .label_if(st.partials_long > 0, "stream/abandoned-partial-chord-of-2+-keys-then-unbound-key")
        .label_if(st.supersession, "stream/history-with-supersession")
        .label_if(st.rebinds > 0, "stream/rebind")
        .label_if(st.clears > 0, "stream/rebind/clear")
        .label_if(st.clears_keep_some > 0, "stream/rebind/clear/new-history-repeats-old-registrations")
        .label_if(st.clear_then_typed > 0, "stream/rebind/clear/then-chord-typed")
        .label_if(st.clears_pending > 0, "stream/rebind/clear-while-prefix-pending")
        .label_if(st.clear_pending_then_typed > 0, "stream/rebind/clear-while-prefix-pending/then-chord-typed")
        .label_if(
            st.clear_pending_then_noisy > 0,
            "stream/rebind/clear-while-prefix-pending/then-unbound-key-then-chord",
        )
        .label_if(
            st.stale_would_match > 0,
            "stream/rebind/clear-while-prefix-pending/old-prefix+next-key-begins-something-in-new-bindings",
        )
        .label_if(st.ontop > 0, "stream/rebind/register-on-top")
        .label_if(st.ontop_idle_then_typed > 0, "stream/rebind/register-on-top/idle-then-chord-typed")
        .label_if(st.ontop_pending > 0, "stream/rebind/register-on-top-while-prefix-pending")
        .label_if(st.resync > 0, "stream/rebind/keys-pending-then-unbound-key-then-chord");
    Ok(pass)
}

// ---------------------------------------------------------------------------------------
// parser oracle

/// Does `s`, parsed as `target`, contain an attribute `f<digits>` whose number does not fit
/// `usize`?  (class of the known overflow panic)
fn fkey_overflow(target: Target, s: &str) -> bool {
    fn name_overflows(name: &str) -> bool {
        let b = name.as_bytes();
        b.len() > 1
            && (b[0] == b'f' || b[0] == b'F')
            && b[1..].iter().all(|c| c.is_ascii_digit())
            && name[1..].parse::<usize>().is_err()
    }
    match target {
        Target::Name => name_overflows(s),
        Target::Key => s.split('+').any(name_overflows),
        Target::Chord => s.split(' ').any(|k| k.split('+').any(name_overflows)),
    }
}

fn parse_and_roundtrip<T>(target: Target, s: &str) -> Result<Option<(T, String)>, Fail>
where
    T: std::str::FromStr + std::fmt::Display + PartialEq + std::fmt::Debug,
{
    let tn = match target {
        Target::Key => "key",
        Target::Chord => "chord",
        Target::Name => "keyname",
    };
    let parsed = guard_val(|| s.parse::<T>().ok()).map_err(|f| {
        if fkey_overflow(target, s) {
            Fail::new(
                "parse/fkey-number-overflow-panic",
                format!("{s:?}.parse::<{tn}>() panics (function-key number does not fit usize): {}", f.msg),
            )
        } else {
            Fail::new(
                format!("parse/{tn}/{}", f.sig),
                format!("{s:?}.parse::<{tn}>() panics: {}", f.msg),
            )
        }
    })?;
    let Some(v) = parsed else {
        return Ok(None);
    };
    let printed = guard_val(|| v.to_string()).map_err(|f| {
        Fail::new(
            format!("print/{tn}/{}", f.sig),
            format!("{s:?} parsed to {v:?} whose Display panics: {}", f.msg),
        )
    })?;
    let again = guard_val(|| printed.parse::<T>().ok()).map_err(|f| {
        Fail::new(
            format!("roundtrip/{tn}/reparse-{}", f.sig),
            format!("{s:?} parsed to {v:?}, printed as {printed:?}, parsing that panics: {}", f.msg),
        )
    })?;
    match again {
        Some(w) if w == v => Ok(Some((v, printed))),
        Some(w) => Err(Fail::new(
            format!("roundtrip/{tn}/different-value"),
            format!("{s:?} parsed to {v:?}, printed as {printed:?}, which parses to the different value {w:?}"),
        )),
        None => Err(Fail::new(
            format!("roundtrip/{tn}/printed-form-rejected"),
            format!("{s:?} parsed to {v:?}, printed as {printed:?}, which the parser rejects"),
        )),
    }
}

fn key_labels(keys: &[Key], labels: &mut BTreeSet<&'static str>) {
    for k in keys {
        if !k.mode.is_empty() {
            labels.insert("parse/ok/with-modifiers");
        }
        match k.name {
            KeyName::F(_) => labels.insert("parse/ok/function-key"),
            KeyName::Char(' ') => labels.insert("parse/ok/space"),
            KeyName::Char(_) => labels.insert("parse/ok/char"),
            _ => labels.insert("parse/ok/named"),
        };
    }
}

fn check_parse(target: Target, s: &str) -> Outcome {
    let mut labels: BTreeSet<&'static str> = BTreeSet::new();
    let accepted;
    let mut printed_differs = false;
    match target {
        Target::Key => {
            let r = parse_and_roundtrip::<Key>(target, s)?;
            accepted = r.is_some();
            if let Some((k, p)) = r {
                key_labels(&[k], &mut labels);
                printed_differs = p != s;
            }
            labels.insert(if accepted { "parse/key/accepted" } else { "parse/key/rejected" });
        }
        Target::Chord => {
            let r = parse_and_roundtrip::<KeyChord>(target, s)?;
            accepted = r.is_some();
            if let Some((c, p)) = r {
                key_labels(c.keys(), &mut labels);
                if c.keys().len() > 1 {
                    labels.insert("parse/ok/multi-key-chord");
                }
                printed_differs = p != s;
            }
            labels.insert(if accepted { "parse/chord/accepted" } else { "parse/chord/rejected" });
        }
        Target::Name => {
            let r = parse_and_roundtrip::<KeyName>(target, s)?;
            accepted = r.is_some();
            if let Some((n, p)) = r {
                key_labels(&[Key::from(n)], &mut labels);
                printed_differs = p != s;
            }
            labels.insert(if accepted { "parse/keyname/accepted" } else { "parse/keyname/rejected" });
        }
    }
    if !s.is_ascii() {
        labels.insert("parse/input-non-ascii");
        if s.to_lowercase().len() != s.len() {
            labels.insert("parse/input-lowercase-changes-byte-length");
        }
        if accepted {
            labels.insert("parse/ok/non-ascii-input");
        }
    }
    if s.chars().next().is_some_and(|c| c.len_utf8() > 1) {
        labels.insert("parse/input-starts-multibyte");
    }
    if printed_differs {
        labels.insert("parse/ok/printed-form-differs-from-input");
    }
    // non-trivial: the round trip was exercised
    let mut p = Pass::new(accepted).label("parse");
    for l in labels {
        p = p.label(l);
    }
    Ok(p)
}

// ---------------------------------------------------------------------------------------
// generators

fn chord_strategy(pool: u8) -> BoxedStrategy<Vec<K>> {
    prop_oneof![
        1 => Just(Vec::new()),
        40 => proptest::collection::vec(0..pool, 1..=4),
    ]
    .boxed()
}

fn op_strategy() -> BoxedStrategy<Op> {
    prop_oneof![
        5 => chord_strategy(POOL).prop_map(Op::Register),
        1 => proptest::collection::vec(chord_strategy(POOL), 0..6).prop_map(Op::Override),
    ]
    .boxed()
}

fn ops_strategy() -> BoxedStrategy<Vec<Op>> {
    proptest::collection::vec(op_strategy(), 0..12).boxed()
}

fn seg_strategy() -> BoxedStrategy<Seg> {
    (
        proptest::option::weighted(0.5, any::<u16>()),
        any::<u16>(),
        proptest::option::weighted(0.5, (any::<u16>(), any::<u8>())),
    )
        .prop_map(|(noise, chord, partial)| Seg { noise, chord, partial: noise.and(partial) })
        .boxed()
}

fn rebind_strategy() -> BoxedStrategy<Rebind> {
    (
        proptest::option::weighted(0.7, (any::<u16>(), any::<u8>())),
        proptest::bool::weighted(0.65),
        prop_oneof![2 => Just(u16::MAX), 1 => Just(0u16), 3 => any::<u16>()],
        proptest::collection::vec(op_strategy(), 0..5),
        proptest::collection::vec(seg_strategy(), 0..4),
    )
        .prop_map(|(pending, clear, keep, ops, segs)| Rebind { pending, clear, keep, ops, segs })
        .boxed()
}

fn rebinds_strategy() -> BoxedStrategy<Vec<Rebind>> {
    prop_oneof![
        2 => Just(Vec::new()),
        3 => proptest::collection::vec(rebind_strategy(), 1..=3),
    ]
    .boxed()
}

const MODS: [&str; 10] = [
    "alt", "ctrl", "shift", "press", "super", "hyper", "meta", "capslock", "numlock", "control",
];
const NAMES: [&str; 24] = [
    "left", "up", "right", "down", "pageup", "pagedown", "end", "home", "tab", "enter", "escape",
    "esc", "space", "backspace", "delete", "insert", "mouseleft", "mousemiddle", "mousemove",
    "mouseright", "mousewheeldown", "mousewheelup", "none", "f",
];
/// characters whose lowercase expands, changes byte length, or maps onto ASCII
const ODD_CHARS: [char; 24] = [
    'İ', 'ẞ', 'ǅ', 'Ǆ', 'K', 'Å', 'Σ', 'ς', 'ß', 'ſ', 'ﬀ', 'ﬁ', 'Ａ', 'Ｆ', 'ｆ', 'Ⱥ', 'Ɐ', 'ı',
    'µ', '١', '１', '\u{307}', '\u{a0}', '😀',
];

/// upper-case the ASCII letters selected by `mask`
fn mix_case(s: &str, mask: u32) -> String {
    s.chars()
        .enumerate()
        .map(|(i, c)| {
            if mask >> (i % 32) & 1 == 1 {
                c.to_ascii_uppercase()
            } else {
                c
            }
        })
        .collect()
}

fn cased(s: BoxedStrategy<String>) -> BoxedStrategy<String> {
    (s, prop_oneof![3 => Just(0u32), 1 => Just(u32::MAX), 1 => Just(1u32), 2 => any::<u32>()])
        .prop_map(|(s, m)| mix_case(&s, m))
        .boxed()
}

fn name_token() -> BoxedStrategy<String> {
    let fkey = prop_oneof![
        4 => "[0-9]{1,3}",
        2 => "[0-9]{18,21}",
        1 => "[0-9]{1,30}",
        1 => "0{1,25}[0-9]{1,3}",
        1 => Just("18446744073709551615".to_string()),
        1 => Just("18446744073709551616".to_string()),
    ]
    .prop_map(|d| format!("f{d}"));
    let printable = "[ -~]".prop_map(|s: String| s);
    let quoted = prop_oneof![
        "[ -~]".prop_map(|c| format!("\"{c}\"")),
        proptest::sample::select(ODD_CHARS.to_vec()).prop_map(|c| format!("\"{c}\"")),
        Just("\"\"".to_string()),
        Just("\"".to_string()),
    ];
    prop_oneof![
        4 => cased(proptest::sample::select(NAMES.to_vec()).prop_map(String::from).boxed()),
        4 => cased(fkey.boxed()),
        4 => printable,
        2 => quoted,
        2 => proptest::sample::select(ODD_CHARS.to_vec()).prop_map(String::from),
        1 => (proptest::sample::select(ODD_CHARS.to_vec()), "[0-9]{1,3}").prop_map(|(c, d)| format!("{c}{d}")),
        1 => (proptest::sample::select(vec!["f", "F"]), proptest::sample::select(ODD_CHARS.to_vec()), "[0-9]{0,2}")
            .prop_map(|(f, c, d)| format!("{f}{c}{d}")),
        1 => any::<char>().prop_map(String::from),
        1 => Just(String::new()),
    ]
    .boxed()
}

fn mod_token() -> BoxedStrategy<String> {
    prop_oneof![
        8 => cased(proptest::sample::select(MODS.to_vec()).prop_map(String::from).boxed()),
        1 => Just("ſhift".to_string()),
        1 => Just("ALT\u{307}".to_string()),
        1 => Just("capsloc\u{212a}".to_string()),
    ]
    .boxed()
}

fn key_string() -> BoxedStrategy<String> {
    let token = prop_oneof![3 => mod_token(), 2 => name_token()];
    prop_oneof![
        3 => valid_key_string(),
        // well-shaped: modifiers then a name
        6 => (proptest::collection::vec(mod_token(), 0..4), name_token())
            .prop_map(|(mut m, n)| { m.push(n); m.join("+") }),
        // anything joined with '+': name first, two names, no name, empty attributes
        3 => proptest::collection::vec(token, 0..5).prop_map(|t| t.join("+")),
    ]
    .boxed()
}

/// a key string the grammar accepts (valid modifiers, one valid name), in mixed case
fn valid_key_string() -> BoxedStrategy<String> {
    let name = prop_oneof![
        3 => proptest::sample::select(NAMES[..16].to_vec()).prop_map(String::from),
        2 => "f[0-9]{1,3}",
        1 => "f0{0,20}[0-9]{1,19}",
        3 => "[a-z0-9]",
        1 => "[A-Z]",
        2 => proptest::sample::select(vec!["`", "-", "=", "[", "]", "\\", ";", ",", ".", "/"]).prop_map(String::from),
        1 => Just("\u{212a}".to_string()),
    ];
    let mods = proptest::collection::vec(proptest::sample::select(MODS[..8].to_vec()), 0..4);
    cased(
        (mods, name, any::<u16>())
            .prop_map(|(m, n, at)| {
                // the name may stand anywhere among the modifiers
                let mut t: Vec<String> = m.into_iter().map(String::from).collect();
                let at = if at % 4 == 0 { at as usize * (t.len() + 1) / 65536 } else { t.len() };
                t.insert(at, n);
                t.join("+")
            })
            .boxed(),
    )
}

fn valid_chord_string() -> BoxedStrategy<String> {
    let sep = prop_oneof![6 => Just(" "), 2 => Just("  "), 1 => Just("   ")];
    (
        proptest::collection::vec((valid_key_string(), sep), 1..5),
        prop_oneof![4 => Just(""), 1 => Just(" ")],
        any::<bool>(),
    )
        .prop_map(|(parts, lead, trail)| {
            let mut s = String::from(lead);
            let n = parts.len();
            for (i, (k, sep)) in parts.into_iter().enumerate() {
                s.push_str(&k);
                if i + 1 < n || trail {
                    s.push_str(sep);
                }
            }
            s
        })
        .boxed()
}

fn chord_string() -> BoxedStrategy<String> {
    prop_oneof![3 => shaped_chord_string(), 2 => valid_chord_string()].boxed()
}

fn shaped_chord_string() -> BoxedStrategy<String> {
    let sep = prop_oneof![
        6 => Just(" "), 3 => Just("  "), 1 => Just("   "), 1 => Just("\t"), 1 => Just("\u{a0}"), 1 => Just("\n"),
    ];
    (
        proptest::collection::vec((key_string(), sep), 0..5),
        prop_oneof![3 => Just(""), 1 => Just(" "), 1 => Just("  ")],
    )
        .prop_map(|(parts, lead)| {
            let mut s = String::from(lead);
            let n = parts.len();
            for (i, (k, sep)) in parts.into_iter().enumerate() {
                s.push_str(&k);
                if i + 1 < n || sep.len() > 1 {
                    s.push_str(sep);
                }
            }
            s
        })
        .boxed()
}

/// a grammar-shaped string with one arbitrary character inserted or replacing another
fn mutated(s: BoxedStrategy<String>) -> BoxedStrategy<String> {
    (s, any::<u16>(), prop_oneof![any::<char>(), proptest::sample::select(ODD_CHARS.to_vec())], any::<bool>())
        .prop_map(|(s, pos, c, replace)| {
            let mut chars: Vec<char> = s.chars().collect();
            let at = pos as usize * (chars.len() + 1) / 65536;
            if replace && at < chars.len() {
                chars[at] = c;
            } else {
                chars.insert(at, c);
            }
            chars.into_iter().collect()
        })
        .boxed()
}

fn parse_strategy() -> BoxedStrategy<Case> {
    let arbitrary = prop_oneof![
        2 => any::<String>(),
        2 => proptest::collection::vec(any::<char>(), 0..6).prop_map(|v| v.into_iter().collect::<String>()),
        1 => "[fF+ \"a-c0-9İẞǅ]{0,8}",
    ];
    let for_target = |target: Target| {
        let shaped: BoxedStrategy<String> = match target {
            Target::Key => key_string(),
            Target::Chord => chord_string(),
            Target::Name => name_token(),
        };
        prop_oneof![
            10 => shaped.clone(),
            3 => mutated(shaped),
            1 => chord_string(),
            1 => key_string(),
            1 => name_token(),
        ]
    };
    prop_oneof![
        6 => for_target(Target::Key).prop_map(|s| Case::Parse { target: Target::Key, s }),
        6 => for_target(Target::Chord).prop_map(|s| Case::Parse { target: Target::Chord, s }),
        3 => for_target(Target::Name).prop_map(|s| Case::Parse { target: Target::Name, s }),
        3 => (proptest::sample::select(vec![Target::Key, Target::Chord, Target::Name]), arbitrary)
            .prop_map(|(target, s)| Case::Parse { target, s }),
    ]
    .boxed()
}

// ---------------------------------------------------------------------------------------

impl Property for C18 {
    type Case = Case;

    fn fuzz(&self) -> Option<FuzzSpec> {
        Some(FuzzSpec { target: "c18", jobs: 8, runs: 40_000, max_len: 96, seeds: 300 })
    }

    /// byte 0 selects the parser (key / chord / key name) or, from 3 on, a registration
    /// history: each following byte is a chord of 1-4 pool keys (2 bits length, 3x2 bits keys
    /// from the first four pool keys) -- bit 7 of byte 0 makes every third chord an override map
    fn case_from_bytes(&self, data: &[u8]) -> Option<Case> {
        let (&k, rest) = data.split_first()?;
        Some(match k % 4 {
            0 => Case::Parse { target: Target::Key, s: String::from_utf8_lossy(rest).into_owned() },
            1 => Case::Parse { target: Target::Chord, s: String::from_utf8_lossy(rest).into_owned() },
            2 => Case::Parse { target: Target::Name, s: String::from_utf8_lossy(rest).into_owned() },
            _ => {
                let chord = |b: u8| -> Vec<K> {
                    let len = (b & 3) as usize + 1;
                    (0..len).map(|i| ((b >> (2 + 2 * (i % 3))) & 3) as K).collect()
                };
                let mut ops = Vec::new();
                for (i, b) in rest.iter().take(12).enumerate() {
                    if k & 0x80 != 0 && i % 3 == 2 {
                        ops.push(Op::Override(vec![chord(*b), chord(b.rotate_left(3))]));
                    } else {
                        ops.push(Op::Register(chord(*b)));
                    }
                }
                Case::Map { ops }
            }
        })
    }

    fn case_to_bytes(&self, case: &Case) -> Option<Vec<u8>> {
        match case {
            Case::Parse { target, s } => {
                let mut out = vec![match target {
                    Target::Key => 0u8,
                    Target::Chord => 1,
                    Target::Name => 2,
                }];
                out.extend_from_slice(s.as_bytes());
                Some(out)
            }
            _ => None,
        }
    }

    fn id(&self) -> &'static str {
        "C18"
    }

    fn strategy(&self, _tier: Tier) -> BoxedStrategy<Case> {
        prop_oneof![
            5 => ops_strategy().prop_map(|ops| Case::Map { ops }),
            7 => (ops_strategy(), proptest::collection::vec(seg_strategy(), 0..8), rebinds_strategy())
                .prop_map(|(ops, segs, rebinds)| Case::Stream { ops, segs, rebinds }),
            50 => parse_strategy(),
        ]
        .boxed()
    }

    fn check(&self, case: &Case) -> Outcome {
        match case {
            Case::Map { ops } => check_map(ops),
            Case::Stream { ops, segs, rebinds } => check_stream(ops, segs, rebinds),
            Case::Parse { target, s } => check_parse(*target, s),
        }
    }

    fn cases(&self, tier: Tier) -> u32 {
        tier.pick(60_000, 1_200_000)
    }

    fn rule(&self) -> String {
        "generated, weights 5:7:50 — (Map) histories vec(register(chord of 0..=4 keys from a pool of 6 keys that share names and differ in modifiers, two of them the same letter in lower and upper case) | register_override(other map built from 0..6 registrations), 0..12) with a distinct value per registration; after EVERY step all 1554 non-empty chords of length <=4 over the pool are looked up and for_each is compared with a dictionary model, and the return value of register is compared with what its doc comment promises; non-trivial = some registration superseded a bound proper prefix or bound extensions. \
         (Stream) the same histories on KeyMap and KeyMapHandler, then 0..8 segments typed key by key through lookup_state (state vector emptied first) and KeyMapHandler::handle (chained): a bound chord, optionally preceded by one key that begins no bound chord (from the pool or two keys never registered), that key optionally preceded by an abandoned proper prefix of a bound chord (the key is then one that occurs in no bound chord); non-trivial = a multi-key chord or an unbound key was typed. \
         In 3 of 5 Stream cases the SAME KeyMapHandler then lives through 1..=3 rebinds, each: with p=0.7 a proper prefix of a bound chord of 2+ keys is typed from idle and left pending (must not fire); then either (p=0.65) KeyMapHandler::clear() followed by a new history = the operations of the previous history selected by a 16-bit mask (all / none / random: a reloaded configuration) + 0..5 fresh operations, with values from a new range, or (p=0.35) 0..5 operations registered on top without clear; then 0..4 more segments against the new bindings (lookup_state runs on a fresh KeyMap holding the same bindings). Right after clear() the handler counts as idle, so the first segment carries both demands (signatures matcher/handler/after-clear/*); while a prefix is pending and nothing has reset the matcher, the next segment is forced to begin with a key that occurs in no bound chord and only the firing of the chord after it is demanded (matcher/handler/after-register/*). \
         (Parse) strings for FromStr of Key / KeyChord / KeyName: grammar-shaped (modifier and name tokens in mixed case, f+1..30 digits incl. usize::MAX and usize::MAX+1, quoted characters, characters whose lowercase changes byte length such as İ ẞ ǅ K, attributes joined by '+', keys joined by 1..3 spaces/tab/NBSP, leading/trailing spaces), the same with one arbitrary character inserted or replaced, and arbitrary Unicode strings; non-trivial = the string was accepted, so the print/parse round trip ran. \
         sweep: (a) every history of 4 registrations over the 14 chords of length <=3 over 2 keys (38416 histories, all 30 chords of length <=4 looked up after every step); (b) every Unicode scalar value c in the strings c, c+\"1\", \"f\"+c, \"ctrl+\"+c, for all three parsers".into()
    }

    fn assumptions(&self) -> Vec<String> {
        vec![
            "dictionary model: register(c, v) with non-empty c removes every bound chord that is a prefix of c, an extension of c, or c itself, then binds c to v; registering the empty chord changes nothing; register_override(other) registers other's pairs (other is prefix-free, so their order cannot matter)".into(),
            "for_each is compared as a set of (chord, value) pairs".into(),
            "register's return value is checked only against its doc comment: Some(Ok(previous value)) when exactly that chord was bound, Some(Err(map listing the bindings below the chord)) when it was a proper prefix of bound chords, None otherwise".into(),
            "idle state of the stateful matcher = empty chord vector (lookup_state; the harness empties it before each segment) / a fresh KeyMapHandler, one whose last call fired a chord, or one on which clear() has been called since the last key".into(),
            "KeyMapHandler::clear() (undocumented; it is the handler's only reset and drops all bindings) puts the handler into the state of KeyMapHandler::new(): no bindings and no pending keys, whatever was typed before; chords of the bindings registered afterwards are therefore typed from idle".into(),
            "KeyMapHandler::register feeds no keys: an idle handler stays idle across registrations (as a fresh handler does while its first bindings are registered). About keys that are PENDING when bindings are registered without clear() the oracle demands nothing (the property does not say what an old prefix means under new bindings), except the clause that holds for all key sequences: after a key that begins no bound chord of the current bindings (the harness takes one that occurs in no bound chord at all) the bound chord typed next fires at its last key".into(),
            "after an unbound key the oracle only requires that the bound chord typed next returns its value at its last key; it is silent about the result for the unbound key itself and for the chord's earlier keys".into(),
            "parsers: Error values are not compared, only Ok values (Key, KeyChord, KeyName implement Eq)".into(),
        ]
    }

    fn sweep(&self, tier: Tier, _seed: u64, sw: &mut Sweep) -> Result<(), (Case, Fail)> {
        // (a) all short histories over a tiny alphabet
        let mut chords: Vec<Vec<K>> = Vec::new();
        for len in 1..=3usize {
            for code in 0..(1usize << len) {
                chords.push((0..len).map(|i| (code >> i & 1) as K).collect());
            }
        }
        let hist_len = tier.pick(4, 5);
        let n = chords.len();
        let total = n.pow(hist_len as u32);
        let mut nontrivial = 0u64;
        for code in 0..total {
            let mut c = code;
            let ops: Vec<Op> = (0..hist_len)
                .map(|_| {
                    let op = Op::Register(chords[c % n].clone());
                    c /= n;
                    op
                })
                .collect();
            match replay_history(&ops, 2, 4, true, 0, |_, _| {}) {
                Ok((_, _, st)) => nontrivial += st.nontrivial() as u64,
                Err(f) => return Err((Case::Map { ops }, f)),
            }
        }
        sw.evaluations += total as u64;
        sw.nontrivial += nontrivial;
        *sw.labels.entry("sweep/map-history".into()).or_default() += total as u64;

        // (b) every scalar value in the positions where the parsers slice or count characters
        let mut accepted = 0u64;
        let mut evals = 0u64;
        for cp in 0..=0x10FFFFu32 {
            let Some(c) = char::from_u32(cp) else { continue };
            let strings = [format!("{c}"), format!("{c}1"), format!("f{c}"), format!("ctrl+{c}")];
            for s in &strings {
                for target in [Target::Key, Target::Chord, Target::Name] {
                    evals += 1;
                    let r = match target {
                        Target::Key => parse_and_roundtrip::<Key>(target, s).map(|r| r.is_some()),
                        Target::Chord => parse_and_roundtrip::<KeyChord>(target, s).map(|r| r.is_some()),
                        Target::Name => parse_and_roundtrip::<KeyName>(target, s).map(|r| r.is_some()),
                    };
                    match r {
                        Ok(ok) => accepted += ok as u64,
                        Err(f) => return Err((Case::Parse { target, s: s.clone() }, f)),
                    }
                }
            }
        }
        sw.evaluations += evals;
        sw.nontrivial += accepted;
        *sw.labels.entry("sweep/parse-every-scalar".into()).or_default() += evals;
        *sw.labels.entry("sweep/parse-every-scalar/accepted".into()).or_default() += accepted;
        sw.exhaustive_note = Some(format!(
            "all {total} histories of {hist_len} registrations over the 14 chords of length <=3 over 2 keys, lookups of all 30 chords of length <=4 after every step; every Unicode scalar value c in c, c1, fc, ctrl+c for the Key, KeyChord and KeyName parsers"
        ));
        sw.samples.push(serde_json::json!({"Map": {"ops": [{"Register": [0, 1]}, {"Register": [0]}, {"Register": [0, 1, 1]}, {"Register": [0, 1]}]}}));
        Ok(())
    }
}
