//! C06 — the library reads back its own SGR output and applies it with SGR semantics.
//!
//! (a) round trip: faces / face modifications / characters -> TTYEncoder (true colour) ->
//!     TTYCommandDecoder under generated chunking -> must be the same face changes and
//!     characters (for everything a face-modification record can express).
//! (b) cell writer: histories of SGR sequences (standard spellings) and text written through
//!     `CellWrite::tty_writer` in arbitrary chunks; the faces of the produced cells must follow
//!     the reference SGR state machine (`refsgr`), starting from a generated initial face.

use crate::c05::{self, FaceSpec, FmSpec};
use crate::engine::*;
use crate::hostile;
use crate::refsgr::{self, SgrParam, SgrState};
use proptest::prelude::*;
use serde::{Deserialize, Serialize};
use std::io::Write;
use surf_n_term::decoder::{Decoder, TTYCommandDecoder};
use surf_n_term::encoder::{ColorDepth, Encoder, TTYEncoder};
use surf_n_term::render::CellKind;
use surf_n_term::{Cell, CellWrite, Face, FaceAttrs, FaceModify, TerminalCaps, TerminalCommand, UnderlineStyle};

pub struct C06;

#[derive(Clone, Debug, Serialize, Deserialize)]
pub enum RtItem {
    Face(FaceSpec),
    Modify(FmSpec),
    Char(char),
}

#[derive(Clone, Debug, Serialize, Deserialize)]
pub enum WItem {
    Sgr(Vec<SgrParam>),
    Text(String),
}

#[derive(Clone, Debug, Serialize, Deserialize)]
pub enum Case {
    /// `failed_before`: the encoder first encoded item `i % len` into a writer that refuses
    /// after `n` bytes (see c05::RefusingWriter); that call's outcome is ignored
    RoundTrip {
        items: Vec<RtItem>,
        cuts: Vec<u16>,
        #[serde(default)]
        failed_before: Option<(u8, u8)>,
    },
    Writer { initial: FaceSpec, items: Vec<WItem>, cuts: Vec<u16> },
}

fn esc(b: &[u8]) -> String {
    String::from_utf8_lossy(b).escape_debug().to_string()
}

fn expected_for_face(f: &FaceSpec) -> FaceModify {
    let face = f.to_face();
    let style = face.attrs.underline();
    FaceModify {
        reset: true,
        fg: face.fg,
        bg: face.bg,
        underline: (style != UnderlineStyle::None).then_some(style),
        underline_color: None,
        bold: face.attrs.contains(FaceAttrs::BOLD).then_some(true),
        italic: face.attrs.contains(FaceAttrs::ITALIC).then_some(true),
        blink: face.attrs.contains(FaceAttrs::BLINK).then_some(true),
        strike: face.attrs.contains(FaceAttrs::STRIKE).then_some(true),
    }
}

fn check_roundtrip(items: &[RtItem], cuts: &[u16], failed_before: Option<(u8, u8)>) -> Outcome {
    let caps = TerminalCaps { depth: ColorDepth::TrueColor, glyphs: false, kitty_keyboard: false };
    let mut enc = TTYEncoder::new(caps);
    if let Some((i, room)) = failed_before {
        let cmd = match &items[i as usize % items.len()] {
            RtItem::Face(f) => TerminalCommand::Face(f.to_face()),
            RtItem::Modify(m) => TerminalCommand::FaceModify(m.to_lib()),
            RtItem::Char(c) => TerminalCommand::Char(*c),
        };
        let mut w = c05::RefusingWriter { room: room as usize };
        let _ = guard_val(|| enc.encode(&mut w, cmd))?;
    }
    let mut bytes = Vec::new();
    let mut expected: Vec<TerminalCommand> = Vec::new();
    for item in items {
        let cmd = match item {
            RtItem::Face(f) => {
                expected.push(TerminalCommand::FaceModify(expected_for_face(f)));
                TerminalCommand::Face(f.to_face())
            }
            RtItem::Modify(m) => {
                if !m.is_noop() {
                    expected.push(TerminalCommand::FaceModify(m.to_lib()));
                }
                TerminalCommand::FaceModify(m.to_lib())
            }
            RtItem::Char(c) => {
                expected.push(TerminalCommand::Char(*c));
                TerminalCommand::Char(*c)
            }
        };
        guard_val(|| enc.encode(&mut bytes, cmd))?
            .map_err(|e| Fail::new("roundtrip/encode-error", format!("{e:?}")))?;
    }
    let run = |chunks: &[&[u8]]| -> Result<Vec<TerminalCommand>, Fail> {
        let mut dec = TTYCommandDecoder::new();
        let mut out = Vec::new();
        for c in chunks {
            let mut cur = std::io::Cursor::new(*c);
            dec.decode_into(&mut cur, &mut out)
                .map_err(|e| Fail::new("roundtrip/decode-error", format!("{e:?}")))?;
        }
        Ok(out)
    };
    let cutpos = hostile::cuts_from(cuts, bytes.len());
    let variants: Vec<(&str, Vec<&[u8]>)> = vec![
        ("single buffer", vec![&bytes[..]]),
        ("generated chunks", hostile::split(&bytes, &cutpos)),
        ("byte at a time", bytes.chunks(1).collect()),
    ];
    for (what, chunks) in variants {
        let got = guard(|| run(&chunks))?;
        if got != expected {
            let idx = got.iter().zip(expected.iter()).position(|(a, b)| a != b).unwrap_or(got.len().min(expected.len()));
            let class = match items.iter().filter(|i| !matches!(i, RtItem::Modify(m) if m.is_noop())).nth(idx) {
                Some(RtItem::Face(_)) => "face",
                Some(RtItem::Modify(_)) => "face-modify",
                Some(RtItem::Char(_)) => "char",
                None => "extra",
            };
            return Err(Fail::new(
                format!("roundtrip/{class}"),
                format!(
                    "bytes \"{}\" ({what}): item #{idx} read back as {:?}, written {:?}; items {:?}",
                    esc(&bytes),
                    got.get(idx),
                    expected.get(idx),
                    items
                ),
            ));
        }
    }
    let nt = items.iter().any(|i| match i {
        RtItem::Face(f) => (f.fg.is_some() || f.bg.is_some()) && (f.flags != 0 || f.underline != 0 || (f.fg.is_some() && f.bg.is_some())),
        RtItem::Modify(m) => {
            let after_fg = m.bg.is_some() || m.underline.is_some() || m.underline_color.is_some() || m.bold.is_some() || m.italic.is_some() || m.blink.is_some() || m.strike.is_some();
            (m.fg.is_some() && after_fg) || (m.bg.is_some() && (m.underline.is_some() || m.bold.is_some() || m.strike.is_some()))
        }
        _ => false,
    });
    Ok(Pass::new(nt)
        .label("roundtrip")
        .label_if(items.iter().any(|i| matches!(i, RtItem::Char(c) if (*c as u32) >= 0x80)), "non-ascii-char")
        .label_if(items.iter().any(|i| matches!(i, RtItem::Modify(m) if m.underline_color.is_some())), "underline-colour")
        .label_if(nt, "colour-followed-by-parameter"))
}

#[derive(Default)]
struct Recorder {
    face: Face,
    wraps: bool,
    cells: Vec<(char, Face)>,
    other: usize,
}

impl CellWrite for Recorder {
    fn face(&self) -> Face {
        self.face
    }
    fn set_face(&mut self, face: Face) -> Face {
        std::mem::replace(&mut self.face, face)
    }
    fn wraps(&self) -> bool {
        self.wraps
    }
    fn set_wraps(&mut self, wraps: bool) -> bool {
        std::mem::replace(&mut self.wraps, wraps)
    }
    fn put_cell(&mut self, cell: Cell) -> bool {
        match cell.kind() {
            CellKind::Char(c) => self.cells.push((*c, cell.face())),
            _ => self.other += 1,
        }
        true
    }
}

fn check_writer(initial: &FaceSpec, items: &[WItem], cuts: &[u16]) -> Outcome {
    let mut bytes = Vec::new();
    let mut st = SgrState::from_face(&initial.to_face());
    let mut expected: Vec<(char, Face)> = Vec::new();
    for item in items {
        match item {
            WItem::Sgr(params) => {
                bytes.extend(b"\x1b[");
                bytes.extend(refsgr::print(params).as_bytes());
                bytes.push(b'm');
                st.apply_all(params);
            }
            WItem::Text(s) => {
                bytes.extend(s.as_bytes());
                for c in s.chars() {
                    expected.push((c, st.to_face()));
                }
            }
        }
    }
    let run = |chunks: &[&[u8]]| -> Result<Vec<(char, Face)>, Fail> {
        let mut rec = Recorder { face: initial.to_face(), ..Default::default() };
        {
            let mut w = rec.by_ref().tty_writer();
            for c in chunks {
                w.write_all(c)
                    .map_err(|e| Fail::new("writer/io-error", format!("write failed: {e:?}")))?;
            }
        }
        Ok(rec.cells)
    };
    let cutpos = hostile::cuts_from(cuts, bytes.len());
    let variants: Vec<(&str, Vec<&[u8]>)> = vec![
        ("single write", vec![&bytes[..]]),
        ("generated chunks", hostile::split(&bytes, &cutpos)),
        ("byte at a time", bytes.chunks(1).collect()),
    ];
    for (what, chunks) in variants {
        let got = guard(|| run(&chunks))?;
        if got != expected {
            let idx = got.iter().zip(expected.iter()).position(|(a, b)| a != b).unwrap_or(got.len().min(expected.len()));
            let class = match (got.get(idx), expected.get(idx)) {
                (Some((gc, _)), Some((wc, _))) if gc != wc => "text",
                (Some(_), Some(_)) => "face",
                _ => "cell-count",
            };
            return Err(Fail::new(
                format!("writer/{class}"),
                format!(
                    "bytes \"{}\" from initial face {:?} ({what}): cell #{idx} is {:?}, SGR semantics give {:?}",
                    esc(&bytes),
                    initial.to_face(),
                    got.get(idx),
                    expected.get(idx)
                ),
            ));
        }
    }
    // non-triviality: a set followed later by a clear of the same attribute, two underline
    // styles, or strike
    let flat: Vec<&SgrParam> = items.iter().filter_map(|i| match i { WItem::Sgr(p) => Some(p.iter()), _ => None }).flatten().collect();
    let pos = |f: fn(&SgrParam) -> bool| flat.iter().position(|p| f(p));
    let set_clear = [
        (pos(|p| matches!(p, SgrParam::Bold)), flat.iter().rposition(|p| matches!(p, SgrParam::BoldOff | SgrParam::Reset | SgrParam::Empty))),
        (pos(|p| matches!(p, SgrParam::Italic)), flat.iter().rposition(|p| matches!(p, SgrParam::ItalicOff))),
        (pos(|p| matches!(p, SgrParam::Underline | SgrParam::UnderlineSub(1..=5) | SgrParam::DoubleUnderline)), flat.iter().rposition(|p| matches!(p, SgrParam::UnderlineOff | SgrParam::UnderlineSub(0)))),
        (pos(|p| matches!(p, SgrParam::Blink)), flat.iter().rposition(|p| matches!(p, SgrParam::BlinkOff))),
        (pos(|p| matches!(p, SgrParam::Strike)), flat.iter().rposition(|p| matches!(p, SgrParam::StrikeOff))),
    ]
    .iter()
    .any(|(s, c)| matches!((s, c), (Some(s), Some(c)) if s < c));
    let styles: std::collections::BTreeSet<u8> = flat
        .iter()
        .filter_map(|p| match p {
            SgrParam::Underline => Some(1),
            SgrParam::DoubleUnderline => Some(2),
            SgrParam::UnderlineSub(n) if *n > 0 => Some(*n),
            _ => None,
        })
        .collect();
    let strike = flat.iter().any(|p| matches!(p, SgrParam::Strike));
    let has_text = !expected.is_empty();
    Ok(Pass::new(has_text && (set_clear || styles.len() >= 2 || strike))
        .label("writer")
        .label_if(set_clear, "set-then-clear")
        .label_if(styles.len() >= 2, "two-underline-styles")
        .label_if(strike, "strike")
        .label_if(flat.iter().any(|p| matches!(p, SgrParam::Rgb { .. } | SgrParam::Idx { .. } | SgrParam::Named { .. })), "colours"))
}

impl Property for C06 {
    type Case = Case;

    fn fuzz(&self) -> Option<FuzzSpec> {
        // entropy-driven target: libFuzzer's bytes replace the generator's random numbers
        Some(FuzzSpec { target: "gen", jobs: 8, runs: 500_000, max_len: 2048, seeds: 64 })
    }

    fn id(&self) -> &'static str {
        "C06"
    }

    fn isolate(&self) -> bool {
        // embeds TTYCommandDecoder (see C02/C03)
        true
    }

    fn strategy(&self, _tier: Tier) -> BoxedStrategy<Case> {
        let ch = prop_oneof![
            6 => (0x20u32..0x7f).prop_map(|c| char::from_u32(c).unwrap()),
            1 => proptest::sample::select(vec!['m', ';', ':', '[', '0', '\n', '\t', '\u{0}', '\u{7f}', '世', '🤩', '\u{80}', '\u{10ffff}']),
            2 => any::<char>().prop_filter("not ESC", |c| *c != '\u{1b}'),
        ];
        let rt_item = prop_oneof![
            4 => c05::face_spec().prop_map(RtItem::Face),
            4 => c05::fm_spec().prop_map(RtItem::Modify),
            3 => ch.clone().prop_map(RtItem::Char),
        ];
        let cuts = || proptest::collection::vec(any::<u16>(), 0..6);
        let roundtrip = (proptest::collection::vec(rt_item, 1..8), cuts(), proptest::option::weighted(0.2, (any::<u8>(), 0u8..48)))
            .prop_map(|(items, cuts, failed_before)| Case::RoundTrip { items, cuts, failed_before });
        let witem = prop_oneof![
            3 => refsgr::params_strategy(false).prop_map(WItem::Sgr),
            2 => proptest::collection::vec(ch, 1..5).prop_map(|v| WItem::Text(v.into_iter().collect())),
        ];
        let writer = (c05::face_spec(), proptest::collection::vec(witem, 1..12), cuts())
            .prop_map(|(initial, items, cuts)| Case::Writer { initial, items, cuts });
        prop_oneof![1 => roundtrip, 1 => writer].boxed()
    }

    fn check(&self, case: &Case) -> Outcome {
        match case {
            Case::RoundTrip { items, cuts, failed_before } => check_roundtrip(items, cuts, *failed_before),
            Case::Writer { initial, items, cuts } => check_writer(initial, items, cuts),
        }
    }

    fn cases(&self, tier: Tier) -> u32 {
        tier.pick(80_000, 800_000)
    }

    fn rule(&self) -> String {
        "(a) 50%: 1-7 items out of Face (optional opaque fg/bg x 32 flag subsets x 6 underline styles) / FaceModify (every field combination incl. underline colour, reset) / Char (any scalar except ESC) encoded by one TTYEncoder in true colour and decoded by TTYCommandDecoder as a single buffer, in 1-6 generated chunks and byte at a time; expected = the same face changes (reset + every expressible field for Face) and characters. (b) 50%: histories of 1-11 SGR sequences (1-5 parameters in standard spelling: 0, empty, 1/22, 3/23, 4, 4:0-4:5, 21, 24, 5/25, 9/29, 30-37, 40-47, 90-97, 100-107, 38/48/58 in all four spellings) and text, written through CellWrite::tty_writer from a generated initial face with the same three chunkings; every produced cell must carry the face of the reference SGR state machine. non-trivial = (a) a colour followed by at least one more parameter, (b) text plus a set followed later by a clear of the same attribute, two underline styles, or strike".into()
    }

    fn assumptions(&self) -> Vec<String> {
        vec![
            "SGR codes a face-modification record cannot express (2, 7, 27, 39, 49, 53, 59) are outside the generated domain, as the property scopes the claim to what the record can express".into(),
            "reverse video of a Face is not expressible by the record and is ignored in (a); an initial reverse attribute persists until reset in (b)".into(),
            "RGB values of the 16 named colours are the library's pinned table".into(),
        ]
    }
}
